#!/usr/bin/env python3-vt
"""Validate MANIFEST.json and every evidence file against the given schemas."""
import json, sys, glob, jsonschema
ok = True
ms = json.load(open('/root/.vp/MANIFEST.schema.json'))
es = json.load(open('/root/.vp/EVIDENCE.schema.json'))
try:
    jsonschema.validate(json.load(open('/verif/MANIFEST.json')), ms); print('MANIFEST ok')
except Exception as e:
    ok = False; print('MANIFEST INVALID', e)
for f in sorted(glob.glob('/verif/evidence/*.json')):
    try:
        jsonschema.validate(json.load(open(f)), es)
    except Exception as e:
        ok = False; print(f, 'INVALID', str(e)[:300])
print('evidence files:', len(glob.glob('/verif/evidence/*.json')))
sys.exit(0 if ok else 1)
