#!/bin/bash
# Run a tier of all enabled checks sequentially (full machine), log one line per check. Evidence files are
# whatever each check writes; nothing is restored or hidden. A timed-out run (rc=124) writes no evidence.
#   tools_run_all.sh quick|thorough [per-check timeout seconds] [stop-at epoch seconds] [ids...]
cd /verif
TIER="${1:-quick}"; TMO="${2:-1800}"; STOP="${3:-0}"; shift 3 2>/dev/null
IDS="$@"
[ -z "$IDS" ] && IDS=$(python3 -c "import json; print(' '.join(json.load(open('checks.json'))['enabled']))")
LOG=/verif/.scratch/runall-$TIER.log
for id in $IDS; do
  if [ "$STOP" != "0" ] && [ "$(date +%s)" -gt "$STOP" ]; then echo "$(date +%T) stop time reached before $id" >> $LOG; break; fi
  t0=$(date +%s)
  timeout $TMO ./check $id $TIER > .scratch/runall-$id-$TIER.out 2>&1; rc=$?
  t1=$(date +%s)
  echo "$(date +%T) $id $TIER rc=$rc wall=$((t1-t0))s $(grep -E '^SUMMARY|^VIOLATION' .scratch/runall-$id-$TIER.out | head -3 | cut -c1-160 | tr '\n' ' ')" >> $LOG
done
echo "$(date +%T) done" >> $LOG
