#!/usr/bin/env python3
"""Generate MANIFEST.json from checks.json (single source of truth) + properties.jsonl."""
import json, os
root = os.path.dirname(os.path.abspath(__file__))
reg = json.load(open(os.path.join(root, 'checks.json')))
props = [json.loads(l) for l in open(os.path.join(root, 'properties.jsonl'))]
import glob
reg['checks'] = []
for f in sorted(glob.glob(os.path.join(root, 'harness', '*', 'checks.d', '*.json'))):
    b = os.path.basename(os.path.dirname(os.path.dirname(f)))
    c = json.load(open(f))
    c['bin'] = b
    reg['checks'].append(c)
claimed = {c['id']: c for c in reg['checks'] if c['id'] in reg.get('enabled', [])}
checks = []
for p in props:
    c = claimed.get(p['id'])
    if not c: continue
    checks.append({
        'property_id': c['id'],
        'quick_cmd': f"./check {c['id']} quick",
        'thorough_cmd': f"./check {c['id']} thorough",
        'evidence_file': f"/verif/evidence/{c['id']}.json",
        'replay_cmd_template': f"./check {c['id']} --replay {{path}}",
        'engine': c['bin'],
        'level_claimed': {'category': c['level'], 'text': c['text'], 'design_ref': c.get('design_ref', 'DESIGN.md §4 ' + c['id'])},
        'level_note': c['note'],
        'technique': c['technique'],
    })
na = []
for p in props:
    if p['id'] not in claimed:
        na.append({'property_id': p['id'], 'reason': reg.get('not_applicable', {}).get(p['id'], 'not claimed yet: check not built (see DESIGN.md §7)')})
engines = {}
for c in claimed.values():
    engines.setdefault(c['bin'], []).append(c['id'])
bins = sorted(engines.keys())
setup = 'cd /verif/harness && for c in ' + ' '.join(bins) + '; do CARGO_NET_OFFLINE=true CARGO_TARGET_DIR=/verif/.target cargo build --release --offline -p $c || exit 1; done'
man = {
    'version': 1,
    'setup_cmd': setup,
    'hooks': reg['hooks'],
    'engines': [{'name': b, 'path': f'/verif/harness/{b}', 'serves_properties': ids, 'kind_free_text': reg['engine_kinds'].get(b, '')} for b, ids in sorted(engines.items())],
    'checks': checks,
    'notes': reg.get('notes', ''),
    'not_applicable': na,
}
json.dump(man, open(os.path.join(root, 'MANIFEST.json'), 'w'), indent=1)
print(f"MANIFEST.json: {len(checks)} checks, {len(na)} not_applicable")
