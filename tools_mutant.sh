#!/bin/bash
# Run checks against a MUTATED scratch copy of /repo without touching /repo.
#   tools_mutant.sh <ws> prepare            create/reset scratch worktree /tmp/mutws-<ws>/repo at /repo HEAD (clean)
#   (edit files under /tmp/mutws-<ws>/repo by hand, or:)
#   tools_mutant.sh <ws> apply <patch>      git apply a patch inside the scratch worktree
#   tools_mutant.sh <ws> run <ID> [tier]    sync /verif/harness, build against the scratch worktree, run the check
#   tools_mutant.sh <ws> diff               print the current mutation as a patch (save it under harness/mutants/<ID>-<name>.patch)
#   tools_mutant.sh <ws> clean              remove worktree + harness copy + target
# Evidence/replays of mutant runs go to /tmp/mutws-<ws>/verif (never into /verif).
# `run` exit status is the check's (1 + VIOLATION line expected for a detected mutant).
set -u
WS="/tmp/mutws-$1"; CMD="${2:-}"
case "$CMD" in
 clean)
  git -C /repo worktree remove --force "$WS/repo" 2>/dev/null
  rm -rf "$WS"; git -C /repo worktree prune; echo cleaned ;;
 prepare)
  mkdir -p "$WS/verif"
  if [ ! -d "$WS/repo" ]; then
    git -C /repo worktree add --detach "$WS/repo" HEAD >/dev/null 2>&1 || { echo "cannot create worktree"; exit 2; }
  fi
  git -C "$WS/repo" checkout -q --detach "$(git -C /repo rev-parse HEAD)" && git -C "$WS/repo" checkout -q -- . && git -C "$WS/repo" clean -fdq
  echo "scratch worktree ready: $WS/repo" ;;
 apply)
  git -C "$WS/repo" apply "$3" || { echo "patch does not apply"; exit 2; } ;;
 diff)
  git -C "$WS/repo" diff ;;
 run)
  ID="$3"; TIER="${4:-quick}"
  mkdir -p "$WS/verif"
  rsync -rlpc --delete /verif/harness/ "$WS/harness/"
  grep -rl '/repo/' "$WS/harness" --include=Cargo.toml | xargs sed -i "s#\"/repo/#\"$WS/repo/#g"
  sed -i "s#target-dir = .*#target-dir = \"$WS/target\"#" "$WS/harness/.cargo/config.toml"
  cp /verif/known_findings.json "$WS/verif/" 2>/dev/null
  BIN=$(python3 -c "
import json,glob,os
for f in sorted(glob.glob('$WS/harness/*/checks.d/$ID.json')):
    print(os.path.basename(os.path.dirname(os.path.dirname(f))))
")
  [ -z "$BIN" ] && { echo "no check registered for $ID"; exit 2; }
  # reuse an already built librocksdb.a (the C++ build takes very long) when one exists in the coordinator's target dir
  RLIB=$(find /verif/.target/release/build -name librocksdb.a 2>/dev/null | head -1)
  if [ -n "$RLIB" ]; then export ROCKSDB_LIB_DIR="$(dirname "$RLIB")" ROCKSDB_STATIC=1; fi
  (cd "$WS/harness" && CARGO_NET_OFFLINE=true CARGO_TARGET_DIR="$WS/target" cargo build --release --offline -p "$BIN" >"$WS/build.log" 2>&1) || { echo "BUILD FAILED"; tail -30 "$WS/build.log"; exit 2; }
  cd "$WS/verif" && VERIF_ROOT="$WS/verif" "$WS/target/release/$BIN" "$ID" "$TIER" ;;
 *) echo "usage: see header"; exit 2 ;;
esac
