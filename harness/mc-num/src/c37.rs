//! C37 — resource assertions accept exactly the balances they describe (pure-logic half).
//!
//! Bounded-exhaustive enumeration of constraints x balances through the real
//! `ManifestResourceConstraint::validate_fungible / validate_non_fungible`,
//! `GeneralResourceConstraint::{is_valid_for_*_use, normalize}` and
//! `ManifestResourceConstraints::validate` (`validate_only` / `validate_includes`).
//!
//! Constraints: NonZeroAmount; ExactAmount / AtLeastAmount over {0, 1 atto, 1, 1.5, 2, -1};
//! ExactNonFungibles / AtLeastNonFungibles over all subsets of {a,b}; General = lower in {NonZero, >=0,
//! >=1 atto, >=1, >=1.5, >=2, >=-1} x upper in {<=0, <=1 atto, <=1, <=1.5, <=2, <=3, <=-1, unbounded} x
//! required subset of {a,b} x allowed in {Any} + all allow-lists subset of {a,b,c}  (7*8*4*9 = 2016).
//! Balances: fungible amounts {0, 1 atto, 1 - 1 atto, 1, 1.5, 2, 3, 3 + 1 atto}; id sets = all 16 subsets
//! of {a,b,c,d}. The universe exceeds every constant of the alphabet by one step, so every satisfiable
//! constraint of the alphabet has a witness in it.
//!
//! Reference = the mathematical reading, on plain integers (attos as i128, id sets as bit masks):
//!   amount within the bounds  AND  required ids all present  AND  every id present is allowed,
//! where a non-fungible balance has amount = number of ids and a fungible balance has no ids.
//!
//! Checked, for every constraint the code itself declares valid for the use:
//!   validate(balance) is Ok  <=>  reference, for every balance of the universe;
//!   some balance of the universe satisfies it (declared valid => satisfiable);
//!   General: after `normalize()` exactly the same balances are accepted, and the normalised constraint is
//!   again validated according to *its* meaning;
//! and for `ManifestResourceConstraints::validate`: all ordered pairs of single-resource cases over two
//! resources (fungible/non-fungible in all four combinations), with and without a balance of a third,
//! unspecified resource, in both modes (only / includes).
//! Constraints the code declares invalid carry no obligation (counted; informational when satisfiable).
use crate::c27::Collector;
use mc_core::{par_for, Ctx, Level, Local};
use radix_common::prelude::*;
use serde_json::{json, Map, Value};

const ONE: i128 = 1_000_000_000_000_000_000;

// ------------------------------------------------------------------------------------------------
// abstract (reference-side) constraints
// ------------------------------------------------------------------------------------------------

#[derive(Clone, Copy, Debug, PartialEq, Eq)]
enum Lo {
    NonZero,
    Incl(i128),
}

#[derive(Clone, Copy, Debug, PartialEq, Eq)]
enum Up {
    Incl(i128),
    Unbounded,
}

/// id sets are bit masks over {a=1, b=2, c=4, d=8}
#[derive(Clone, Copy, Debug, PartialEq, Eq)]
enum RC {
    NonZero,
    Exact(i128),
    AtLeast(i128),
    ExactIds(u8),
    AtLeastIds(u8),
    General { lo: Lo, up: Up, req: u8, allow: Option<u8> },
}

impl RC {
    fn kind(&self) -> &'static str {
        match self {
            RC::NonZero => "NonZeroAmount",
            RC::Exact(_) => "ExactAmount",
            RC::AtLeast(_) => "AtLeastAmount",
            RC::ExactIds(_) => "ExactNonFungibles",
            RC::AtLeastIds(_) => "AtLeastNonFungibles",
            RC::General { .. } => "General",
        }
    }
    fn show(&self) -> String {
        match self {
            RC::NonZero => "NonZeroAmount".into(),
            RC::Exact(a) => format!("ExactAmount({})", amt(*a)),
            RC::AtLeast(a) => format!("AtLeastAmount({})", amt(*a)),
            RC::ExactIds(m) => format!("ExactNonFungibles({})", ids_text(*m)),
            RC::AtLeastIds(m) => format!("AtLeastNonFungibles({})", ids_text(*m)),
            RC::General { lo, up, req, allow } => format!(
                "General(lower={}, upper={}, required={}, allowed={})",
                match lo {
                    Lo::NonZero => "NonZero".to_string(),
                    Lo::Incl(a) => format!(">={}", amt(*a)),
                },
                match up {
                    Up::Unbounded => "Unbounded".to_string(),
                    Up::Incl(a) => format!("<={}", amt(*a)),
                },
                ids_text(*req),
                match allow {
                    None => "Any".to_string(),
                    Some(m) => ids_text(*m),
                }
            ),
        }
    }
}

fn amt(a: i128) -> String {
    // exact decimal text of an atto amount (harness-side, for messages only)
    let s = if a < 0 { "-" } else { "" };
    let u = a.unsigned_abs();
    let (q, r) = (u / ONE as u128, u % ONE as u128);
    if r == 0 {
        format!("{s}{q}")
    } else {
        format!("{s}{q}.{}", format!("{r:018}").trim_end_matches('0'))
    }
}

fn ids_text(m: u8) -> String {
    let mut v = vec![];
    for (i, n) in ["a", "b", "c", "d"].iter().enumerate() {
        if m & (1 << i) != 0 {
            v.push(*n);
        }
    }
    format!("{{{}}}", v.join(","))
}

fn lo_ok(lo: Lo, x: i128) -> bool {
    match lo {
        Lo::NonZero => x != 0, // balances are never negative; "non-zero" is what the name says
        Lo::Incl(a) => x >= a,
    }
}

fn up_ok(up: Up, x: i128) -> bool {
    match up {
        Up::Unbounded => true,
        Up::Incl(a) => x <= a,
    }
}

/// meaning on a fungible balance of `x` attos (no ids). None: an id-set constraint says nothing about a
/// fungible balance (the code declares those invalid for fungible use).
fn ref_fungible(c: &RC, x: i128) -> Option<bool> {
    Some(match c {
        RC::NonZero => x != 0,
        RC::Exact(a) => x == *a,
        RC::AtLeast(a) => x >= *a,
        RC::ExactIds(_) | RC::AtLeastIds(_) => return None,
        // required ids must be present: impossible unless none are required; allowed ids: no ids present
        RC::General { lo, up, req, allow: _ } => lo_ok(*lo, x) && up_ok(*up, x) && *req == 0,
    })
}

/// meaning on a non-fungible balance holding exactly the ids of `s`
fn ref_non_fungible(c: &RC, s: u8) -> bool {
    let n = s.count_ones() as i128 * ONE;
    match c {
        RC::NonZero => s != 0,
        RC::Exact(a) => n == *a,
        RC::AtLeast(a) => n >= *a,
        RC::ExactIds(e) => s == *e,
        RC::AtLeastIds(e) => e & !s == 0,
        RC::General { lo, up, req, allow } => lo_ok(*lo, n) && up_ok(*up, n) && req & !s == 0 && allow.map(|a| s & !a == 0).unwrap_or(true),
    }
}

// ------------------------------------------------------------------------------------------------
// building the real objects / reading them back
// ------------------------------------------------------------------------------------------------

fn dec(attos: i128) -> Decimal {
    let ext = if attos < 0 { u64::MAX } else { 0 };
    Decimal::from_attos(I192::from_digits([attos as u64, (attos >> 64) as u64, ext]))
}

fn undec(d: &Decimal) -> i128 {
    let l = d.attos().to_digits();
    let v = ((l[1] as u128) << 64 | l[0] as u128) as i128;
    let ext_ok = (v < 0 && l[2] == u64::MAX) || (v >= 0 && l[2] == 0);
    if !ext_ok {
        mc_core::machinery_error("C37: a normalised bound does not fit the harness' i128 (unexpected for this alphabet)");
    }
    v
}

fn id(i: usize) -> NonFungibleLocalId {
    NonFungibleLocalId::integer(i as u64 + 1)
}

fn idset(m: u8) -> IndexSet<NonFungibleLocalId> {
    (0..8).filter(|i| m & (1 << i) != 0).map(id).collect()
}

fn unidset(s: &IndexSet<NonFungibleLocalId>) -> u8 {
    let mut m = 0u8;
    for x in s {
        let mut found = false;
        for i in 0..8 {
            if *x == id(i) {
                m |= 1 << i;
                found = true;
            }
        }
        if !found {
            mc_core::machinery_error("C37: unknown id in a normalised constraint");
        }
    }
    m
}

fn real_general(lo: Lo, up: Up, req: u8, allow: Option<u8>) -> GeneralResourceConstraint {
    GeneralResourceConstraint {
        required_ids: idset(req),
        lower_bound: match lo {
            Lo::NonZero => LowerBound::NonZero,
            Lo::Incl(a) => LowerBound::Inclusive(dec(a)),
        },
        upper_bound: match up {
            Up::Unbounded => UpperBound::Unbounded,
            Up::Incl(a) => UpperBound::Inclusive(dec(a)),
        },
        allowed_ids: match allow {
            None => AllowedIds::Any,
            Some(m) => AllowedIds::Allowlist(idset(m)),
        },
    }
}

fn real(c: &RC) -> ManifestResourceConstraint {
    match c {
        RC::NonZero => ManifestResourceConstraint::NonZeroAmount,
        RC::Exact(a) => ManifestResourceConstraint::ExactAmount(dec(*a)),
        RC::AtLeast(a) => ManifestResourceConstraint::AtLeastAmount(dec(*a)),
        RC::ExactIds(m) => ManifestResourceConstraint::ExactNonFungibles(idset(*m)),
        RC::AtLeastIds(m) => ManifestResourceConstraint::AtLeastNonFungibles(idset(*m)),
        RC::General { lo, up, req, allow } => ManifestResourceConstraint::General(real_general(*lo, *up, *req, *allow)),
    }
}

fn abstract_general(g: &GeneralResourceConstraint) -> RC {
    RC::General {
        lo: match &g.lower_bound {
            LowerBound::NonZero => Lo::NonZero,
            LowerBound::Inclusive(d) => Lo::Incl(undec(d)),
        },
        up: match &g.upper_bound {
            UpperBound::Unbounded => Up::Unbounded,
            UpperBound::Inclusive(d) => Up::Incl(undec(d)),
        },
        req: unidset(&g.required_ids),
        allow: match &g.allowed_ids {
            AllowedIds::Any => None,
            AllowedIds::Allowlist(s) => Some(unidset(s)),
        },
    }
}

// ------------------------------------------------------------------------------------------------
// alphabets
// ------------------------------------------------------------------------------------------------

struct Alphabet {
    amounts: Vec<i128>,
    simple_ids: u8, // simple id constraints over subsets of this mask
    lowers: Vec<Lo>,
    uppers: Vec<Up>,
    req: u8,
    allow: u8,
    balances_f: Vec<i128>,
    balances_n: u8, // all subsets of this mask
}

fn submasks(m: u8) -> Vec<u8> {
    (0..=m).filter(|s| s & !m == 0).collect()
}

fn full_alphabet() -> Alphabet {
    Alphabet {
        amounts: vec![0, 1, ONE, ONE * 3 / 2, 2 * ONE, -ONE],
        simple_ids: 0b0011,
        lowers: vec![Lo::NonZero, Lo::Incl(0), Lo::Incl(1), Lo::Incl(ONE), Lo::Incl(ONE * 3 / 2), Lo::Incl(2 * ONE), Lo::Incl(-ONE)],
        uppers: vec![Up::Incl(0), Up::Incl(1), Up::Incl(ONE), Up::Incl(ONE * 3 / 2), Up::Incl(2 * ONE), Up::Incl(3 * ONE), Up::Incl(-ONE), Up::Unbounded],
        req: 0b0011,
        allow: 0b0111,
        balances_f: vec![0, 1, ONE - 1, ONE, ONE * 3 / 2, 2 * ONE, 3 * ONE, 3 * ONE + 1],
        balances_n: 0b1111,
    }
}

fn reduced_alphabet() -> Alphabet {
    Alphabet {
        amounts: vec![0, ONE, 2 * ONE],
        simple_ids: 0b0011,
        lowers: vec![Lo::NonZero, Lo::Incl(0), Lo::Incl(ONE)],
        uppers: vec![Up::Incl(ONE), Up::Incl(2 * ONE), Up::Unbounded],
        req: 0b0001,
        allow: 0b0011,
        balances_f: vec![0, 1, ONE, 2 * ONE],
        balances_n: 0b0011,
    }
}

fn constraints(a: &Alphabet) -> Vec<RC> {
    let mut v = vec![RC::NonZero];
    for x in &a.amounts {
        v.push(RC::Exact(*x));
        v.push(RC::AtLeast(*x));
    }
    for m in submasks(a.simple_ids) {
        v.push(RC::ExactIds(m));
        v.push(RC::AtLeastIds(m));
    }
    for lo in &a.lowers {
        for up in &a.uppers {
            for req in submasks(a.req) {
                v.push(RC::General { lo: *lo, up: *up, req, allow: None });
                for al in submasks(a.allow) {
                    v.push(RC::General { lo: *lo, up: *up, req, allow: Some(al) });
                }
            }
        }
    }
    v
}

// ------------------------------------------------------------------------------------------------
// single-resource checks
// ------------------------------------------------------------------------------------------------

#[derive(Clone, Copy, PartialEq, Eq, Debug)]
enum Use {
    Fungible,
    NonFungible,
}

impl Use {
    fn name(&self) -> &'static str {
        match self {
            Use::Fungible => "fungible",
            Use::NonFungible => "non-fungible",
        }
    }
}

#[derive(Clone, Copy, Debug)]
enum Bal {
    F(i128),
    N(u8),
}

impl Bal {
    fn show(&self) -> String {
        match self {
            Bal::F(x) => amt(*x),
            Bal::N(s) => ids_text(*s),
        }
    }
    fn json(&self) -> Value {
        match self {
            Bal::F(x) => json!({"fungible_attos": x.to_string()}),
            Bal::N(s) => json!({"ids_mask": s}),
        }
    }
}

fn reference(c: &RC, b: &Bal) -> Option<bool> {
    match b {
        Bal::F(x) => ref_fungible(c, *x),
        Bal::N(s) => Some(ref_non_fungible(c, *s)),
    }
}

fn code_validate(rc: &ManifestResourceConstraint, b: &Bal) -> Result<bool, String> {
    mc_core::catch(|| match b {
        Bal::F(x) => rc.clone().validate_fungible(dec(*x)).is_ok(),
        Bal::N(s) => rc.clone().validate_non_fungible(&idset(*s)).is_ok(),
    })
}

fn declared_valid(rc: &ManifestResourceConstraint, u: Use) -> Result<bool, String> {
    mc_core::catch(|| match u {
        Use::Fungible => rc.is_valid_for_fungible_use(),
        Use::NonFungible => rc.is_valid_for_non_fungible_use(),
    })
}

fn universe(a: &Alphabet, u: Use) -> Vec<Bal> {
    match u {
        Use::Fungible => a.balances_f.iter().map(|x| Bal::F(*x)).collect(),
        Use::NonFungible => submasks(a.balances_n).into_iter().map(Bal::N).collect(),
    }
}

/// compare validate with the meaning of `meaning` over the universe; returns (#accepted, satisfiable)
fn check_against_meaning(rc: &ManifestResourceConstraint, meaning: &RC, what: &str, u: Use, uni: &[Bal], l: &mut Local, col: &Collector) -> (u64, bool) {
    let mut accepted = 0;
    let mut sat = false;
    for b in uni {
        l.eval();
        let exp = match reference(meaning, b) {
            Some(e) => e,
            None => mc_core::machinery_error("C37: an id-set constraint was declared valid for fungible use but has no fungible meaning"),
        };
        sat |= exp;
        let case = || json!({"constraint": meaning.show(), "form": what, "use": u.name(), "balance": b.json()});
        let lab = format!("{} @ {}", meaning.show(), b.show());
        match code_validate(rc, b) {
            Ok(got) if got == exp => {
                if got {
                    accepted += 1;
                    l.class("validate:accepted-satisfying-balance");
                } else {
                    l.class("validate:rejected-unsatisfying-balance");
                }
            }
            Ok(true) => col.add(format!("{}:{}:accepts-unsatisfying-balance{}", meaning.kind(), u.name(), what), &lab, || format!("{} ({} use) accepts balance {} which does not satisfy it", meaning.show(), u.name(), b.show()), case),
            Ok(false) => col.add(format!("{}:{}:rejects-satisfying-balance{}", meaning.kind(), u.name(), what), &lab, || format!("{} ({} use) rejects balance {} which satisfies it", meaning.show(), u.name(), b.show()), case),
            Err(p) => col.add(format!("{}:{}:validate-panics{}", meaning.kind(), u.name(), what), &lab, || format!("{} ({} use) on balance {} panicked: {p}", meaning.show(), u.name(), b.show()), case),
        }
    }
    (accepted, sat)
}

fn check_single(c: &RC, a: &Alphabet, l: &mut Local, col: &Collector) {
    let rc = real(c);
    for u in [Use::Fungible, Use::NonFungible] {
        l.eval();
        let case = || json!({"constraint": c.show(), "use": u.name()});
        let declared = match declared_valid(&rc, u) {
            Ok(d) => d,
            Err(p) => {
                col.add(format!("{}:{}:is_valid-panics", c.kind(), u.name()), &c.show(), || format!("is_valid_for_{}_use of {} panicked: {p}", u.name(), c.show()), case);
                continue;
            }
        };
        let uni = universe(a, u);
        if !declared {
            l.class("declared-invalid");
            // no obligation; remember when the code refuses something that has a perfectly good meaning
            if uni.iter().any(|b| reference(c, b) == Some(true)) {
                l.info(&format!("declared-invalid-but-satisfiable:{}:{}", c.kind(), u.name()));
            }
            continue;
        }
        l.class("declared-valid");
        let (_, sat) = check_against_meaning(&rc, c, "", u, &uni, l, col);
        if !sat {
            col.add(format!("{}:{}:declared-valid-but-unsatisfiable", c.kind(), u.name()), &c.show(), || format!("{} is declared valid for {} use but no balance satisfies it", c.show(), u.name()), case);
        }
        // normalisation
        if let ManifestResourceConstraint::General(g) = &rc {
            let mut n = g.clone();
            if let Err(p) = mc_core::catch(|| n.normalize()) {
                col.add(format!("General:{}:normalize-panics", u.name()), &c.show(), || format!("normalize of {} panicked: {p}", c.show()), case);
                continue;
            }
            let nc = abstract_general(&n);
            let nrc = ManifestResourceConstraint::General(n.clone());
            let mut changed = None;
            for b in &uni {
                l.eval();
                let before = code_validate(&rc, b);
                let after = code_validate(&nrc, b);
                if before != after && changed.is_none() {
                    changed = Some((*b, before, after));
                }
            }
            match changed {
                None => l.class(if nc == *c { "normalize:unchanged-constraint" } else { "normalize:rewritten-same-accepted-set" }),
                Some((b, before, after)) => {
                    let case = || json!({"constraint": c.show(), "use": u.name(), "normalized": nc.show(), "balance": b.json()});
                    col.add(format!("General:{}:normalize-changes-accepted-set", u.name()), &c.show(), || format!("{} ({} use): balance {} accepted={:?} before normalize, accepted={:?} after (normalised to {})", c.show(), u.name(), b.show(), before, after, nc.show()), case);
                }
            }
            // the normalised constraint, if the code still calls it valid, is validated by its own meaning too
            match declared_valid(&nrc, u) {
                Ok(true) => {
                    check_against_meaning(&nrc, &nc, ":normalized-form", u, &uni, l, col);
                }
                _ => l.info(&format!("normalized-constraint-declared-invalid:{}", u.name())),
            }
            let mut n2 = n.clone();
            if mc_core::catch(|| n2.normalize()).is_ok() && n2 != n {
                l.info("normalize-not-idempotent");
            }
        }
    }
}

// ------------------------------------------------------------------------------------------------
// multi-resource checks
// ------------------------------------------------------------------------------------------------

fn address(fungible: bool, n: u8) -> ResourceAddress {
    let mut raw = [n; NodeId::LENGTH];
    raw[0] = if fungible { EntityType::GlobalFungibleResourceManager as u8 } else { EntityType::GlobalNonFungibleResourceManager as u8 };
    ResourceAddress::new_or_panic(raw)
}

#[derive(Clone, Copy, Debug)]
struct Case {
    c: RC,
    b: Bal,
}

impl Case {
    fn fungible(&self) -> bool {
        matches!(self.b, Bal::F(_))
    }
}

/// single-resource cases whose constraint the code declares valid for the use of the balance
fn cases(a: &Alphabet) -> Vec<Case> {
    let mut v = vec![];
    for c in constraints(a) {
        let rc = real(&c);
        for u in [Use::Fungible, Use::NonFungible] {
            if declared_valid(&rc, u) == Ok(true) && (u == Use::NonFungible || ref_fungible(&c, 0).is_some()) {
                for b in universe(a, u) {
                    v.push(Case { c, b });
                }
            }
        }
    }
    v
}

#[derive(Clone, Copy, Debug)]
enum Extra {
    None,
    Fungible(i128),
    NonFungible(u8),
}

const EXTRAS: [Extra; 3] = [Extra::None, Extra::Fungible(1), Extra::NonFungible(0b0001)];

fn check_multi(specified: &[Case], l: &mut Local, col: &Collector) {
    // distinct addresses per position; a third, unspecified resource of either kind
    let addrs: Vec<ResourceAddress> = specified.iter().enumerate().map(|(i, c)| address(c.fungible(), 1 + i as u8)).collect();
    for extra in EXTRAS {
        for only in [true, false] {
            l.eval();
            let mut constraints = ManifestResourceConstraints::new();
            let mut balances = AggregateResourceBalances::new();
            let mut exp = true;
            for (case, addr) in specified.iter().zip(addrs.iter()) {
                constraints = constraints.with_unchecked(*addr, real(&case.c));
                match case.b {
                    Bal::F(x) => balances.add_fungible(*addr, dec(x)),
                    Bal::N(s) => balances.add_non_fungible(*addr, idset(s)),
                }
                exp &= reference(&case.c, &case.b).unwrap_or(false);
            }
            match extra {
                Extra::None => {}
                Extra::Fungible(x) => {
                    balances.add_fungible(address(true, 9), dec(x));
                    exp &= !only;
                }
                Extra::NonFungible(s) => {
                    balances.add_non_fungible(address(false, 9), idset(s));
                    exp &= !only;
                }
            }
            let got = mc_core::catch(move || if only { balances.validate_only(constraints).is_ok() } else { balances.validate_includes(constraints).is_ok() });
            let mode = if only { "only" } else { "includes" };
            let describe = || format!("[{}] + unspecified {:?}, mode {mode}", specified.iter().map(|c| format!("{} @ {}", c.c.show(), c.b.show())).collect::<Vec<_>>().join(" ; "), extra);
            let case = || {
                json!({"specified": specified.iter().map(|c| json!({"constraint": c.c.show(), "balance": c.b.json()})).collect::<Vec<_>>(),
                       "unspecified": format!("{extra:?}"), "mode": mode})
            };
            match got {
                Ok(g) if g == exp => l.class(if g { "multi:accepted" } else { "multi:rejected" }),
                Ok(true) => col.add(format!("multi:{mode}:accepts-unsatisfying-balances"), &describe(), || format!("accepted although not satisfied: {}", describe()), case),
                Ok(false) => col.add(format!("multi:{mode}:rejects-satisfying-balances"), &describe(), || format!("rejected although satisfied: {}", describe()), case),
                Err(p) => col.add(format!("multi:{mode}:panics"), &describe(), || format!("panicked ({p}): {}", describe()), case),
            }
        }
    }
}

// ------------------------------------------------------------------------------------------------

pub fn run(ctx: Ctx) -> ! {
    if ctx.replay.is_some() {
        // cases are identified by their text; re-running the (cheap) quick enumeration reproduces them
        println!("C37 replay: re-running the quick enumeration (the whole space takes seconds); the case was:");
        println!("{}", serde_json::to_string_pretty(&ctx.read_replay_case().unwrap_or(Value::Null)).unwrap_or_default());
    }
    // reference self-test on hand-computed cases
    {
        let g = RC::General { lo: Lo::NonZero, up: Up::Incl(2 * ONE), req: 0b01, allow: Some(0b011) };
        let ok = ref_non_fungible(&g, 0b01) && ref_non_fungible(&g, 0b11) && !ref_non_fungible(&g, 0b10) && !ref_non_fungible(&g, 0b101) && !ref_non_fungible(&g, 0)
            && ref_fungible(&RC::General { lo: Lo::NonZero, up: Up::Unbounded, req: 0, allow: None }, 1) == Some(true)
            && ref_fungible(&RC::General { lo: Lo::NonZero, up: Up::Unbounded, req: 0, allow: None }, 0) == Some(false)
            && ref_fungible(&RC::Exact(ONE), ONE - 1) == Some(false)
            && undec(&dec(-ONE)) == -ONE
            && undec(&dec(3 * ONE + 1)) == 3 * ONE + 1
            && unidset(&idset(0b1010)) == 0b1010
            && address(true, 1).is_fungible()
            && !address(false, 1).is_fungible();
        if !ok {
            mc_core::machinery_error("C37 reference self-test failed");
        }
    }
    let col = Collector::default();
    let full = full_alphabet();
    let reduced = reduced_alphabet();

    // single-resource: always the full alphabet (cheap)
    let cs = constraints(&full);
    par_for(&ctx, &cs, |c, l| check_single(c, &full, l, &col));
    let mut l = Local::new();
    for c in [&cs[3], &cs[cs.len() / 2], &cs[cs.len() - 7]] {
        let rc = real(c);
        l.sample(|| json!({"constraint": c.show(), "valid_for_fungible_use": rc.is_valid_for_fungible_use(), "valid_for_non_fungible_use": rc.is_valid_for_non_fungible_use(),
            "accepted_id_sets": submasks(0b1111).into_iter().filter(|s| rc.clone().validate_non_fungible(&idset(*s)).is_ok()).map(ids_text).collect::<Vec<_>>()}));
    }
    ctx.merge(l);

    // multi-resource
    let red_cases = cases(&reduced);
    let full_cases = cases(&full);
    let mut l = Local::new();
    check_multi(&[], &mut l, &col);
    ctx.merge(l);
    par_for(&ctx, &full_cases, |a, l| check_multi(&[*a], l, &col));
    par_for(&ctx, &red_cases, |a, l| {
        for b in &red_cases {
            check_multi(&[*a, *b], l, &col);
        }
    });
    let mut pairs = (red_cases.len() * red_cases.len()) as u64;
    if !ctx.quick() {
        par_for(&ctx, &full_cases, |a, l| {
            for b in &red_cases {
                check_multi(&[*a, *b], l, &col);
                check_multi(&[*b, *a], l, &col);
            }
        });
        pairs += 2 * (full_cases.len() * red_cases.len()) as u64;
    }
    col.flush(&ctx);

    let classes = ctx.classes();
    let c = |k: &str| classes.get(k).copied().unwrap_or(0);
    // measured: (constraint, use) pairs the code declares valid + (constraint, balance) pairs accepted + accepted multi cases
    let nontrivial = c("declared-valid") + c("validate:accepted-satisfying-balance") + c("multi:accepted");
    let mut cov = Map::new();
    cov.insert("constraints".into(), json!(cs.len()));
    cov.insert("general_constraints".into(), json!(cs.iter().filter(|c| matches!(c, RC::General { .. })).count()));
    cov.insert("fungible_balances".into(), json!(full.balances_f.len()));
    cov.insert("id_set_balances".into(), json!(16));
    cov.insert("single_resource_cases_full".into(), json!(full_cases.len()));
    cov.insert("single_resource_cases_reduced".into(), json!(red_cases.len()));
    cov.insert("multi_resource_ordered_pairs".into(), json!(pairs));
    let rule = format!(
        "{} constraints (NonZero; Exact/AtLeast x 6 amounts; Exact/AtLeast ids x 4 sets; 2016 general) x 2 uses x all balances of the universe (8 amounts / 16 id sets), + normalize on every valid general constraint; multi-resource: every valid single case alone and {} ordered pairs of single cases x 3 unspecified-resource options x 2 modes. A case is one (constraint, use, balance) or one (constraints, balances, mode); non-trivial = declared-valid (constraint,use) + accepted balances + accepted multi cases",
        cs.len(),
        pairs
    );
    ctx.finish(
        Level::Exploration,
        &rule,
        nontrivial,
        true,
        cov,
        &[
            "a fungible balance has no ids: 'required ids present' holds only for an empty required set, 'ids allowed' holds vacuously",
            "constraints the code declares invalid for a use carry no obligation",
            "balances are non-negative (AggregateResourceBalances drops non-positive entries by construction)",
            "worktop / ledger half of the property is checked elsewhere (mc-engine)",
        ],
    )
}
