//! Shared reference arithmetic for C24 / C25 / C26.
//!
//! * `Fixed`   – thin uniform view of the two fixed-point types under test (raw limbs in, raw limbs out, and
//!               the checked operations of the *real* code).
//! * `Ty`      – BigInt description of a type: range, scale, 10^scale.
//! * `lattice` – the boundary lattice L(T) of DESIGN §4.3 as raw sub-unit BigInts.
//! * `Lat<T>`  – lattice with the BigInt form and the real value precomputed once per element.
//!
//! Raw values cross the boundary only as two's-complement u64 limbs (`from_digits` / `to_digits`), never
//! through the arithmetic or the BigInt conversions of the code under test.
#![allow(dead_code)]
use num_bigint::BigInt;
use num_traits::{One, Signed, Zero};
use radix_common::math::*;
use std::collections::BTreeSet;

pub const ALL_MODES: [RoundingMode; 7] = [
    RoundingMode::ToPositiveInfinity,
    RoundingMode::ToNegativeInfinity,
    RoundingMode::ToZero,
    RoundingMode::AwayFromZero,
    RoundingMode::ToNearestMidpointTowardZero,
    RoundingMode::ToNearestMidpointAwayFromZero,
    RoundingMode::ToNearestMidpointToEven,
];

pub fn mode_name(m: RoundingMode) -> &'static str {
    match m {
        RoundingMode::ToPositiveInfinity => "ToPositiveInfinity",
        RoundingMode::ToNegativeInfinity => "ToNegativeInfinity",
        RoundingMode::ToZero => "ToZero",
        RoundingMode::AwayFromZero => "AwayFromZero",
        RoundingMode::ToNearestMidpointTowardZero => "ToNearestMidpointTowardZero",
        RoundingMode::ToNearestMidpointAwayFromZero => "ToNearestMidpointAwayFromZero",
        RoundingMode::ToNearestMidpointToEven => "ToNearestMidpointToEven",
    }
}

pub fn mode_by_name(s: &str) -> Option<RoundingMode> {
    ALL_MODES.iter().copied().find(|m| mode_name(*m) == s)
}

/// Uniform view of Decimal / PreciseDecimal. Every `c_*` method calls the real code and nothing else.
pub trait Fixed: Copy + Eq + Send + Sync + core::fmt::Debug + 'static {
    const NAME: &'static str;
    const BITS: u32;
    const SCALE: u32;
    fn limbs(&self) -> [u64; 4]; // little-endian limbs, two's complement, upper limbs unused for 192 bits
    fn from_limbs(l: &[u64; 4]) -> Self;
    fn c_add(self, o: Self) -> Option<Self>;
    fn c_sub(self, o: Self) -> Option<Self>;
    fn c_mul(self, o: Self) -> Option<Self>;
    fn c_div(self, o: Self) -> Option<Self>;
    fn c_neg(self) -> Option<Self>;
    fn c_abs(self) -> Option<Self>;
    fn c_round(self, dp: i32, mode: RoundingMode) -> Option<Self>;
    fn c_floor(self) -> Option<Self>;
    fn c_ceiling(self) -> Option<Self>;
    fn c_sqrt(self) -> Option<Self>;
    fn c_cbrt(self) -> Option<Self>;
    fn c_nth_root(self, n: u32) -> Option<Self>;
    fn c_powi(self, e: i64) -> Option<Self>;
}

impl Fixed for Decimal {
    const NAME: &'static str = "Decimal";
    const BITS: u32 = 192;
    const SCALE: u32 = 18;
    fn limbs(&self) -> [u64; 4] {
        let d = self.attos().to_digits();
        [d[0], d[1], d[2], 0]
    }
    fn from_limbs(l: &[u64; 4]) -> Self {
        Decimal::from_attos(I192::from_digits([l[0], l[1], l[2]]))
    }
    fn c_add(self, o: Self) -> Option<Self> {
        CheckedAdd::checked_add(self, o)
    }
    fn c_sub(self, o: Self) -> Option<Self> {
        CheckedSub::checked_sub(self, o)
    }
    fn c_mul(self, o: Self) -> Option<Self> {
        CheckedMul::checked_mul(self, o)
    }
    fn c_div(self, o: Self) -> Option<Self> {
        CheckedDiv::checked_div(self, o)
    }
    fn c_neg(self) -> Option<Self> {
        CheckedNeg::checked_neg(self)
    }
    fn c_abs(self) -> Option<Self> {
        self.checked_abs()
    }
    fn c_round(self, dp: i32, mode: RoundingMode) -> Option<Self> {
        self.checked_round(dp, mode)
    }
    fn c_floor(self) -> Option<Self> {
        self.checked_floor()
    }
    fn c_ceiling(self) -> Option<Self> {
        self.checked_ceiling()
    }
    fn c_sqrt(self) -> Option<Self> {
        self.checked_sqrt()
    }
    fn c_cbrt(self) -> Option<Self> {
        self.checked_cbrt()
    }
    fn c_nth_root(self, n: u32) -> Option<Self> {
        self.checked_nth_root(n)
    }
    fn c_powi(self, e: i64) -> Option<Self> {
        self.checked_powi(e)
    }
}

impl Fixed for PreciseDecimal {
    const NAME: &'static str = "PreciseDecimal";
    const BITS: u32 = 256;
    const SCALE: u32 = 36;
    fn limbs(&self) -> [u64; 4] {
        self.precise_subunits().to_digits()
    }
    fn from_limbs(l: &[u64; 4]) -> Self {
        PreciseDecimal::from_precise_subunits(I256::from_digits(*l))
    }
    fn c_add(self, o: Self) -> Option<Self> {
        CheckedAdd::checked_add(self, o)
    }
    fn c_sub(self, o: Self) -> Option<Self> {
        CheckedSub::checked_sub(self, o)
    }
    fn c_mul(self, o: Self) -> Option<Self> {
        CheckedMul::checked_mul(self, o)
    }
    fn c_div(self, o: Self) -> Option<Self> {
        CheckedDiv::checked_div(self, o)
    }
    fn c_neg(self) -> Option<Self> {
        CheckedNeg::checked_neg(self)
    }
    fn c_abs(self) -> Option<Self> {
        self.checked_abs()
    }
    fn c_round(self, dp: i32, mode: RoundingMode) -> Option<Self> {
        self.checked_round(dp, mode)
    }
    fn c_floor(self) -> Option<Self> {
        self.checked_floor()
    }
    fn c_ceiling(self) -> Option<Self> {
        self.checked_ceiling()
    }
    fn c_sqrt(self) -> Option<Self> {
        self.checked_sqrt()
    }
    fn c_cbrt(self) -> Option<Self> {
        self.checked_cbrt()
    }
    fn c_nth_root(self, n: u32) -> Option<Self> {
        self.checked_nth_root(n)
    }
    fn c_powi(self, e: i64) -> Option<Self> {
        self.checked_powi(e)
    }
}

/// Two's-complement little-endian limbs (`n` of them) -> BigInt.
pub fn limbs_to_big(l: &[u64]) -> BigInt {
    let mut bytes = Vec::with_capacity(l.len() * 8);
    for x in l {
        bytes.extend_from_slice(&x.to_le_bytes());
    }
    BigInt::from_signed_bytes_le(&bytes)
}

/// Unsigned little-endian limbs -> BigInt.
pub fn ulimbs_to_big(l: &[u64]) -> BigInt {
    let mut bytes = Vec::with_capacity(l.len() * 8 + 1);
    for x in l {
        bytes.extend_from_slice(&x.to_le_bytes());
    }
    bytes.push(0);
    BigInt::from_signed_bytes_le(&bytes)
}

/// BigInt -> `n` two's-complement limbs; None if it does not fit in n*64 bits signed.
pub fn big_to_limbs(v: &BigInt, n: usize) -> Option<Vec<u64>> {
    let bytes = v.to_signed_bytes_le();
    if bytes.len() > n * 8 {
        return None;
    }
    let fill = if v.is_negative() { 0xFFu8 } else { 0u8 };
    let mut full = vec![fill; n * 8];
    full[..bytes.len()].copy_from_slice(&bytes);
    Some((0..n).map(|i| u64::from_le_bytes(full[i * 8..i * 8 + 8].try_into().unwrap())).collect())
}

/// BigInt (non-negative) -> `n` unsigned limbs; None if negative or too large.
pub fn big_to_ulimbs(v: &BigInt, n: usize) -> Option<Vec<u64>> {
    if v.is_negative() || v.bits() > (n as u64) * 64 {
        return None;
    }
    let (_, bytes) = v.to_bytes_le();
    let mut full = vec![0u8; n * 8];
    full[..bytes.len()].copy_from_slice(&bytes);
    Some((0..n).map(|i| u64::from_le_bytes(full[i * 8..i * 8 + 8].try_into().unwrap())).collect())
}

pub fn to_big<T: Fixed>(x: &T) -> BigInt {
    let l = x.limbs();
    limbs_to_big(&l[..(T::BITS / 64) as usize])
}

/// Raw BigInt -> real value; None when outside the type's range.
pub fn from_big<T: Fixed>(v: &BigInt) -> Option<T> {
    let n = (T::BITS / 64) as usize;
    let l = big_to_limbs(v, n)?;
    let mut a = [0u64; 4];
    a[..n].copy_from_slice(&l);
    Some(T::from_limbs(&a))
}

pub fn pow10(k: u32) -> BigInt {
    num_traits::pow(BigInt::from(10u32), k as usize)
}
pub fn pow2(k: u32) -> BigInt {
    BigInt::one() << (k as usize)
}

#[derive(Clone, Debug)]
pub struct Ty {
    pub name: &'static str,
    pub bits: u32,
    pub scale: u32,
    pub min: BigInt,
    pub max: BigInt,
    /// 10^scale
    pub one: BigInt,
}

impl Ty {
    pub fn of<T: Fixed>() -> Ty {
        Ty { name: T::NAME, bits: T::BITS, scale: T::SCALE, min: -pow2(T::BITS - 1), max: pow2(T::BITS - 1) - 1, one: pow10(T::SCALE) }
    }
    pub fn fits(&self, v: &BigInt) -> bool {
        v >= &self.min && v <= &self.max
    }
    /// Some(v) when representable, else None: the "exact or reports overflow" shape.
    pub fn some_if_fits(&self, v: BigInt) -> Option<BigInt> {
        if self.fits(&v) {
            Some(v)
        } else {
            None
        }
    }
}

/// Truncating (toward zero) division on magnitudes, written out so that it does not depend on the
/// rounding convention of BigInt's `/`. `d` must be non-zero. Returns (quotient, remainder_is_zero).
pub fn div_trunc(n: &BigInt, d: &BigInt) -> (BigInt, bool) {
    let neg = n.is_negative() != d.is_negative();
    let (na, da) = (n.abs(), d.abs());
    let q = &na / &da;
    let exact = (&q * &da) == na;
    (if neg { -q } else { q }, exact)
}

/// Floor division (toward -inf) with non-negative remainder; `d` > 0.
pub fn div_floor_pos(n: &BigInt, d: &BigInt) -> (BigInt, BigInt) {
    let na = n.abs();
    let q = &na / d;
    let r = &na - &q * d;
    if n.is_negative() {
        if r.is_zero() {
            (-q, r)
        } else {
            (-(q + BigInt::one()), d - r)
        }
    } else {
        (q, r)
    }
}

/// Integer square root by bisection-free Newton on BigInt, verified (r^2 <= n < (r+1)^2). n >= 0.
pub fn isqrt_verified(n: &BigInt) -> BigInt {
    if n.is_zero() {
        return BigInt::zero();
    }
    let mut x: BigInt = BigInt::one() << ((n.bits() as usize + 1) / 2 + 1);
    loop {
        let y = (&x + n / &x) >> 1usize;
        if y >= x {
            break;
        }
        x = y;
    }
    assert!(&x * &x <= *n && (&x + 1) * (&x + 1) > *n);
    x
}

/// Fixed 256-bit constant with irregular limbs (fractional bits of the golden ratio, sqrt 2, sqrt 3, sqrt 5).
fn irregular_256() -> BigInt {
    let limbs = [0x9E37_79B9_7F4A_7C15u64, 0x6A09_E667_F3BC_C908, 0xBB67_AE85_84CA_A73B, 0x3C6E_F372_FE94_F82B];
    let mut v = BigInt::zero();
    for l in limbs {
        v = (v << 64usize) + BigInt::from(l);
    }
    v
}

fn must_k(k: u32, bits: u32, scale: u32, digits: u32) -> bool {
    // exponents that are always kept, also in the quick tier: limb boundaries, scale, extremes
    let two = [0u32, 1, 62, 63, 64, 65, 126, 127, 128, 129, 190, 191, 192, bits - 3, bits - 2];
    let ten = [0u32, 1, scale - 1, scale, scale + 1, 2 * scale, digits - 2, digits - 1];
    two.contains(&k) || ten.contains(&k)
}

/// The boundary lattice L(T) (DESIGN §4.3) as sorted, distinct raw sub-unit integers in range.
/// `quick` keeps every third exponent (plus the limb/scale boundaries); `extras` adds the denser thorough
/// families (m*10^k, 10^k/{6,9,11,13}, 10^k +- 10^(k/2), 3*2^k, alternating and irregular bit patterns of every
/// width, 2^k +- 2^j for j in {k/3, k/2, 2k/3, k-2}).
pub fn lattice(ty: &Ty, quick: bool, extras: bool) -> Vec<BigInt> {
    let mut s: BTreeSet<BigInt> = BTreeSet::new();
    let mut put = |v: BigInt| {
        if ty.fits(&v) {
            s.insert(v.clone());
        }
        let n = -v;
        if ty.fits(&n) {
            s.insert(n);
        }
    };
    let digits = ty.max.to_string().len() as u32; // 58 / 77
    let keep = |k: u32| !quick || k % 3 == 0 || must_k(k, ty.bits, ty.scale, digits);
    put(BigInt::zero());
    put(BigInt::one());
    put(BigInt::from(2));
    for k in 0..digits {
        if !keep(k) {
            continue;
        }
        let p = pow10(k);
        put(p.clone());
        put(&p - 1);
        put(&p + 1);
        put(&p * 5);
        put(&p / 3);
        put(&p / 7);
        if extras {
            for m in [2u32, 3, 4, 6, 7, 8, 9] {
                put(&p * m);
            }
            for d in [6u32, 9, 11, 13] {
                put(&p / d);
            }
            if k >= 2 {
                put(&p + pow10(k / 2));
                put(&p - pow10(k / 2));
            }
            if k >= ty.scale {
                // integer part 10^(k-scale) minus one sub-unit-scale step: 10^k - 10^(k-scale)
                put(&p - pow10(k - ty.scale));
            }
        }
    }
    for k in 0..ty.bits {
        if !keep(k) {
            continue;
        }
        let p = pow2(k);
        put(p.clone());
        put(&p - 1);
        put(&p + 1);
        if extras {
            put(&p * 3);
            put(&p + pow2(k / 2));
            put(&p - pow2(k / 2));
            // alternating bit patterns of width k: 0b0101.. and 0b1010..
            let mut alt = BigInt::zero();
            let mut i = 0;
            while i < k {
                alt += pow2(i);
                i += 2;
            }
            put(alt.clone());
            put(alt << 1usize);
            // two-bit values 2^k +- 2^j for a few more j
            for j in [k / 3, 2 * k / 3, k.saturating_sub(2)] {
                if j < k {
                    put(&p + pow2(j));
                    put(&p - pow2(j));
                }
            }
            // irregular bit pattern of width k (top k bits of a fixed 256-bit constant) and its k-bit complement:
            // carries and borrows across every limb boundary with "random-looking" limbs
            if k >= 8 {
                let irr = irregular_256() >> ((256 - k) as usize);
                put(pow2(k) - 1 - &irr);
                put(irr);
            }
        }
    }
    // extremes
    put(ty.min.clone());
    put(&ty.min + 1);
    put(&ty.min + 2);
    put(ty.max.clone());
    put(&ty.max - 1);
    // sqrt(MAX * 10^s) and neighbours: squares straddle the overflow boundary of mul / powi
    let r = isqrt_verified(&(&ty.max * &ty.one));
    put(&r - 1);
    put(r.clone());
    put(&r + 1);
    // largest integer value and neighbours
    let m = (&ty.max / &ty.one) * &ty.one;
    put(&m - 1);
    put(m.clone());
    put(&m + 1);
    // primitive-integer bounds as values (B * 10^s), neighbours in raw and in value
    let bounds: Vec<BigInt> = vec![
        BigInt::from(i8::MIN),
        BigInt::from(i8::MAX),
        BigInt::from(u8::MAX),
        BigInt::from(i16::MIN),
        BigInt::from(i16::MAX),
        BigInt::from(u16::MAX),
        BigInt::from(i32::MIN),
        BigInt::from(i32::MAX),
        BigInt::from(u32::MAX),
        BigInt::from(i64::MIN),
        BigInt::from(i64::MAX),
        BigInt::from(u64::MAX),
        BigInt::from(i128::MIN),
        BigInt::from(i128::MAX),
        BigInt::from(u128::MAX),
    ];
    for b in &bounds {
        let v = b * &ty.one;
        put(v.clone());
        put(&v + 1);
        put(&v - 1);
        put(&v + &ty.one);
        put(&v - &ty.one);
    }
    // PreciseDecimal only: frontier of the narrowing conversion to Decimal (Decimal range * 10^18)
    if ty.scale == 36 {
        let e = pow10(18);
        let dmax = pow2(191) - 1;
        let dmin = -pow2(191);
        for base in [&dmax * &e, &dmin * &e] {
            for off in [BigInt::zero(), BigInt::one(), &e - 1, e.clone(), &e + 1] {
                // `put` adds the mirrored value too, which is intended (both frontiers, both signs)
                put(&base + &off);
                put(&base - &off);
            }
        }
    }
    s.into_iter().collect()
}

/// Lattice with real values precomputed.
pub struct Lat<T: Fixed> {
    pub ty: Ty,
    pub big: Vec<BigInt>,
    pub val: Vec<T>,
}

impl<T: Fixed> Lat<T> {
    pub fn from_values(ty: Ty, big: Vec<BigInt>) -> Lat<T> {
        let val: Vec<T> = big
            .iter()
            .map(|b| {
                let v: T = from_big(b).unwrap_or_else(|| mc_core::machinery_error("lattice value outside the type's range"));
                // the limb transport must be lossless both ways, otherwise nothing below means anything
                if &to_big(&v) != b {
                    mc_core::machinery_error(&format!("{}: raw limb transport is not lossless for {b}", T::NAME));
                }
                v
            })
            .collect();
        Lat { ty, big, val }
    }
    pub fn build(quick: bool, extras: bool) -> Lat<T> {
        let ty = Ty::of::<T>();
        let big = lattice(&ty, quick, extras);
        Self::from_values(ty, big)
    }
    pub fn len(&self) -> usize {
        self.big.len()
    }
}

/// Reference rounding: value `v` (raw), `dp` decimal places kept, per the documented mode table.
/// Returns the mathematically prescribed raw value (possibly outside the type's range).
pub fn round_ref(v: &BigInt, scale: u32, dp: u32, mode: RoundingMode) -> BigInt {
    let unit = pow10(scale - dp);
    let (q, r) = div_floor_pos(v, &unit); // v = q*unit + r, 0 <= r < unit
    if r.is_zero() {
        return v.clone();
    }
    let down: BigInt = &q * &unit; // toward -inf
    let up: BigInt = (&q + BigInt::one()) * &unit; // toward +inf
    let positive = v.is_positive();
    let toward_zero = if positive { down.clone() } else { up.clone() };
    let away = if positive { up.clone() } else { down.clone() };
    match mode {
        RoundingMode::ToPositiveInfinity => up,
        RoundingMode::ToNegativeInfinity => down,
        RoundingMode::ToZero => toward_zero,
        RoundingMode::AwayFromZero => away,
        RoundingMode::ToNearestMidpointTowardZero | RoundingMode::ToNearestMidpointAwayFromZero | RoundingMode::ToNearestMidpointToEven => {
            let twice = &r * 2;
            if twice < unit {
                down
            } else if twice > unit {
                up
            } else {
                match mode {
                    RoundingMode::ToNearestMidpointTowardZero => toward_zero,
                    RoundingMode::ToNearestMidpointAwayFromZero => away,
                    _ => {
                        // q is the multiple count of `down`; even multiple wins
                        if (&q % BigInt::from(2)).is_zero() {
                            down
                        } else {
                            up
                        }
                    }
                }
            }
        }
    }
}

pub fn show<T: Fixed>(r: &Result<Option<T>, String>) -> String {
    match r {
        Ok(Some(v)) => format!("Some({})", to_big(v)),
        Ok(None) => "None".to_string(),
        Err(p) => format!("PANIC({})", mc_core::truncate(p, 120)),
    }
}

pub fn show_big(e: &Option<BigInt>) -> String {
    match e {
        Some(v) => format!("Some({v})"),
        None => "None".to_string(),
    }
}

/// Render a raw value as a decimal string of the type (for human-readable cases).
pub fn render(raw: &BigInt, scale: u32) -> String {
    let one = pow10(scale);
    let a = raw.abs();
    let ip = &a / &one;
    let fp = &a % &one;
    let sign = if raw.is_negative() { "-" } else { "" };
    if fp.is_zero() {
        format!("{sign}{ip}")
    } else {
        let f = format!("{:0>width$}", fp.to_string(), width = scale as usize);
        format!("{sign}{ip}.{}", f.trim_end_matches('0'))
    }
}

/// Compare an expectation of the "exact or reports failure" shape with what the real code did.
/// None = agreement; Some(kind) = disagreement class (first component of the violation key).
pub fn verdict(ty: &Ty, exp: &Option<BigInt>, got: &Result<Option<BigInt>, String>) -> Option<&'static str> {
    match (exp, got) {
        (_, Err(_)) => Some("panic"),
        (None, Ok(None)) => None,
        (Some(e), Ok(Some(g))) => {
            if e == g {
                None
            } else {
                Some("wrong-value")
            }
        }
        (Some(e), Ok(None)) => Some(if e == &ty.min { "exact-MIN-rejected" } else { "spurious-failure" }),
        (None, Ok(Some(_))) => Some("missed-overflow"),
    }
}

pub fn got_big<T: Fixed>(r: Result<Option<T>, String>) -> Result<Option<BigInt>, String> {
    r.map(|o| o.map(|v| to_big(&v)))
}

pub fn show_got(r: &Result<Option<BigInt>, String>) -> String {
    match r {
        Ok(Some(v)) => format!("Some({v})"),
        Ok(None) => "None".to_string(),
        Err(p) => format!("PANIC({} @ {})", mc_core::truncate(p, 120), mc_core::last_panic_location()),
    }
}

pub fn parse_big(v: &serde_json::Value, field: &str) -> BigInt {
    let s = v.get(field).and_then(|x| x.as_str()).unwrap_or_else(|| mc_core::machinery_error(&format!("replay case lacks string field {field}")));
    s.parse::<BigInt>().unwrap_or_else(|_| mc_core::machinery_error(&format!("replay field {field} is not an integer")))
}

/// Record a disagreement: a deterministic informational counter per kind, and one violation record per
/// distinct key for the whole run (first occurrence wins), so that the number of recorded violations /
/// known-finding hits does not depend on how the work was split over threads.
pub fn report(l: &mut mc_core::Local, kind: &str, key: String, what: String, case: serde_json::Value) {
    static SEEN: std::sync::Mutex<BTreeSet<String>> = std::sync::Mutex::new(BTreeSet::new());
    l.info(&format!("disagreements of kind {kind}"));
    if SEEN.lock().unwrap().insert(key.clone()) {
        l.violation(key, what, case);
    }
}
