//! C24 — decimal arithmetic is exact or reports overflow.
//!
//! Bounded-exhaustive: every ordered pair of the boundary lattice L(T) (DESIGN §4.3) for T in {Decimal,
//! PreciseDecimal} through checked add / sub / mul / div, every lattice value through neg / abs, plus for
//! every lattice value `a` the *overflow-frontier partners* (the b for which a∘b lands on / next to MAX or
//! MIN), the conversions Decimal <-> PreciseDecimal, integers -> both, both -> integers, and the mixed-type
//! operator impls. Oracle: exact BigInt arithmetic on raw sub-units, truncated toward zero; representable
//! => Some(exact), else None; never a panic. Raw values are moved in and out as u64 limbs only.
use crate::numref::*;
use mc_core::{par_range, Ctx, Level, Local};
use num_bigint::BigInt;
use num_traits::{One, Signed, Zero};
use radix_common::math::*;
use serde_json::{json, Map, Value};
use std::collections::BTreeSet;

#[derive(Clone, Copy, PartialEq, Eq, Debug)]
pub enum Op {
    Add,
    Sub,
    Mul,
    Div,
}
pub const OPS: [Op; 4] = [Op::Add, Op::Sub, Op::Mul, Op::Div];

impl Op {
    fn name(self) -> &'static str {
        match self {
            Op::Add => "add",
            Op::Sub => "sub",
            Op::Mul => "mul",
            Op::Div => "div",
        }
    }
    fn by_name(s: &str) -> Option<Op> {
        OPS.iter().copied().find(|o| o.name() == s)
    }
}

/// The specification: exact result truncated toward zero to the scale; representable => Some, else None.
fn expect_bin(ty: &Ty, op: Op, a: &BigInt, b: &BigInt) -> (Option<BigInt>, &'static str) {
    match op {
        Op::Add => {
            let r = a + b;
            if ty.fits(&r) {
                (Some(r), "add:exact")
            } else {
                (None, "add:overflow")
            }
        }
        Op::Sub => {
            let r = a - b;
            if ty.fits(&r) {
                (Some(r), "sub:exact")
            } else {
                (None, "sub:overflow")
            }
        }
        Op::Mul => {
            let (q, exact) = div_trunc(&(a * b), &ty.one);
            if ty.fits(&q) {
                (Some(q), if exact { "mul:exact" } else { "mul:truncated" })
            } else {
                (None, "mul:overflow")
            }
        }
        Op::Div => {
            if b.is_zero() {
                return (None, "div:by-zero");
            }
            let (q, exact) = div_trunc(&(a * &ty.one), b);
            if ty.fits(&q) {
                (Some(q), if exact { "div:exact" } else { "div:truncated" })
            } else {
                (None, "div:overflow")
            }
        }
    }
}

fn real_bin<T: Fixed>(op: Op, a: T, b: T) -> Result<Option<BigInt>, String> {
    got_big(mc_core::catch(|| match op {
        Op::Add => a.c_add(b),
        Op::Sub => a.c_sub(b),
        Op::Mul => a.c_mul(b),
        Op::Div => a.c_div(b),
    }))
}

#[allow(clippy::too_many_arguments)]
fn check_bin<T: Fixed>(ty: &Ty, op: Op, a: &BigInt, b: &BigInt, av: T, bv: T, origin: &str, l: &mut Local) {
    l.eval();
    let (exp, class) = expect_bin(ty, op, a, b);
    l.class(class);
    let got = real_bin(op, av, bv);
    if let Some(kind) = verdict(ty, &exp, &got) {
        report(
            l,
            kind,
            format!("{kind}:{}:{}", T::NAME, op.name()),
            format!(
                "{}::checked_{}({}, {}) [raw {} , {}]: exact-or-overflow expects {}, real code returned {}",
                T::NAME,
                op.name(),
                render(a, ty.scale),
                render(b, ty.scale),
                a,
                b,
                show_big(&exp),
                show_got(&got)
            ),
            json!({"kind": "bin", "type": T::NAME, "op": op.name(), "a": a.to_string(), "b": b.to_string(), "origin": origin}),
        );
    }
}

fn check_unary<T: Fixed>(ty: &Ty, which: &str, a: &BigInt, av: T, l: &mut Local) {
    l.eval();
    let r = if which == "neg" { -a } else { a.abs() };
    let exp = ty.some_if_fits(r);
    l.class(match (which, exp.is_some()) {
        ("neg", true) => "neg:exact",
        ("neg", false) => "neg:overflow",
        (_, true) => "abs:exact",
        (_, false) => "abs:overflow",
    });
    let got = got_big(mc_core::catch(|| if which == "neg" { av.c_neg() } else { av.c_abs() }));
    if let Some(kind) = verdict(ty, &exp, &got) {
        report(
            l,
            kind,
            format!("{kind}:{}:{which}", T::NAME),
            format!("{}::checked_{which}({}) [raw {a}]: expected {}, real code returned {}", T::NAME, render(a, ty.scale), show_big(&exp), show_got(&got)),
            json!({"kind": "unary", "type": T::NAME, "op": which, "a": a.to_string()}),
        );
    }
}

/// For a given `a`: the partners b for which a+b, a-b, a*b, a/b land exactly on, one below and one above
/// the representable range (both ends). Deterministic function of (type, a).
fn frontier_partners(ty: &Ty, a: &BigInt) -> Vec<BigInt> {
    let mut out: BTreeSet<BigInt> = BTreeSet::new();
    let s = &ty.one;
    for t in [&ty.max, &ty.min] {
        for d in -1i32..=1 {
            out.insert(t - a + d); // a + b = t + d
            out.insert(a - t + d); // a - b = t - d
        }
    }
    if !a.is_zero() {
        let aa = a.abs();
        for m in [ty.max.clone(), -&ty.min] {
            // largest |b| with trunc(|a||b| / S) <= m
            let b0: BigInt = (&m * s + s - 1) / &aa;
            for d in -1i32..=1 {
                let b = &b0 + d;
                out.insert(-&b);
                out.insert(b);
            }
            // trunc(|a| S / |b|) <= m  <=>  |b| > |a| S / (m + 1)
            let c0: BigInt = (&aa * s) / (&m + 1);
            for d in 0i32..=2 {
                let b = &c0 + d;
                out.insert(-&b);
                out.insert(b);
            }
        }
    }
    out.into_iter().filter(|b| ty.fits(b)).collect()
}

fn sweep<T: Fixed>(ctx: &Ctx, lat: &Lat<T>) -> (u64, u64) {
    let n = lat.len();
    // all ordered pairs, one row per work item
    par_range(ctx, n as u64, 1, |i, l| {
        let i = i as usize;
        for j in 0..n {
            for op in OPS {
                check_bin(&lat.ty, op, &lat.big[i], &lat.big[j], lat.val[i], lat.val[j], "lattice-pair", l);
            }
        }
        check_unary(&lat.ty, "neg", &lat.big[i], lat.val[i], l);
        check_unary(&lat.ty, "abs", &lat.big[i], lat.val[i], l);
        if i % 101 == 7 {
            let j = (i * 31 + 5) % n;
            let (e, _) = expect_bin(&lat.ty, Op::Mul, &lat.big[i], &lat.big[j]);
            l.sample(|| json!({"type": T::NAME, "op": "mul", "a": render(&lat.big[i], lat.ty.scale), "b": render(&lat.big[j], lat.ty.scale), "expected_raw": show_big(&e)}));
        }
    });
    // overflow frontier
    let fr = std::sync::atomic::AtomicU64::new(0);
    par_range(ctx, n as u64, 8, |i, l| {
        let i = i as usize;
        let partners = frontier_partners(&lat.ty, &lat.big[i]);
        fr.fetch_add(partners.len() as u64, std::sync::atomic::Ordering::Relaxed);
        for b in &partners {
            let bv: T = from_big(b).expect("filtered to range");
            for op in OPS {
                check_bin(&lat.ty, op, &lat.big[i], b, lat.val[i], bv, "overflow-frontier", l);
                check_bin(&lat.ty, op, b, &lat.big[i], bv, lat.val[i], "overflow-frontier", l);
            }
        }
    });
    ((n * n) as u64, fr.into_inner())
}

// ------------------------------------------------------------------------------------------------
// conversions
// ------------------------------------------------------------------------------------------------

fn report_conv(l: &mut Local, ty: &Ty, what: &str, tname: &str, input: &str, exp: &Option<BigInt>, got: &Result<Option<BigInt>, String>, case: Value) {
    if let Some(kind) = verdict(ty, exp, got) {
        report(l, kind, format!("{kind}:{tname}:{what}"), format!("{what} [{tname}] of {input}: expected {}, real code returned {}", show_big(exp), show_got(got)), case);
    }
}

fn conv_between(ld: &Lat<Decimal>, lp: &Lat<PreciseDecimal>, l: &mut Local) {
    let e18 = pow10(18);
    for (b, v) in ld.big.iter().zip(ld.val.iter()) {
        l.eval();
        let exp = lp.ty.some_if_fits(b * &e18);
        l.class("widen:exact");
        let got = got_big(mc_core::catch(|| Some(PreciseDecimal::from(*v))));
        report_conv(l, &lp.ty, "widen(Decimal->PreciseDecimal)", "Decimal", &b.to_string(), &exp, &got, json!({"kind": "widen", "a": b.to_string()}));
    }
    for (b, v) in lp.big.iter().zip(lp.val.iter()) {
        l.eval();
        let (q, exact) = div_trunc(b, &e18);
        let exp = ld.ty.some_if_fits(q);
        l.class(match (&exp, exact) {
            (Some(_), true) => "narrow:exact",
            (Some(_), false) => "narrow:truncated",
            (None, _) => "narrow:out-of-range",
        });
        let got = got_big(mc_core::catch(|| Decimal::try_from(*v).ok()));
        report_conv(l, &ld.ty, "narrow(try_from PreciseDecimal->Decimal)", "PreciseDecimal", &b.to_string(), &exp, &got, json!({"kind": "narrow", "via": "try_from", "a": b.to_string()}));
        let got = got_big(mc_core::catch(|| v.checked_truncate(RoundingMode::ToZero)));
        report_conv(l, &ld.ty, "narrow(checked_truncate ToZero)", "PreciseDecimal", &b.to_string(), &exp, &got, json!({"kind": "narrow", "via": "checked_truncate", "a": b.to_string()}));
    }
}

fn prim_into<T, I>(ty: &Ty, iv: I, ib: &BigInt, iname: &str, l: &mut Local)
where
    T: Fixed + From<I>,
    I: Copy,
{
    l.eval();
    let exp = ty.some_if_fits(ib * &ty.one);
    l.class(if exp.is_some() { "from-int:exact" } else { "from-int:overflow" });
    let got = got_big(mc_core::catch(|| Some(T::from(iv))));
    report_conv(l, ty, "from-int", &format!("{}<-{iname}", T::NAME), &ib.to_string(), &exp, &got, json!({"kind": "from-int", "type": T::NAME, "int": iname, "a": ib.to_string()}));
}

fn prim_back<T, I>(lat: &Lat<T>, imin: &BigInt, imax: &BigInt, iname: &str, l: &mut Local)
where
    T: Fixed,
    I: TryFrom<T>,
    BigInt: From<I>,
{
    for (a, av) in lat.big.iter().zip(lat.val.iter()) {
        l.eval();
        let (q, exact) = div_trunc(a, &lat.ty.one);
        let (exp, class) = if !exact {
            (None, "to-int:fractional")
        } else if &q >= imin && &q <= imax {
            (Some(q), "to-int:exact")
        } else {
            (None, "to-int:out-of-range")
        };
        l.class(class);
        let got: Result<Option<BigInt>, String> = mc_core::catch(|| I::try_from(*av).ok().map(BigInt::from));
        // (the "exact-MIN-rejected" label of `verdict` refers to the fixed-point type and cannot match here)
        report_conv(l, &lat.ty, "to-int", &format!("{iname}<-{}", T::NAME), &a.to_string(), &exp, &got, json!({"kind": "to-int", "type": T::NAME, "int": iname, "a": a.to_string()}));
    }
}

#[allow(clippy::too_many_arguments)]
fn mixed_case<T: Fixed>(ty: &Ty, op: Op, lhs: &BigInt, rhs: &BigInt, operand_ok: bool, got: Result<Option<BigInt>, String>, what: &str, case: Value, l: &mut Local) {
    l.eval();
    if !operand_ok {
        // the integer operand itself has no representation in T: the statement only asks for no panic
        l.class("mixed:operand-unrepresentable");
        if let Err(p) = &got {
            report(l, "panic", format!("panic:{}:{what}:{}", T::NAME, op.name()), format!("{what} {}: panicked: {p}", op.name()), case);
        } else if let Ok(Some(_)) = &got {
            l.info("mixed op with an unrepresentable integer operand returned Some (statement silent)");
        }
        return;
    }
    let (exp, _) = expect_bin(ty, op, lhs, rhs);
    l.class(if exp.is_some() { "mixed:some" } else { "mixed:none" });
    if let Some(kind) = verdict(ty, &exp, &got) {
        report(
            l,
            kind,
            format!("{kind}:{}:{what}:{}", T::NAME, op.name()),
            format!("{what} checked_{}: lhs raw {lhs}, rhs raw {rhs}: expected {}, real code returned {}", op.name(), show_big(&exp), show_got(&got)),
            case,
        );
    }
}

fn prim_mixed<T, I>(core: &Lat<T>, iv: I, ib: &BigInt, iname: &str, l: &mut Local)
where
    T: Fixed + CheckedAdd<I, Output = T> + CheckedSub<I, Output = T> + CheckedMul<I, Output = T> + CheckedDiv<I, Output = T>,
    I: Copy,
{
    let rhs = ib * &core.ty.one;
    let ok = core.ty.fits(&rhs);
    for (a, av) in core.big.iter().zip(core.val.iter()) {
        for op in OPS {
            let got = got_big(mc_core::catch(|| match op {
                Op::Add => <T as CheckedAdd<I>>::checked_add(*av, iv),
                Op::Sub => <T as CheckedSub<I>>::checked_sub(*av, iv),
                Op::Mul => <T as CheckedMul<I>>::checked_mul(*av, iv),
                Op::Div => <T as CheckedDiv<I>>::checked_div(*av, iv),
            }));
            mixed_case::<T>(&core.ty, op, a, &rhs, ok, got, &format!("{} op {iname}", T::NAME), json!({"kind": "mixed-int", "type": T::NAME, "int": iname, "op": op.name(), "a": a.to_string(), "int_value": ib.to_string()}), l);
        }
    }
}

macro_rules! prim_suite {
    ($ld:expr, $lp:expr, $cd:expr, $cp:expr, $l:expr, $($t:ident),*) => {$(
        {
            let iname = stringify!($t);
            let mut vals: Vec<$t> = vec![<$t>::MIN, <$t>::MIN + 1, (0 as $t).wrapping_sub(1), 0, 1, 2, 10, <$t>::MAX - 1, <$t>::MAX];
            vals.sort();
            vals.dedup();
            let (imin, imax) = (BigInt::from(<$t>::MIN), BigInt::from(<$t>::MAX));
            for &iv in &vals {
                let ib = BigInt::from(iv);
                prim_into::<Decimal, $t>(&$ld.ty, iv, &ib, iname, $l);
                prim_into::<PreciseDecimal, $t>(&$lp.ty, iv, &ib, iname, $l);
                prim_mixed::<Decimal, $t>($cd, iv, &ib, iname, $l);
                prim_mixed::<PreciseDecimal, $t>($cp, iv, &ib, iname, $l);
            }
            prim_back::<Decimal, $t>($ld, &imin, &imax, iname, $l);
            prim_back::<PreciseDecimal, $t>($lp, &imin, &imax, iname, $l);
        }
    )*};
}

/// Interesting integers for the wide integer types: type bounds, limb boundaries, and the largest /
/// smallest integer *values* of both fixed-point types with their neighbours.
fn wide_int_candidates(bits: u32, signed: bool) -> Vec<BigInt> {
    let mut s: BTreeSet<BigInt> = BTreeSet::new();
    let (lo, hi): (BigInt, BigInt) = if signed { (-pow2(bits - 1), pow2(bits - 1) - 1) } else { (BigInt::zero(), pow2(bits) - 1) };
    for v in [BigInt::zero(), BigInt::one(), BigInt::from(2), BigInt::from(10), lo.clone(), &lo + 1, hi.clone(), &hi - 1] {
        s.insert(v);
    }
    for k in [63u32, 64, 127, 128, 131, 132, 135, 136, 191, 192, 255, 256] {
        for d in -1i32..=1 {
            s.insert(pow2(k) + d);
            s.insert(-(pow2(k) + d));
        }
    }
    for (b, sc) in [(192u32, 18u32), (256, 36)] {
        let vmax = (pow2(b - 1) - 1) / pow10(sc); // largest integer value
        let vmin = -(pow2(b - 1) / pow10(sc)); // smallest integer value
        for d in -1i32..=1 {
            s.insert(&vmax + d);
            s.insert(&vmin + d);
        }
    }
    s.insert(-BigInt::one());
    s.into_iter().filter(|v| v >= &lo && v <= &hi).collect()
}

/// Wide integer type -> fixed-point conversion at the candidate values; `mixed` additionally runs the
/// mixed-type checked operators in both operand orders (they do not exist for I384 / U384).
macro_rules! wide_suite {
    ($T:ty, $core:expr, $l:expr, $signed:expr, $mixed:tt, $($t:ident),*) => {$(
        {
            let iname = stringify!($t);
            let n = <$t>::N;
            let ty: &Ty = &$core.ty;
            for ib in wide_int_candidates((n * 64) as u32, $signed) {
                let limbs = if $signed { big_to_limbs(&ib, n) } else { big_to_ulimbs(&ib, n) }.expect("candidate filtered to the int type's range");
                let mut arr = [0u64; <$t>::N];
                arr.copy_from_slice(&limbs);
                let iv = <$t>::from_digits(arr);
                // the limb transport into the wide integer type must be lossless
                let back = if $signed { limbs_to_big(&iv.to_digits()) } else { ulimbs_to_big(&iv.to_digits()) };
                if back != ib {
                    mc_core::machinery_error("wide integer limb transport is not lossless");
                }
                let rhs = &ib * &ty.one;
                // conversion
                $l.eval();
                let exp = ty.some_if_fits(rhs.clone());
                $l.class(if exp.is_some() { "from-wide-int:exact" } else { "from-wide-int:overflow" });
                let got = got_big(mc_core::catch(|| <$T>::try_from(iv).ok()));
                report_conv($l, ty, "from-wide-int", &format!("{}<-{iname}", <$T as Fixed>::NAME), &ib.to_string(), &exp, &got,
                    json!({"kind": "from-wide-int", "type": <$T as Fixed>::NAME, "int": iname, "a": ib.to_string()}));
                wide_mixed!($mixed, $T, $t, $core, $l, iv, ib, rhs, ty, iname);
            }
        }
    )*};
}

macro_rules! wide_mixed {
    (conv_only, $T:ty, $t:ident, $core:expr, $l:expr, $iv:ident, $ib:ident, $rhs:ident, $ty:ident, $iname:ident) => {
        let _ = (&$iv, &$ib, &$rhs, &$ty, &$iname);
    };
    (mixed, $T:ty, $t:ident, $core:expr, $l:expr, $iv:ident, $ib:ident, $rhs:ident, $ty:ident, $iname:ident) => {
        let ok = $ty.fits(&$rhs);
        for (a, av) in $core.big.iter().zip($core.val.iter()) {
            for op in OPS {
                let got = got_big(mc_core::catch(|| match op {
                    Op::Add => <$T as CheckedAdd<$t>>::checked_add(*av, $iv),
                    Op::Sub => <$T as CheckedSub<$t>>::checked_sub(*av, $iv),
                    Op::Mul => <$T as CheckedMul<$t>>::checked_mul(*av, $iv),
                    Op::Div => <$T as CheckedDiv<$t>>::checked_div(*av, $iv),
                }));
                mixed_case::<$T>($ty, op, a, &$rhs, ok, got, &format!("{} op {}", <$T as Fixed>::NAME, $iname),
                    json!({"kind": "mixed-wide", "type": <$T as Fixed>::NAME, "int": $iname, "op": op.name(), "a": a.to_string(), "int_value": $ib.to_string(), "order": "fixed-op-int"}), $l);
                let got = got_big(mc_core::catch(|| match op {
                    Op::Add => <$t as CheckedAdd<$T>>::checked_add($iv, *av),
                    Op::Sub => <$t as CheckedSub<$T>>::checked_sub($iv, *av),
                    Op::Mul => <$t as CheckedMul<$T>>::checked_mul($iv, *av),
                    Op::Div => <$t as CheckedDiv<$T>>::checked_div($iv, *av),
                }));
                mixed_case::<$T>($ty, op, &$rhs, a, ok, got, &format!("{} op {}", $iname, <$T as Fixed>::NAME),
                    json!({"kind": "mixed-wide", "type": <$T as Fixed>::NAME, "int": $iname, "op": op.name(), "a": a.to_string(), "int_value": $ib.to_string(), "order": "int-op-fixed"}), $l);
            }
        }
    };
}

/// PreciseDecimal op Decimal and Decimal op PreciseDecimal (both yield PreciseDecimal).
fn mixed_pd_d(ctx: &Ctx, lp: &Lat<PreciseDecimal>, ld: &Lat<Decimal>) -> u64 {
    let e18 = pow10(18);
    let widened: Vec<BigInt> = ld.big.iter().map(|b| b * &e18).collect();
    par_range(ctx, lp.len() as u64, 1, |i, l| {
        let i = i as usize;
        let (p, pv) = (&lp.big[i], lp.val[i]);
        for j in 0..ld.len() {
            let (dw, dv) = (&widened[j], ld.val[j]);
            for op in OPS {
                let got = got_big(mc_core::catch(|| match op {
                    Op::Add => <PreciseDecimal as CheckedAdd<Decimal>>::checked_add(pv, dv),
                    Op::Sub => <PreciseDecimal as CheckedSub<Decimal>>::checked_sub(pv, dv),
                    Op::Mul => <PreciseDecimal as CheckedMul<Decimal>>::checked_mul(pv, dv),
                    Op::Div => <PreciseDecimal as CheckedDiv<Decimal>>::checked_div(pv, dv),
                }));
                mixed_case::<PreciseDecimal>(&lp.ty, op, p, dw, true, got, "PreciseDecimal op Decimal", json!({"kind": "mixed-pd-d", "op": op.name(), "p": p.to_string(), "d": ld.big[j].to_string(), "order": "pd-op-d"}), l);
                let got = got_big(mc_core::catch(|| match op {
                    Op::Add => <Decimal as CheckedAdd<PreciseDecimal>>::checked_add(dv, pv),
                    Op::Sub => <Decimal as CheckedSub<PreciseDecimal>>::checked_sub(dv, pv),
                    Op::Mul => <Decimal as CheckedMul<PreciseDecimal>>::checked_mul(dv, pv),
                    Op::Div => <Decimal as CheckedDiv<PreciseDecimal>>::checked_div(dv, pv),
                }));
                mixed_case::<PreciseDecimal>(&lp.ty, op, dw, p, true, got, "Decimal op PreciseDecimal", json!({"kind": "mixed-pd-d", "op": op.name(), "p": p.to_string(), "d": ld.big[j].to_string(), "order": "d-op-pd"}), l);
            }
        }
    });
    (lp.len() * ld.len()) as u64
}

// ------------------------------------------------------------------------------------------------

fn replay(ctx: Ctx, case: Value) -> ! {
    let kind = case.get("kind").and_then(|k| k.as_str()).unwrap_or("");
    let tname = case.get("type").and_then(|k| k.as_str()).unwrap_or("Decimal");
    let mut l = Local::new();
    fn bin<T: Fixed>(case: &Value, l: &mut Local) {
        let ty = Ty::of::<T>();
        let (a, b) = (parse_big(case, "a"), parse_big(case, "b"));
        let op = Op::by_name(case.get("op").and_then(|k| k.as_str()).unwrap_or("")).unwrap_or_else(|| mc_core::machinery_error("replay: unknown op"));
        let (av, bv): (T, T) = (from_big(&a).unwrap_or_else(|| mc_core::machinery_error("replay: a out of range")), from_big(&b).unwrap_or_else(|| mc_core::machinery_error("replay: b out of range")));
        let (exp, _) = expect_bin(&ty, op, &a, &b);
        println!("REPLAY {}::checked_{}({}, {}): expected {}, real code returned {}", T::NAME, op.name(), render(&a, ty.scale), render(&b, ty.scale), show_big(&exp), show_got(&real_bin(op, av, bv)));
        check_bin(&ty, op, &a, &b, av, bv, "replay", l);
    }
    fn unary<T: Fixed>(case: &Value, l: &mut Local) {
        let ty = Ty::of::<T>();
        let a = parse_big(case, "a");
        let av: T = from_big(&a).unwrap_or_else(|| mc_core::machinery_error("replay: a out of range"));
        let which = if case.get("op").and_then(|k| k.as_str()) == Some("neg") { "neg" } else { "abs" };
        check_unary(&ty, which, &a, av, l);
    }
    match (kind, tname) {
        ("bin", "Decimal") => bin::<Decimal>(&case, &mut l),
        ("bin", _) => bin::<PreciseDecimal>(&case, &mut l),
        ("unary", "Decimal") => unary::<Decimal>(&case, &mut l),
        ("unary", _) => unary::<PreciseDecimal>(&case, &mut l),
        ("narrow", _) | ("widen", _) => {
            let a = parse_big(&case, "a");
            if kind == "narrow" {
                let lp = Lat::<PreciseDecimal>::from_values(Ty::of::<PreciseDecimal>(), vec![a]);
                let ld = Lat::<Decimal>::from_values(Ty::of::<Decimal>(), vec![]);
                conv_between(&ld, &lp, &mut l);
            } else {
                let ld = Lat::<Decimal>::from_values(Ty::of::<Decimal>(), vec![a]);
                let lp = Lat::<PreciseDecimal>::from_values(Ty::of::<PreciseDecimal>(), vec![]);
                conv_between(&ld, &lp, &mut l);
            }
        }
        _ => mc_core::machinery_error("replay of this case kind is not supported; rerun the tier (the enumeration is deterministic)"),
    }
    println!("REPLAY verdict: {}", if l.violations.is_empty() { "agrees with the specification" } else { "VIOLATES the specification" });
    ctx.merge(l);
    ctx.finish(Level::Exploration, "replay", 0, false, Map::new(), &[])
}

pub fn run(ctx: Ctx) -> ! {
    if let Some(case) = ctx.read_replay_case() {
        replay(ctx, case);
    }
    let quick = ctx.quick();
    // main lattices (thorough: with the denser families), and the plain §4.3 lattices for the cross sweeps
    let ld = Lat::<Decimal>::build(quick, !quick);
    let lp = Lat::<PreciseDecimal>::build(quick, !quick);
    let bd = Lat::<Decimal>::build(quick, false);
    let bp = Lat::<PreciseDecimal>::build(quick, false);
    let cd = Lat::<Decimal>::build(true, false);
    let cp = Lat::<PreciseDecimal>::build(true, false);

    let (pairs_d, frontier_d) = sweep(&ctx, &ld);
    let t_d = ctx.elapsed_s();
    let (pairs_p, frontier_p) = sweep(&ctx, &lp);
    let t_p = ctx.elapsed_s();

    // conversions and integer mixed operators: one work item per integer type
    type Task<'a> = Box<dyn Fn(&mut Local) + Send + Sync + 'a>;
    let mut tasks: Vec<Task> = vec![Box::new(|l: &mut Local| conv_between(&ld, &lp, l))];
    macro_rules! prim_tasks {
        ($($t:ident),*) => {$( tasks.push(Box::new(|l: &mut Local| { prim_suite!(&ld, &lp, &cd, &cp, l, $t); })); )*};
    }
    macro_rules! wide_tasks {
        ($T:ty, $core:expr, $signed:expr, $mixed:tt, $($t:ident),*) => {$( tasks.push(Box::new(|l: &mut Local| { wide_suite!($T, $core, l, $signed, $mixed, $t); })); )*};
    }
    prim_tasks!(i8, i16, i32, i64, i128, isize, u8, u16, u32, u64, u128, usize);
    wide_tasks!(Decimal, &cd, true, mixed, I192, I256, I320, I448, I512);
    wide_tasks!(Decimal, &cd, false, mixed, U192, U256, U320, U448, U512);
    wide_tasks!(PreciseDecimal, &cp, true, mixed, I192, I256, I320, I448, I512);
    wide_tasks!(PreciseDecimal, &cp, false, mixed, U192, U256, U320, U448, U512);
    wide_tasks!(PreciseDecimal, &cp, true, conv_only, I384);
    wide_tasks!(PreciseDecimal, &cp, false, conv_only, U384);
    mc_core::par_for(&ctx, &tasks, |t, l| t(l));
    drop(tasks);
    let cross = mixed_pd_d(&ctx, &bp, &bd);

    let classes = ctx.classes();
    let nontrivial: u64 = classes
        .iter()
        .filter(|(k, _)| [":truncated", ":overflow", ":by-zero", ":out-of-range", ":fractional", "mixed:none"].iter().any(|s| k.ends_with(s)))
        .map(|(_, v)| *v)
        .sum();
    let mut cov = Map::new();
    cov.insert("lattice_decimal".into(), json!(ld.len()));
    cov.insert("lattice_precise_decimal".into(), json!(lp.len()));
    cov.insert("ordered_pairs_decimal".into(), json!(pairs_d));
    cov.insert("ordered_pairs_precise_decimal".into(), json!(pairs_p));
    cov.insert("overflow_frontier_partners_decimal".into(), json!(frontier_d));
    cov.insert("overflow_frontier_partners_precise_decimal".into(), json!(frontier_p));
    cov.insert("cross_type_pairs".into(), json!(cross));
    cov.insert("core_lattice_for_integer_mixed_ops".into(), json!([cd.len(), cp.len()]));
    cov.insert("seconds_decimal_sweep".into(), json!(t_d));
    cov.insert("seconds_precise_decimal_sweep".into(), json!(t_p - t_d));
    ctx.finish(
        Level::Exploration,
        "a case = one (type, operation, operand tuple) evaluated on the real code and on exact BigInt arithmetic; operand tuples = all ordered pairs of the boundary lattice L(T) x {add,sub,mul,div}, all of L(T) x {neg,abs}, per lattice value the overflow-frontier partners (both orders), all lattice values through every conversion, integer boundary values x core lattice through the mixed operators, L(PreciseDecimal) x L(Decimal) through the cross-type operators; non-trivial = cases whose exact result needs truncation, overflows, divides by zero, is fractional or out of range (sum of those outcome classes)",
        nontrivial,
        true,
        cov,
        &[
            "raw values are transported as u64 limbs via from_digits/to_digits (checked lossless for every lattice value)",
            "coverage is the boundary lattice and its overflow frontier, not all 2^384 / 2^512 pairs",
            "mixed operators whose integer operand has no representation in the fixed-point type are only required not to panic",
        ],
    )
}
