//! C29 — calendar time conversions are correct and invertible.
//!
//! Bounded-exhaustive enumeration *by day*:
//!  (a) every day of a contiguous range of years starting at year 1, plus three far 400-year cycles (around
//!      year 10^6, around 2^31 and the last one ending 4294967295-12-31), each at 8 seconds-of-day:
//!      `from_instant` equals the proleptic Gregorian reference, `to_instant` inverts it, `new` accepts the
//!      reference date and its `to_instant` equals the reference timestamp (so mutually consistent changes of
//!      both directions are seen), consecutive enumerated instants map to strictly increasing date-times;
//!  (b) `new` accepts exactly the valid civil dates on a grid of (year, month 0..=13, day 0..=32, h, m, s);
//!  (c) out-of-range instants are errors, the two range ends convert;
//!  (d) `add_days/hours/minutes/seconds` on one date-time per enumerated day x 21 deltas (incl. the exact
//!      distances to both range ends and i64 extremes) agree with exact (i128) timestamp arithmetic;
//!  (e) text: every enumerated date-time with year <= 9999 prints as the documented ISO-8601 text and parses
//!      back to itself; all single/double-point mutations of valid texts and all per-field contents over a
//!      small alphabet (incl. non-ASCII, NUL): `from_str` never panics, strict-form texts are accepted iff they
//!      are a valid civil date-time and then yield exactly the written fields.
//!
//! Reference calendar: the most boring one possible — a day-by-day walk with the leap rule and a month-length
//! table — cross-checked on every enumerated day against the closed-form days-from-civil / civil-from-days
//! (disagreement of the two references is a machinery error). The closed form is then used for the
//! arithmetic targets, which are not on the walk.
use crate::c27::Collector;
use mc_core::{par_for, Ctx, Level, Local};
use radix_common::time::{Instant, UtcDateTime};
use serde_json::{json, Map, Value};
use std::str::FromStr;

const MIN_TS: i64 = -62135596800; // 0001-01-01T00:00:00Z
const MAX_TS: i64 = 135536014634284799; // 4294967295-12-31T23:59:59Z
const DAY: i64 = 86400;

// ------------------------------------------------------------------------------------------------
// reference calendar
// ------------------------------------------------------------------------------------------------

fn is_leap(y: i64) -> bool {
    y % 4 == 0 && (y % 100 != 0 || y % 400 == 0)
}

fn days_in_month(y: i64, m: i64) -> i64 {
    match m {
        1 | 3 | 5 | 7 | 8 | 10 | 12 => 31,
        4 | 6 | 9 | 11 => 30,
        2 => {
            if is_leap(y) {
                29
            } else {
                28
            }
        }
        _ => 0,
    }
}

/// closed form, days since 1970-01-01 (proleptic Gregorian)
fn days_from_civil(y: i64, m: i64, d: i64) -> i64 {
    let y = if m <= 2 { y - 1 } else { y };
    let era = (if y >= 0 { y } else { y - 399 }) / 400;
    let yoe = y - era * 400;
    let mp = if m > 2 { m - 3 } else { m + 9 };
    let doy = (153 * mp + 2) / 5 + d - 1;
    let doe = yoe * 365 + yoe / 4 - yoe / 100 + doy;
    era * 146097 + doe - 719468
}

fn civil_from_days(z: i64) -> (i64, i64, i64) {
    let z = z + 719468;
    let era = (if z >= 0 { z } else { z - 146096 }) / 146097;
    let doe = z - era * 146097;
    let yoe = (doe - doe / 1460 + doe / 36524 - doe / 146096) / 365;
    let y = yoe + era * 400;
    let doy = doe - (365 * yoe + yoe / 4 - yoe / 100);
    let mp = (5 * doy + 2) / 153;
    let d = doy - (153 * mp + 2) / 5 + 1;
    let m = if mp < 10 { mp + 3 } else { mp - 9 };
    (if m <= 2 { y + 1 } else { y }, m, d)
}

#[derive(Clone, Copy, Debug, PartialEq, Eq, PartialOrd, Ord)]
struct Fields {
    y: i64,
    mo: i64,
    d: i64,
    h: i64,
    mi: i64,
    s: i64,
}

impl Fields {
    fn of(dt: &UtcDateTime) -> Fields {
        Fields { y: dt.year() as i64, mo: dt.month() as i64, d: dt.day_of_month() as i64, h: dt.hour() as i64, mi: dt.minute() as i64, s: dt.second() as i64 }
    }
    fn valid(&self) -> bool {
        self.y >= 1 && self.y <= u32::MAX as i64 && (1..=12).contains(&self.mo) && self.d >= 1 && self.d <= days_in_month(self.y, self.mo) && (0..=23).contains(&self.h) && (0..=59).contains(&self.mi) && (0..=59).contains(&self.s)
    }
    fn iso(&self) -> String {
        format!("{:04}-{:02}-{:02}T{:02}:{:02}:{:02}Z", self.y, self.mo, self.d, self.h, self.mi, self.s)
    }
    fn json(&self) -> Value {
        json!([self.y, self.mo, self.d, self.h, self.mi, self.s])
    }
}

/// closed-form reference for an arbitrary timestamp (used for arithmetic targets)
fn fields_of_ts(t: i64) -> Fields {
    let day = t.div_euclid(DAY);
    let sod = t.rem_euclid(DAY);
    let (y, mo, d) = civil_from_days(day);
    Fields { y, mo, d, h: sod / 3600, mi: sod / 60 % 60, s: sod % 60 }
}

fn ts_label(t: i64) -> String {
    // fixed width so that the collector's (length, text) order is numeric order from the range start
    format!("{:020}", (t as i128) - (MIN_TS as i128) + (1i128 << 64))
}

// ------------------------------------------------------------------------------------------------
// (a) + (d) + (e-roundtrip): per enumerated day
// ------------------------------------------------------------------------------------------------

const SODS: [i64; 8] = [0, 1, 59, 60, 3599, 3600, 43200, 86399];

fn new_dt(f: &Fields) -> Result<UtcDateTime, String> {
    UtcDateTime::new(f.y as u32, f.mo as u8, f.d as u8, f.h as u8, f.mi as u8, f.s as u8).map_err(|e| format!("{e:?}"))
}

fn check_instant(t: i64, exp: &Fields, prev: &mut Option<(i64, UtcDateTime)>, l: &mut Local, col: &Collector) -> Option<UtcDateTime> {
    l.eval();
    let case = || json!({"kind": "instant", "t": t});
    let lab = || ts_label(t);
    // from_instant
    let got = mc_core::catch(|| UtcDateTime::from_instant(&Instant::new(t)));
    let mut out = None;
    match &got {
        Ok(Ok(dt)) => {
            let f = Fields::of(dt);
            if &f != exp {
                col.add("from_instant-wrong-fields".into(), &lab(), || format!("from_instant({t}) = {:?} but the Gregorian calendar says {:?}", f.json().to_string(), exp.json().to_string()), case);
            } else {
                l.class("instant:converted-as-calendar");
                out = Some(*dt);
            }
            // inverse
            match mc_core::catch(|| dt.to_instant()) {
                Ok(i) if i.seconds_since_unix_epoch == t => {}
                Ok(i) => col.add("to_instant-not-inverse".into(), &lab(), || format!("to_instant(from_instant({t})) = {}", i.seconds_since_unix_epoch), case),
                Err(p) => col.add("to_instant-panic".into(), &lab(), || format!("to_instant(from_instant({t})) panicked: {p}"), case),
            }
            // strictly increasing along the enumeration
            if let Some((pt, pdt)) = prev {
                if !(*pt < t && *pdt < *dt) {
                    let (pt, pdt) = (*pt, *pdt);
                    col.add("not-strictly-increasing".into(), &lab(), || format!("instants {pt} < {t} map to {pdt} !< {dt}"), case);
                }
            }
            *prev = Some((t, *dt));
        }
        Ok(Err(e)) => col.add("from_instant-rejects-supported-instant".into(), &lab(), || format!("from_instant({t}) = Err({e:?}); expected {}", exp.iso()), case),
        Err(p) => col.add("from_instant-panic".into(), &lab(), || format!("from_instant({t}) panicked: {p}"), case),
    }
    // the other direction on its own: new(reference fields) is accepted and denotes t
    match mc_core::catch(|| new_dt(exp).map(|dt| (dt, dt.to_instant().seconds_since_unix_epoch))) {
        Ok(Ok((dt, back))) => {
            if Fields::of(&dt) != *exp {
                col.add("new-getters-disagree".into(), &lab(), || format!("new{} stores {}", exp.json(), Fields::of(&dt).json()), case);
            } else if back != t {
                col.add("to_instant-disagrees-with-calendar".into(), &lab(), || format!("new{}.to_instant() = {back}, calendar says {t}", exp.json()), case);
            } else {
                l.class("date-time:to_instant-as-calendar");
            }
        }
        Ok(Err(e)) => col.add("new-rejects-valid-date".into(), &lab(), || format!("new{} = Err({e})", exp.json()), case),
        Err(p) => col.add("to_instant-panic".into(), &lab(), || format!("new{}.to_instant() panicked: {p}", exp.json()), case),
    }
    out
}

const UNITS: [(&str, i64); 4] = [("days", 86400), ("hours", 3600), ("minutes", 60), ("seconds", 1)];

fn deltas_for(t: i64, unit: i64) -> Vec<i64> {
    let mut v = vec![0, 1, -1, 59, -59, 365, -365, 146097, 86400 * 365, -86400 * 365, i64::MAX, i64::MIN, i64::MAX / unit, i64::MIN / unit];
    // first multiples that overflow i64 (only exist for units > 1)
    if let Some(x) = (i64::MAX / unit).checked_add(1) {
        v.push(x);
    }
    if let Some(x) = (i64::MIN / unit).checked_sub(1) {
        v.push(x);
    }
    // exact distances to the two ends of the supported range (and one step past them), in this unit
    let up = (MAX_TS as i128 - t as i128) / unit as i128;
    let down = (MIN_TS as i128 - t as i128) / unit as i128; // truncates toward zero => stays inside
    for x in [up, up + 1, down, down - 1] {
        if let Ok(x) = i64::try_from(x) {
            v.push(x);
        }
    }
    v
}

fn check_arith(t: i64, dt: &UtcDateTime, l: &mut Local, col: &Collector) {
    for (name, unit) in UNITS {
        for delta in deltas_for(t, unit) {
            l.eval();
            let exact: i128 = t as i128 + delta as i128 * unit as i128;
            let mul_fits = (delta as i128 * unit as i128) >= i64::MIN as i128 && (delta as i128 * unit as i128) <= i64::MAX as i128;
            let sum_fits = exact >= i64::MIN as i128 && exact <= i64::MAX as i128;
            let exp_instant: Option<i64> = if mul_fits && sum_fits { Some(exact as i64) } else { None };
            let exp_dt: Option<Fields> = exp_instant.filter(|x| *x >= MIN_TS && *x <= MAX_TS).map(fields_of_ts);
            let case = || json!({"kind": "arith", "t": t, "unit": name, "delta": delta});
            let lab = || format!("{}{:>8}{:021}", ts_label(t), name, delta as i128 + (1i128 << 64));
            let inst = Instant::new(t);
            let got_i = mc_core::catch(|| match name {
                "days" => inst.add_days(delta),
                "hours" => inst.add_hours(delta),
                "minutes" => inst.add_minutes(delta),
                _ => inst.add_seconds(delta),
            });
            match &got_i {
                Ok(g) if g.map(|i| i.seconds_since_unix_epoch) == exp_instant => {}
                other => {
                    col.add(format!("instant-add_{name}-wrong"), &lab(), || format!("Instant({t}).add_{name}({delta}) = {other:?}, exact arithmetic gives {exp_instant:?}"), case);
                }
            }
            let got = mc_core::catch(|| match name {
                "days" => dt.add_days(delta),
                "hours" => dt.add_hours(delta),
                "minutes" => dt.add_minutes(delta),
                _ => dt.add_seconds(delta),
            });
            match &got {
                Ok(g) if g.as_ref().map(Fields::of) == exp_dt => {
                    l.class(match (&exp_dt, exp_instant) {
                        (Some(_), _) => "arith:moved-as-timestamp",
                        (None, Some(_)) => "arith:none-outside-supported-range",
                        (None, None) => "arith:none-i64-overflow",
                    });
                }
                Ok(g) => {
                    let g = g.as_ref().map(|d| d.to_string());
                    col.add(format!("add_{name}-disagrees-with-timestamp-arithmetic"), &lab(), || format!("{dt}.add_{name}({delta}) = {g:?}, timestamp arithmetic gives {:?}", exp_dt.map(|f| f.iso())), case);
                }
                Err(p) => col.add(format!("add_{name}-panic"), &lab(), || format!("{dt}.add_{name}({delta}) panicked: {p}"), case),
            }
        }
    }
}

fn check_text_roundtrip(dt: &UtcDateTime, exp: &Fields, l: &mut Local, col: &Collector) {
    l.eval();
    let iso = exp.iso();
    let case = || json!({"kind": "print", "fields": exp.json()});
    let text = match mc_core::catch(|| dt.to_string()) {
        Ok(t) => t,
        Err(p) => {
            col.add("to_string-panic".into(), &iso, || format!("printing {} panicked: {p}", exp.json()), case);
            return;
        }
    };
    if text != iso {
        col.add("print-not-documented-iso8601".into(), &iso, || format!("{} prints as {text:?}, documented form is {iso:?}", exp.json()), case);
    }
    match mc_core::catch(|| UtcDateTime::from_str(&text)) {
        Ok(Ok(back)) if back == *dt => l.class("text:print-parse-identical"),
        Ok(Ok(back)) => col.add("text-roundtrip".into(), &iso, || format!("{text:?} parses back as {back}"), case),
        Ok(Err(e)) => col.add("text-roundtrip".into(), &iso, || format!("{text:?} (printed) is rejected: {e:?}"), case),
        Err(p) => col.add("text-roundtrip".into(), &iso, || format!("parsing printed {text:?} panicked: {p}"), case),
    }
}

struct YearRange {
    from: i64,
    to: i64, // inclusive
}

/// chunks of <= 100 years so that the work spreads over the workers
fn chunks(ranges: &[YearRange]) -> Vec<(i64, i64)> {
    let mut v = vec![];
    for r in ranges {
        let mut y = r.from;
        while y <= r.to {
            let e = (y + 99).min(r.to);
            v.push((y, e));
            y = e + 1;
        }
    }
    v
}

fn sweep_days(ctx: &Ctx, col: &Collector, ranges: &[YearRange], all_seconds_days: &[(i64, i64, i64)]) -> (u64, u64) {
    let ch = chunks(ranges);
    let days = std::sync::atomic::AtomicU64::new(0);
    let texts = std::sync::atomic::AtomicU64::new(0);
    par_for(ctx, &ch, |(y0, y1), l| {
        let mut day = days_from_civil(*y0, 1, 1);
        // monotonicity across the chunk edge: start from the last second before the chunk
        let mut prev: Option<(i64, UtcDateTime)> = None;
        let before = day * DAY - 1;
        if before >= MIN_TS {
            if let Ok(Ok(p)) = mc_core::catch(|| UtcDateTime::from_instant(&Instant::new(before))) {
                prev = Some((before, p));
            }
        }
        let mut nd = 0u64;
        let mut nt = 0u64;
        for y in *y0..=*y1 {
            for mo in 1..=12 {
                for d in 1..=days_in_month(y, mo) {
                    // the two references must agree on every enumerated day
                    if days_from_civil(y, mo, d) != day || civil_from_days(day) != (y, mo, d) {
                        mc_core::machinery_error(&format!("reference calendars disagree at {y}-{mo}-{d} / day {day}"));
                    }
                    nd += 1;
                    // one rotating second-of-day per day carries the arithmetic and text checks
                    let rot = (day.rem_euclid(86400) * 7919 + 13).rem_euclid(86400);
                    let mut sods: Vec<i64> = SODS.to_vec();
                    if !sods.contains(&rot) {
                        sods.push(rot);
                        sods.sort();
                    }
                    for sod in sods {
                        let t = day * DAY + sod;
                        let exp = Fields { y, mo, d, h: sod / 3600, mi: sod / 60 % 60, s: sod % 60 };
                        let dt = check_instant(t, &exp, &mut prev, l, col);
                        if sod == rot {
                            if let Some(dt) = dt {
                                check_arith(t, &dt, l, col);
                                if y <= 9999 {
                                    check_text_roundtrip(&dt, &exp, l, col);
                                    nt += 1;
                                } else if day % 50_000 == 0 {
                                    // five-digit years are outside the documented text form
                                    let s = dt.to_string();
                                    let back = mc_core::catch(|| UtcDateTime::from_str(&s).ok());
                                    l.info(if matches!(back, Ok(Some(b)) if b == dt) { "year>9999:text-roundtrips" } else { "year>9999:printed-text-not-parsed-back" });
                                }
                            }
                            if day % 100_003 == 0 {
                                l.sample(|| json!({"t": t, "calendar": exp.iso(), "from_instant": format!("{:?}", UtcDateTime::from_instant(&Instant::new(t)).map(|d| d.to_string()))}));
                            }
                        }
                    }
                    day += 1;
                }
            }
        }
        days.fetch_add(nd, std::sync::atomic::Ordering::Relaxed);
        texts.fetch_add(nt, std::sync::atomic::Ordering::Relaxed);
    });
    // every second of a few days: all (h, m, s) values through conversion and text
    par_for(ctx, all_seconds_days, |(y, mo, d), l| {
        let day = days_from_civil(*y, *mo, *d);
        let mut prev = None;
        for sod in 0..86400 {
            let t = day * DAY + sod;
            let exp = Fields { y: *y, mo: *mo, d: *d, h: sod / 3600, mi: sod / 60 % 60, s: sod % 60 };
            if let Some(dt) = check_instant(t, &exp, &mut prev, l, col) {
                if *y <= 9999 {
                    check_text_roundtrip(&dt, &exp, l, col);
                }
            }
        }
    });
    (days.into_inner(), texts.into_inner())
}

// ------------------------------------------------------------------------------------------------
// (b) new() grid, (c) range ends
// ------------------------------------------------------------------------------------------------

fn check_new_grid(ctx: &Ctx, col: &Collector, dense_years_to: i64) -> u64 {
    let years: Vec<u32> = vec![0, 1, 4, 100, 400, 1582, 1600, 1700, 1900, 1969, 1970, 1972, 2000, 2023, 2024, 2100, 2400, 9999, 10000, 4294967100, 4294967200, 4294967292, 4294967295];
    let hms: [(u8, u8, u8); 8] = [(0, 0, 0), (23, 59, 59), (24, 0, 0), (0, 60, 0), (0, 0, 60), (255, 0, 0), (0, 255, 0), (0, 0, 255)];
    let mut months: Vec<u8> = (0..=13).collect();
    months.push(255);
    let mut dom: Vec<u8> = (0..=32).collect();
    dom.push(255);
    let n = std::sync::atomic::AtomicU64::new(0);
    let one = |y: u32, mo: u8, d: u8, h: u8, mi: u8, s: u8, l: &mut Local| {
        l.eval();
        let f = Fields { y: y as i64, mo: mo as i64, d: d as i64, h: h as i64, mi: mi as i64, s: s as i64 };
        let lab = format!("{:010}{:03}{:03}{:03}{:03}{:03}", y, mo, d, h, mi, s);
        let case = || json!({"kind": "new", "fields": f.json()});
        match mc_core::catch(|| UtcDateTime::new(y, mo, d, h, mi, s)) {
            Ok(Ok(dt)) => {
                if !f.valid() {
                    col.add("new-accepts-invalid-date".into(), &lab, || format!("new{} = Ok({dt}) but it is not a civil date-time", f.json()), case);
                } else if Fields::of(&dt) != f {
                    col.add("new-getters-disagree".into(), &lab, || format!("new{} stores {}", f.json(), Fields::of(&dt).json()), case);
                } else {
                    l.class("new:accepted-valid");
                    n.fetch_add(1, std::sync::atomic::Ordering::Relaxed);
                }
            }
            Ok(Err(e)) => {
                if f.valid() {
                    col.add("new-rejects-valid-date".into(), &lab, || format!("new{} = Err({e:?})", f.json()), case);
                } else {
                    l.class("new:rejected-invalid");
                }
            }
            Err(p) => col.add("new-panic".into(), &lab, || format!("new{} panicked: {p}", f.json()), case),
        }
    };
    par_for(ctx, &years, |y, l| {
        for mo in &months {
            for d in &dom {
                for (h, mi, s) in hms {
                    one(*y, *mo, *d, h, mi, s, l);
                }
            }
        }
    });
    // every year of the dense range: all months x the day numbers around every month end
    let ys: Vec<u32> = (1..=dense_years_to as u32).collect();
    par_for(ctx, &ys, |y, l| {
        for mo in 1..=12u8 {
            for d in [0u8, 1, 28, 29, 30, 31, 32] {
                one(*y, mo, d, 12, 0, 0, l);
            }
        }
    });
    n.into_inner()
}

fn check_range_ends(ctx: &Ctx, col: &Collector) {
    let mut l = Local::new();
    for t in [MIN_TS - 1, MAX_TS + 1, MIN_TS - DAY, MAX_TS + DAY, i64::MIN, i64::MIN + 1, i64::MAX, i64::MAX - 1, MIN_TS - 86400 * 366, -(1i64 << 62), 1i64 << 62] {
        l.eval();
        let case = || json!({"kind": "out-of-range-instant", "t": t});
        match mc_core::catch(|| UtcDateTime::from_instant(&Instant::new(t))) {
            Ok(Err(_)) => l.class("instant:out-of-range-rejected"),
            Ok(Ok(dt)) => col.add("from_instant-accepts-out-of-range".into(), &ts_label(t), || format!("from_instant({t}) = Ok({dt})"), case),
            Err(p) => col.add("from_instant-panic".into(), &ts_label(t), || format!("from_instant({t}) panicked: {p}"), case),
        }
    }
    // the ends themselves (anchors of the whole reference: written in the type's documentation)
    let mut prev = None;
    check_instant(MIN_TS, &Fields { y: 1, mo: 1, d: 1, h: 0, mi: 0, s: 0 }, &mut prev, &mut l, col);
    let mut prev = None;
    check_instant(MAX_TS, &Fields { y: u32::MAX as i64, mo: 12, d: 31, h: 23, mi: 59, s: 59 }, &mut prev, &mut l, col);
    let mut prev = None;
    check_instant(0, &Fields { y: 1970, mo: 1, d: 1, h: 0, mi: 0, s: 0 }, &mut prev, &mut l, col);
    ctx.merge(l);
}

// ------------------------------------------------------------------------------------------------
// (e) parsing arbitrary text
// ------------------------------------------------------------------------------------------------

/// `DDDD-DD-DDTDD:DD:DDZ`, ASCII digits only: the documented form. Returns the written fields.
fn strict_form(s: &str) -> Option<Fields> {
    let b = s.as_bytes();
    if b.len() != 20 {
        return None;
    }
    let num = |r: std::ops::Range<usize>| -> Option<i64> {
        let mut v = 0i64;
        for c in &b[r] {
            if !c.is_ascii_digit() {
                return None;
            }
            v = v * 10 + (*c - b'0') as i64;
        }
        Some(v)
    };
    if b[4] != b'-' || b[7] != b'-' || b[10] != b'T' || b[13] != b':' || b[16] != b':' || b[19] != b'Z' {
        return None;
    }
    Some(Fields { y: num(0..4)?, mo: num(5..7)?, d: num(8..10)?, h: num(11..13)?, mi: num(14..16)?, s: num(17..19)? })
}

fn check_parse(s: &str, family: &str, l: &mut Local, col: &Collector) {
    l.eval();
    let case = || json!({"kind": "parse", "input": s, "family": family});
    let got = mc_core::catch(|| UtcDateTime::from_str(s));
    let strict = strict_form(s);
    match got {
        Err(p) => {
            let key = if s.is_ascii() { "from_str-panic" } else { "from_str-panic-non-ascii" };
            // prefer a reproducer without control characters
            let lab = format!("{}{s}", s.chars().filter(|c| c.is_control()).count());
            col.add(key.into(), &lab, || format!("UtcDateTime::from_str({s:?}) panicked: {p}"), case);
        }
        Ok(Ok(dt)) => {
            let f = Fields::of(&dt);
            if !f.valid() {
                col.add("from_str-yields-invalid-date-time".into(), s, || format!("from_str({s:?}) = {}", f.json()), case);
                return;
            }
            match strict {
                Some(w) if w == f => l.class("parse:accepted-documented-form"),
                Some(w) => col.add("from_str-wrong-fields".into(), s, || format!("from_str({s:?}) = {} but the text says {}", f.json(), w.json()), case),
                None => {
                    // outside the documented form; the statement does not say such text must be refused
                    l.class("parse:accepted-outside-documented-form");
                    l.info(if s.contains('+') { "from_str:accepted-sign-in-a-field" } else { "from_str:accepted-other-undocumented-form" });
                }
            }
        }
        Ok(Err(_)) => match strict {
            Some(w) if w.valid() => col.add("from_str-rejects-documented-form".into(), s, || format!("from_str({s:?}) is an error but it is the documented text of {}", w.json()), case),
            Some(_) => l.class("parse:rejected-not-a-civil-date-time"),
            None => l.class("parse:rejected-not-documented-form"),
        },
    }
}

fn parse_inputs(thorough: bool) -> Vec<(String, &'static str)> {
    let mut out: Vec<(String, &'static str)> = vec![];
    let bases = ["2023-01-27T12:17:25Z", "0001-01-01T00:00:00Z", "9999-12-31T23:59:59Z", "2024-02-29T00:00:59Z"];
    let subs: Vec<char> = vec!['0', '1', '3', '9', '-', ':', 'T', 'Z', '+', ' ', 'é', '😀', '\0', '１', 't', 'z', '.', '/'];
    for b in bases {
        let chars: Vec<char> = b.chars().collect();
        // single substitution / deletion / duplication / insertion / truncation / append
        for i in 0..chars.len() {
            for c in &subs {
                let mut v = chars.clone();
                v[i] = *c;
                out.push((v.iter().collect(), "single-substitution"));
                let mut v = chars.clone();
                v.insert(i, *c);
                out.push((v.iter().collect(), "single-insertion"));
            }
            let mut v = chars.clone();
            v.remove(i);
            out.push((v.iter().collect(), "deletion"));
            let mut v = chars.clone();
            v.insert(i, chars[i]);
            out.push((v.iter().collect(), "duplication"));
            out.push((chars[..i].iter().collect(), "truncation"));
        }
        for c in &subs {
            out.push((format!("{b}{c}"), "append"));
        }
        // double substitution over a smaller alphabet (all position pairs)
        let small: Vec<char> = if thorough { subs.clone() } else { vec!['0', '9', '+', '-', ' ', 'é', '😀', '\0'] };
        for i in 0..chars.len() {
            for j in (i + 1)..chars.len() {
                for a in &small {
                    for c in &small {
                        let mut v = chars.clone();
                        v[i] = *a;
                        v[j] = *c;
                        out.push((v.iter().collect(), "double-substitution"));
                    }
                }
            }
        }
    }
    // per-field contents: every string of the field's width over a small alphabet, other fields valid
    let fa: Vec<char> = vec!['0', '1', '2', '3', '5', '6', '9', '+', '-', ' ', 'é', 'a'];
    let mut two: Vec<String> = vec![];
    for a in &fa {
        for b in &fa {
            two.push([*a, *b].iter().collect());
        }
    }
    let mut four: Vec<String> = vec![];
    for a in &two {
        for b in &two {
            four.push(format!("{a}{b}"));
        }
    }
    for y in &four {
        out.push((format!("{y}-02-28T12:00:00Z"), "year-field"));
        out.push((format!("{y}-02-29T12:00:00Z"), "year-field"));
    }
    for f in &two {
        out.push((format!("2023-01-27T{f}:17:25Z"), "hour-field"));
        out.push((format!("2023-01-27T12:{f}:25Z"), "minute-field"));
        out.push((format!("2023-01-27T12:17:{f}Z"), "second-field"));
    }
    for y in ["2023", "2024", "1900", "2000", "0000", "0001"] {
        for m in &two {
            for d in &two {
                out.push((format!("{y}-{m}-{d}T00:00:00Z"), "month-and-day-fields"));
            }
        }
    }
    // some fixed odd ones
    for s in ["", "Z", "2023-01-27T12:17:25", "2023-01-27 12:17:25Z", "2023-01-27T12:17:25+00:00", "12345-01-27T12:17:25Z", "+123-01-27T12:17:25Z", "2023-+1-27T12:17:25Z", "012é-01-27T12:17:25Z", "2023-01-27T12:17:2éZ", "２０２３-01-27T12:17:25Z", "😀😀😀😀😀😀😀😀😀😀😀😀😀😀😀😀😀😀😀😀"] {
        out.push((s.to_string(), "fixed"));
    }
    out.sort();
    out.dedup_by(|a, b| a.0 == b.0);
    out
}

// ------------------------------------------------------------------------------------------------

fn replay(ctx: Ctx) -> ! {
    let case = ctx.read_replay_case().unwrap_or_else(|| mc_core::machinery_error("no replay case"));
    let col = Collector::default();
    let mut l = Local::new();
    let kind = case.get("kind").and_then(|k| k.as_str()).unwrap_or("");
    let fields = |v: &Value| -> Fields {
        let a: Vec<i64> = v.as_array().map(|a| a.iter().map(|x| x.as_i64().unwrap_or(0)).collect()).unwrap_or_default();
        if a.len() != 6 {
            mc_core::machinery_error("replay: fields must have 6 numbers");
        }
        Fields { y: a[0], mo: a[1], d: a[2], h: a[3], mi: a[4], s: a[5] }
    };
    match kind {
        "parse" => {
            let s = case.get("input").and_then(|s| s.as_str()).unwrap_or_else(|| mc_core::machinery_error("replay: no input"));
            println!("input    : {s:?}");
            println!("from_str : {:?}", mc_core::catch(|| UtcDateTime::from_str(s).map(|d| d.to_string())));
            check_parse(s, "replay", &mut l, &col);
        }
        "instant" | "out-of-range-instant" | "arith" => {
            let t = case.get("t").and_then(|t| t.as_i64()).unwrap_or_else(|| mc_core::machinery_error("replay: no t"));
            println!("t            : {t}");
            println!("from_instant : {:?}", mc_core::catch(|| UtcDateTime::from_instant(&Instant::new(t)).map(|d| d.to_string())));
            if (MIN_TS..=MAX_TS).contains(&t) {
                let exp = fields_of_ts(t);
                println!("calendar     : {}", exp.iso());
                let mut prev = None;
                if let Some(dt) = check_instant(t, &exp, &mut prev, &mut l, &col) {
                    if kind == "arith" {
                        check_arith(t, &dt, &mut l, &col);
                    }
                }
            } else {
                check_range_ends(&ctx, &col);
            }
        }
        "new" | "print" => {
            let f = fields(case.get("fields").unwrap_or(&Value::Null));
            println!("fields : {}", f.json());
            println!("new    : {:?}", mc_core::catch(|| new_dt(&f).map(|d| d.to_string())));
            if f.valid() {
                if let Ok(dt) = new_dt(&f) {
                    check_text_roundtrip(&dt, &f, &mut l, &col);
                    let mut prev = None;
                    let t = days_from_civil(f.y, f.mo, f.d) * DAY + f.h * 3600 + f.mi * 60 + f.s;
                    check_instant(t, &f, &mut prev, &mut l, &col);
                } else {
                    col.add("new-rejects-valid-date".into(), "", || format!("new{} is an error", f.json()), || case.clone());
                }
            } else if new_dt(&f).is_ok() {
                col.add("new-accepts-invalid-date".into(), "", || format!("new{} is accepted", f.json()), || case.clone());
            }
        }
        _ => mc_core::machinery_error("replay: unknown case kind"),
    }
    ctx.merge(l);
    col.flush(&ctx);
    ctx.finish(Level::Exploration, "replay of one case", 1, true, Map::new(), &[])
}

pub fn run(ctx: Ctx) -> ! {
    if ctx.replay.is_some() {
        replay(ctx);
    }
    // anchors of the reference (hand-checked constants; machinery error, never a verdict)
    if days_from_civil(1970, 1, 1) != 0
        || days_from_civil(1, 1, 1) * DAY != MIN_TS
        || days_from_civil(u32::MAX as i64, 12, 31) * DAY + 86399 != MAX_TS
        || days_from_civil(2000, 3, 1) != 11017
        || civil_from_days(19384) != (2023, 1, 27)
        || fields_of_ts(1674821845).iso() != "2023-01-27T12:17:25Z"
        || fields_of_ts(-1).iso() != "1969-12-31T23:59:59Z"
    {
        mc_core::machinery_error("reference calendar anchors failed");
    }
    let col = Collector::default();
    let dense_to: i64 = ctx.pick(4400, 200_000);
    let ranges = vec![
        YearRange { from: 1, to: dense_to },
        YearRange { from: 999_800, to: 1_000_199 },
        YearRange { from: (1i64 << 31) - 200, to: (1i64 << 31) + 199 },
        YearRange { from: u32::MAX as i64 - 399, to: u32::MAX as i64 },
    ];
    let mut all_seconds: Vec<(i64, i64, i64)> = vec![(1, 1, 1), (1969, 12, 31), (1970, 1, 1), (2000, 2, 29), (9999, 12, 31), (u32::MAX as i64, 12, 31)];
    if !ctx.quick() {
        all_seconds.extend([(1, 12, 31), (4, 2, 29), (100, 2, 28), (400, 2, 29), (1600, 3, 1), (1900, 2, 28), (1968, 2, 29), (2023, 1, 27), (2024, 2, 29), (2100, 3, 1), (10000, 1, 1), (1 << 31, 6, 15)]);
    }
    let (days, _texts) = sweep_days(&ctx, &col, &ranges, &all_seconds);
    let new_accepted = check_new_grid(&ctx, &col, dense_to.min(40_000));
    check_range_ends(&ctx, &col);
    let inputs = parse_inputs(!ctx.quick());
    par_for(&ctx, &inputs, |(s, fam), l| {
        check_parse(s, fam, l, &col);
    });
    let mut l = Local::new();
    for (i, (s, _)) in inputs.iter().enumerate() {
        if i % (inputs.len() / 5 + 1) == 3 {
            l.sample(|| json!({"input": s, "from_str": format!("{:?}", mc_core::catch(|| UtcDateTime::from_str(s).map(|d| d.to_string())))}));
        }
    }
    ctx.merge(l);
    col.flush(&ctx);

    let classes = ctx.classes();
    let c = |k: &str| classes.get(k).copied().unwrap_or(0);
    // measured: distinct in-range instants converted as the calendar says + distinct valid field tuples accepted
    // by new() on the grid + distinct texts accepted in the documented form
    let nontrivial = c("instant:converted-as-calendar") + new_accepted + c("parse:accepted-documented-form") + c("text:print-parse-identical");
    let mut cov = Map::new();
    cov.insert("days_enumerated".into(), json!(days));
    cov.insert("year_ranges".into(), json!(ranges.iter().map(|r| json!([r.from, r.to])).collect::<Vec<_>>()));
    cov.insert("seconds_of_day_per_day".into(), json!("0,1,59,60,3599,3600,43200,86399 + one rotating second"));
    cov.insert("days_with_all_86400_seconds".into(), json!(all_seconds.len()));
    cov.insert("date_times_printed_and_parsed_year_le_9999".into(), json!(c("text:print-parse-identical")));
    cov.insert("parse_inputs".into(), json!(inputs.len()));
    cov.insert("arithmetic_cases".into(), json!(c("arith:moved-as-timestamp") + c("arith:none-outside-supported-range") + c("arith:none-i64-overflow")));
    let rule = format!(
        "every day of years 1..={dense_to} and of three far 400-year cycles (year 10^6, 2^31, last cycle ending 4294967295) x 9 seconds-of-day; {} days at all 86400 seconds; new() on 23 years x months 0..=13,255 x days 0..=32,255 x 8 (h,m,s) and every year 1..={} x 12 months x 7 day numbers; arithmetic: one date-time per enumerated day x 4 units x ~20 deltas; text: every enumerated date-time with year<=9999 printed+parsed, {} mutated/field-enumerated input strings. A case is one instant, one field tuple, one (date-time, unit, delta) or one string; non-trivial = in-range instants converted + valid tuples accepted + texts accepted",
        all_seconds.len(),
        dense_to.min(40_000),
        inputs.len()
    );
    ctx.finish(
        Level::Exploration,
        &rule,
        nontrivial,
        true,
        cov,
        &[
            "proleptic Gregorian calendar without leap seconds, as documented on UtcDateTime",
            "years between the dense range and the far cycles are not enumerated (the conversion is 400-year periodic; three far cycles probe the wide-year arithmetic)",
            "text accepted outside the documented form (a '+' inside a field) is informational: the statement only demands print/parse inversion and absence of panics",
            "which error variant is returned is not part of the property",
        ],
    )
}
