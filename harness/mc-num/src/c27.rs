//! C27 — decimal text parsing and printing are exact inverses.
//!
//! Bounded-exhaustive input enumeration for `Decimal` (192 bit, scale 18) and `PreciseDecimal`
//! (256 bit, scale 36):
//!  (1) every value of the boundary lattice L(T): the printed text, read by the *reference* numeral
//!      reader below, denotes exactly the value, and `from_str(to_string(v)) == v`;
//!  (2) every string of length <= N over {0,1,9,-,+,.,' ',e,a,_}, a family of boundary numerals around
//!      the integer-digit / fraction-digit / range limits, every single-point mutation and every <=3-char
//!      insertion of {-,+,.} into valid numerals (incl. non-ASCII and NUL): `from_str` accepts exactly the
//!      strings of the reference grammar and yields their exact value; every accepted value is printed and
//!      read back as well.
//!
//! Reference grammar (the statement's "optionally-signed decimal numerals with at most the type's number
//! of fractional digits that fit in range"):   '-'? [0-9]+ ( '.' [0-9]{1,scale} )?   with the exact value
//! in [MIN, MAX]. Statement-silent forms are *informational* only (never a violation whichever way the
//! code decides; if the code accepts one, the value must still be the exact one):
//!   leading '+'  ("+5"),  empty fraction ("1."),  empty integer part (".5").
//! Leading zeros, "-0" and trailing zeros in the fraction are ordinary numerals (must be accepted).
//!
//! The reference is independent of the code under test: hand-written byte scanner + num-bigint; values
//! cross the boundary as raw 64-bit limbs (`from_digits` / `to_digits`), not through any parser.
use mc_core::{par_for, par_range, Ctx, Level, Local};
use num_bigint::BigInt;
use num_traits::{One, Signed, Zero};
use radix_common::math::{Decimal, PreciseDecimal, I192, I256};
use serde_json::{json, Map, Value};
use std::collections::BTreeMap;
use std::str::FromStr;
use std::sync::Mutex;

// ------------------------------------------------------------------------------------------------
// the two subjects behind one small interface
// ------------------------------------------------------------------------------------------------

trait Fx: Copy + PartialEq + Send + Sync {
    const NAME: &'static str;
    const SCALE: usize;
    const BITS: u32;
    fn from_raw(x: &BigInt) -> Option<Self>;
    fn raw(&self) -> BigInt;
    /// Err carries the Debug text of the parse error.
    fn parse(s: &str) -> Result<Self, String>;
    fn print(&self) -> String;
}

fn to_limbs<const N: usize>(x: &BigInt) -> Option<[u64; N]> {
    let bits = 64 * N;
    let half: BigInt = BigInt::one() << (bits - 1);
    if x < &-half.clone() || x >= &half {
        return None;
    }
    let m: BigInt = if x.is_negative() { x + (BigInt::one() << bits) } else { x.clone() };
    let (_, digits) = m.to_u64_digits();
    let mut out = [0u64; N];
    for (i, d) in digits.iter().enumerate() {
        out[i] = *d;
    }
    Some(out)
}

fn from_limbs<const N: usize>(d: [u64; N]) -> BigInt {
    let mut acc = BigInt::zero();
    for i in (0..N).rev() {
        acc = (acc << 64) + BigInt::from(d[i]);
    }
    if d[N - 1] >> 63 == 1 {
        acc -= BigInt::one() << (64 * N);
    }
    acc
}

impl Fx for Decimal {
    const NAME: &'static str = "Decimal";
    const SCALE: usize = 18;
    const BITS: u32 = 192;
    fn from_raw(x: &BigInt) -> Option<Self> {
        to_limbs::<3>(x).map(|l| Decimal::from_attos(I192::from_digits(l)))
    }
    fn raw(&self) -> BigInt {
        from_limbs::<3>(self.attos().to_digits())
    }
    fn parse(s: &str) -> Result<Self, String> {
        Decimal::from_str(s).map_err(|e| format!("{e:?}"))
    }
    fn print(&self) -> String {
        self.to_string()
    }
}

impl Fx for PreciseDecimal {
    const NAME: &'static str = "PreciseDecimal";
    const SCALE: usize = 36;
    const BITS: u32 = 256;
    fn from_raw(x: &BigInt) -> Option<Self> {
        to_limbs::<4>(x).map(|l| PreciseDecimal::from_precise_subunits(I256::from_digits(l)))
    }
    fn raw(&self) -> BigInt {
        from_limbs::<4>(self.precise_subunits().to_digits())
    }
    fn parse(s: &str) -> Result<Self, String> {
        PreciseDecimal::from_str(s).map_err(|e| format!("{e:?}"))
    }
    fn print(&self) -> String {
        self.to_string()
    }
}

fn pow10(k: usize) -> BigInt {
    let mut p = BigInt::one();
    for _ in 0..k {
        p *= 10u32;
    }
    p
}

fn max_raw(bits: u32) -> BigInt {
    (BigInt::one() << (bits - 1)) - 1u32
}

// ------------------------------------------------------------------------------------------------
// reference numeral reader / printer
// ------------------------------------------------------------------------------------------------

#[derive(Debug, Clone, PartialEq)]
enum Ref {
    /// a numeral of the grammar, with its exact raw (sub-unit) value
    Accept(BigInt),
    /// not a numeral under any reading of the statement
    Reject(&'static str),
    /// statement-silent form; the value it would denote if taken as a numeral
    Silent(&'static str, BigInt),
}

fn digits_value(d: &[u8]) -> BigInt {
    // d are ASCII digits (possibly empty => 0)
    let mut acc = BigInt::zero();
    // chunks of 18 digits through u64 to stay cheap on long inputs
    for chunk in d.chunks(18) {
        let mut c = 0u64;
        for b in chunk {
            c = c * 10 + (*b - b'0') as u64;
        }
        acc = acc * pow10_u64(chunk.len()) + c;
    }
    acc
}

fn pow10_u64(k: usize) -> u64 {
    10u64.pow(k as u32)
}

fn reference_read(s: &str, scale: usize, bits: u32) -> Ref {
    let b = s.as_bytes();
    if !s.is_ascii() {
        return Ref::Reject("non-ascii");
    }
    let mut i = 0;
    let mut negative = false;
    let mut plus = false;
    if i < b.len() && (b[i] == b'-' || b[i] == b'+') {
        negative = b[i] == b'-';
        plus = b[i] == b'+';
        i += 1;
    }
    let int_start = i;
    while i < b.len() && b[i].is_ascii_digit() {
        i += 1;
    }
    let int = &b[int_start..i];
    let mut has_point = false;
    let mut frac: &[u8] = &[];
    if i < b.len() && b[i] == b'.' {
        has_point = true;
        i += 1;
        let fs = i;
        while i < b.len() && b[i].is_ascii_digit() {
            i += 1;
        }
        frac = &b[fs..i];
    }
    if i != b.len() {
        return Ref::Reject("malformed");
    }
    if int.is_empty() && frac.is_empty() {
        return Ref::Reject("no-digits");
    }
    if frac.len() > scale {
        return Ref::Reject("too-many-fraction-digits");
    }
    let mut v = digits_value(int) * pow10(scale) + digits_value(frac) * pow10(scale - frac.len());
    if negative {
        v = -v;
    }
    let max = max_raw(bits);
    let min: BigInt = -max.clone() - 1u32;
    if v > max || v < min {
        return Ref::Reject("out-of-range");
    }
    if int.is_empty() {
        return Ref::Silent("empty-integer-part", v);
    }
    if has_point && frac.is_empty() {
        return Ref::Silent("empty-fraction", v);
    }
    if plus {
        return Ref::Silent("leading-plus", v);
    }
    Ref::Accept(v)
}

/// canonical text of a raw value: '-'? digits ('.' digits-without-trailing-zeros)?
fn reference_print(raw: &BigInt, scale: usize) -> String {
    let a = raw.abs();
    let p = pow10(scale);
    let q = &a / &p;
    let r = &a % &p;
    let mut s = String::new();
    if raw.is_negative() {
        s.push('-');
    }
    s.push_str(&q.to_string());
    if !r.is_zero() {
        let f = format!("{:0>width$}", r.to_string(), width = scale);
        s.push('.');
        s.push_str(f.trim_end_matches('0'));
    }
    s
}

/// `sign? digits '.' sign digits` — the shape of observation O2
fn is_signed_fraction(s: &str) -> bool {
    let Some((a, f)) = s.split_once('.') else { return false };
    let a = a.strip_prefix(['-', '+']).unwrap_or(a);
    let Some(f) = f.strip_prefix(['-', '+']) else { return false };
    !a.is_empty() && a.bytes().all(|c| c.is_ascii_digit()) && !f.is_empty() && f.bytes().all(|c| c.is_ascii_digit())
}

// ------------------------------------------------------------------------------------------------
// deterministic violation collector: keeps, per key, the count and the smallest failing input
// ------------------------------------------------------------------------------------------------

pub(crate) struct Found {
    count: u64,
    input: String,
    what: String,
    case: Value,
}

#[derive(Default)]
pub(crate) struct Collector {
    m: Mutex<BTreeMap<String, Found>>,
}

impl Collector {
    pub(crate) fn add(&self, key: String, input: &str, what: impl FnOnce() -> String, case: impl FnOnce() -> Value) {
        let mut g = self.m.lock().unwrap();
        match g.get_mut(&key) {
            Some(f) => {
                f.count += 1;
                if (input.len(), input) < (f.input.len(), f.input.as_str()) {
                    f.input = input.to_string();
                    f.what = what();
                    f.case = case();
                }
            }
            None => {
                g.insert(key, Found { count: 1, input: input.to_string(), what: what(), case: case() });
            }
        }
    }
    /// number of failing inputs seen (all keys)
    pub(crate) fn total(&self) -> u64 {
        self.m.lock().unwrap().values().map(|f| f.count).sum()
    }
    pub(crate) fn flush(&self, ctx: &Ctx) {
        let g = self.m.lock().unwrap();
        for (k, f) in g.iter() {
            ctx.violation(k.clone(), format!("{} [{} failing inputs in this run; smallest shown]", f.what, f.count), f.case.clone());
        }
    }
}

fn show(s: &str) -> String {
    format!("{s:?}")
}

// ------------------------------------------------------------------------------------------------
// the checks
// ------------------------------------------------------------------------------------------------

/// One input string against the reference. `family` only labels classes/samples.
fn check_string<T: Fx>(s: &str, family: &str, l: &mut Local, col: &Collector) {
    l.eval();
    let expected = reference_read(s, T::SCALE, T::BITS);
    let got = mc_core::catch(|| T::parse(s));
    let case = || json!({"type": T::NAME, "input": s, "family": family});
    match (&expected, &got) {
        (Ref::Accept(v), Ok(Ok(x))) => {
            let r = x.raw();
            if &r != v {
                col.add(format!("wrong-value:{}", T::NAME), s, || format!("{}::from_str({}) = raw {} but the numeral denotes raw {}", T::NAME, show(s), r, v), case);
            } else {
                l.class("parse:accepted-exact");
                check_value_roundtrip::<T>(x, "from-accepted-string", l, col);
            }
        }
        (Ref::Accept(v), Ok(Err(e))) => {
            col.add(format!("rejects-valid-numeral:{}", T::NAME), s, || format!("{}::from_str({}) = Err({e}) but it is a numeral of the grammar with in-range value raw {}", T::NAME, show(s), v), case);
        }
        (Ref::Accept(_), Err(p)) => {
            col.add(format!("panics-on-valid-numeral:{}", T::NAME), s, || format!("{}::from_str({}) panicked: {p}", T::NAME, show(s)), case);
        }
        (Ref::Reject(why), Ok(Ok(x))) => {
            let key = if is_signed_fraction(s) { "accepts-signed-fraction".to_string() } else { format!("accepts-{why}") };
            col.add(format!("{key}:{}", T::NAME), s, || format!("{}::from_str({}) = Ok({}) but the text is not a decimal numeral ({why})", T::NAME, show(s), x.print()), case);
        }
        (Ref::Reject(why), Ok(Err(_))) => {
            l.class(&format!("parse:rejected:{why}"));
        }
        (Ref::Reject(_), Err(_)) => {
            // the statement does not promise "no panic" here; not accepting is all it demands
            l.class("parse:rejected:by-panic");
            l.info(&format!("{}:from_str-panicked-on-a-non-numeral", T::NAME));
        }
        (Ref::Silent(form, v), Ok(Ok(x))) => {
            let r = x.raw();
            if &r != v {
                col.add(format!("wrong-value:{}", T::NAME), s, || format!("{}::from_str({}) = raw {} but read as a numeral it denotes raw {}", T::NAME, show(s), r, v), case);
            } else {
                l.class("parse:silent-form-accepted-exact");
                l.info(&format!("{}:{form}:accepted", T::NAME));
            }
        }
        (Ref::Silent(form, _), _) => {
            l.class("parse:silent-form-rejected");
            l.info(&format!("{}:{form}:rejected", T::NAME));
        }
    }
}

/// print -> (reference reader: exact value) and print -> parse == value
fn check_value_roundtrip<T: Fx>(x: &T, family: &str, l: &mut Local, col: &Collector) {
    let raw = x.raw();
    let canon = reference_print(&raw, T::SCALE);
    let case = || json!({"type": T::NAME, "raw": raw.to_string(), "family": family});
    let text = match mc_core::catch(|| x.print()) {
        Ok(t) => t,
        Err(p) => {
            col.add(format!("print-panics:{}", T::NAME), &canon, || format!("{}(raw {raw}).to_string() panicked: {p}", T::NAME), case);
            return;
        }
    };
    match reference_read(&text, T::SCALE, T::BITS) {
        Ref::Accept(v) if v == raw => {}
        other => {
            col.add(format!("print-not-exact:{}", T::NAME), &canon, || format!("{}(raw {raw}) prints as {} which the reference reads as {other:?}", T::NAME, show(&text)), case);
            return;
        }
    }
    if text != canon {
        // exact but not the shortest form (e.g. trailing zeros): the statement does not forbid it
        l.info(&format!("{}:printed-text-not-canonical", T::NAME));
    }
    match mc_core::catch(|| T::parse(&text)) {
        Ok(Ok(back)) if back == *x => {
            l.class("roundtrip:print-parse-identical");
        }
        other => {
            let o = match other {
                Ok(Ok(b)) => format!("Ok(raw {})", b.raw()),
                Ok(Err(e)) => format!("Err({e})"),
                Err(p) => format!("panic: {p}"),
            };
            col.add(format!("roundtrip:{}", T::NAME), &canon, || format!("{}(raw {raw}) prints as {} and parses back as {o}", T::NAME, show(&text)), case);
        }
    }
}

fn lattice<T: Fx>() -> Vec<BigInt> {
    let max = max_raw(T::BITS);
    let min: BigInt = -max.clone() - 1u32;
    let mut v: Vec<BigInt> = vec![];
    let mut pm = |x: BigInt| {
        v.push(-x.clone());
        v.push(x);
    };
    for i in 0i32..=2000 {
        pm(BigInt::from(i));
    }
    let ndig = max.to_string().len();
    for k in 0..=ndig {
        let p = pow10(k);
        for d in -1i32..=1 {
            pm(&p + d);
        }
        pm(&p * 5u32);
        pm(&p / 3u32);
        pm(&p / 7u32);
        // shapes with zeros inside / at the end of the fraction and of the integer part
        for m in [12u32, 101, 120, 909, 1001] {
            pm(&p * m);
        }
    }
    for k in 0..T::BITS {
        let p: BigInt = BigInt::one() << k;
        for d in -1i32..=1 {
            pm(&p + d);
        }
    }
    let one = pow10(T::SCALE);
    let r = (&max * &one).sqrt();
    let t = (&max / &one) * &one;
    for d in -1i32..=1 {
        pm(&r + d);
        pm(&t + d);
    }
    for d in 0u32..=2 {
        v.push(&min + d);
        v.push(&max - d);
    }
    v.retain(|x| x >= &min && x <= &max);
    v.sort();
    v.dedup();
    v
}

/// numerals around the integer-digit limit, the fraction-digit limit and the range limit
fn boundary_numerals<T: Fx>() -> Vec<String> {
    let max = max_raw(T::BITS);
    let one = pow10(T::SCALE);
    let max_int = &max / &one;
    let max_frac = &max % &one; // |MIN| has fraction max_frac + 1
    let nd = max_int.to_string().len();
    let ints: Vec<String> = vec![
        "0".into(),
        "00".into(),
        "1".into(),
        (&max_int - 1u32).to_string(),
        max_int.to_string(),
        (&max_int + 1u32).to_string(),
        format!("000{}", max_int),
        "9".repeat(nd),
        format!("1{}", "0".repeat(nd)),
        max.to_string(),                 // fits the raw integer type, overflows when scaled
        (&max + 1u32).to_string(),          // does not fit the raw integer type
        (&max + 2u32).to_string(),
        "9".repeat(100),
    ];
    let mut fracs: Vec<String> = vec![];
    for len in [1usize, T::SCALE - 1, T::SCALE, T::SCALE + 1, T::SCALE + 2] {
        fracs.push("0".repeat(len));
        fracs.push("9".repeat(len));
        fracs.push(format!("{}1", "0".repeat(len - 1)));
        fracs.push(format!("1{}", "0".repeat(len - 1)));
        for d in -1i32..=2 {
            // the exact MAX fraction (+d in the last place), cut or zero-extended to `len` digits
            let f = format!("{:0>width$}", (&max_frac + d).to_string(), width = T::SCALE);
            let mut f: String = f.chars().take(len).collect();
            while f.len() < len {
                f.push('0');
            }
            fracs.push(f);
        }
    }
    fracs.sort();
    fracs.dedup();
    let mut out = vec![];
    for sign in ["", "-", "+"] {
        for i in &ints {
            out.push(format!("{sign}{i}"));
            out.push(format!("{sign}{i}."));
            for f in &fracs {
                out.push(format!("{sign}{i}.{f}"));
                // O2 shape at full width: a sign where the first fraction digit should be
                if f.len() >= 2 {
                    out.push(format!("{sign}{i}.-{}", &f[1..]));
                    out.push(format!("{sign}{i}.+{}", &f[1..]));
                }
            }
        }
        for f in &fracs {
            out.push(format!("{sign}.{f}"));
        }
    }
    out.sort();
    out.dedup();
    out
}

/// single-point mutations and short insertions applied to valid numerals
fn mutated_numerals<T: Fx>() -> Vec<String> {
    let full = format!("-9.{}1", "0".repeat(T::SCALE - 1));
    let max_text = reference_print(&max_raw(T::BITS), T::SCALE);
    let min_text = reference_print(&(-max_raw(T::BITS) - 1u32), T::SCALE);
    let bases: Vec<String> = vec!["0".into(), "1.5".into(), "-0.05".into(), "123.456".into(), "+7.25".into(), full, max_text, min_text];
    let alphabet: Vec<u8> = b"0159-+. eE_,x\0\t\n".to_vec();
    let mut out: Vec<String> = vec![];
    for b in &bases {
        mc_core::gen::mutations(b.as_bytes(), &alphabet, |m| out.push(String::from_utf8(m.to_vec()).expect("ascii")));
        // non-ASCII: full-width digit one, Arabic-Indic digit five, e-acute, an emoji — substituted and inserted
        let chars: Vec<char> = b.chars().collect();
        for na in ['１', '٥', 'é', '😀', '−'] {
            for i in 0..=chars.len() {
                let mut ins = chars.clone();
                ins.insert(i, na);
                out.push(ins.into_iter().collect());
                if i < chars.len() {
                    let mut sub = chars.clone();
                    sub[i] = na;
                    out.push(sub.into_iter().collect());
                }
            }
        }
        // every contiguous insertion of 1..=3 chars over {-,+,.} at every position
        let ins_alpha = ['-', '+', '.'];
        for n in 1..=3usize {
            mc_core::gen::seqs_exact(3, n, &mut |ix: &[usize]| {
                let piece: String = ix.iter().map(|j| ins_alpha[*j]).collect();
                for i in 0..=b.len() {
                    out.push(format!("{}{}{}", &b[..i], piece, &b[i..]));
                }
            });
        }
    }
    out.sort();
    out.dedup();
    out
}

const ALPHABET: [u8; 10] = *b"019-+. ea_";

fn run_type<T: Fx>(ctx: &Ctx, col: &Collector, max_len: u32, cov: &mut Map<String, Value>) {
    // (1) lattice
    let lat = lattice::<T>();
    let values: Vec<T> = lat
        .iter()
        .map(|r| T::from_raw(r).unwrap_or_else(|| mc_core::machinery_error("lattice value out of range")))
        .collect();
    for (r, x) in lat.iter().zip(values.iter()) {
        if &x.raw() != r {
            mc_core::machinery_error("raw limb conversion of the harness does not round-trip");
        }
    }
    par_for(ctx, &values, |x, l| {
        l.eval();
        check_value_roundtrip::<T>(x, "lattice", l, col);
    });
    // (2a) all short strings
    let n = mc_core::gen::count_upto(ALPHABET.len() as u64, max_len);
    par_range(ctx, n, 1 << 14, |i, l| {
        let mut buf = Vec::with_capacity(16);
        mc_core::gen::nth_string(&ALPHABET, i, &mut buf);
        let s = std::str::from_utf8(&buf).expect("ascii alphabet");
        check_string::<T>(s, "short-strings", l, col);
        if i % 1_000_003 == 17 {
            let o = T::parse(s).map(|x| x.print());
            l.sample(|| json!({"type": T::NAME, "input": s, "from_str": format!("{o:?}")}));
        }
    });
    // (2b) boundary numerals, (2c) mutations and insertions
    let bn = boundary_numerals::<T>();
    par_for(ctx, &bn, |s, l| check_string::<T>(s, "boundary-numerals", l, col));
    let mn = mutated_numerals::<T>();
    par_for(ctx, &mn, |s, l| check_string::<T>(s, "mutations-and-insertions", l, col));
    ctx.sample(json!({"type": T::NAME, "input": bn[bn.len() / 2], "from_str": format!("{:?}", T::parse(&bn[bn.len() / 2]).map(|x| x.print()))}));
    cov.insert(
        T::NAME.to_string(),
        json!({"lattice_values": lat.len(), "short_strings": n, "short_string_max_len": max_len, "boundary_numerals": bn.len(), "mutations_and_insertions": mn.len()}),
    );
}

fn replay(ctx: Ctx) -> ! {
    let case = ctx.read_replay_case().unwrap_or_else(|| mc_core::machinery_error("no replay case"));
    let ty = case.get("type").and_then(|t| t.as_str()).unwrap_or("Decimal").to_string();
    let col = Collector::default();
    let mut l = Local::new();
    fn one<T: Fx>(case: &Value, l: &mut Local, col: &Collector) {
        if let Some(s) = case.get("input").and_then(|s| s.as_str()) {
            println!("input      : {s:?}");
            println!("reference  : {:?}", reference_read(s, T::SCALE, T::BITS));
            println!("{}::from_str: {:?}", T::NAME, mc_core::catch(|| T::parse(s).map(|x| x.print())));
            check_string::<T>(s, "replay", l, col);
        } else if let Some(r) = case.get("raw").and_then(|s| s.as_str()) {
            let raw = BigInt::from_str(r).unwrap_or_else(|_| mc_core::machinery_error("bad raw in replay"));
            let x = T::from_raw(&raw).unwrap_or_else(|| mc_core::machinery_error("raw out of range in replay"));
            println!("raw        : {raw}");
            println!("reference  : {}", reference_print(&raw, T::SCALE));
            println!("to_string  : {:?}", mc_core::catch(|| x.print()));
            check_value_roundtrip::<T>(&x, "replay", l, col);
        } else {
            mc_core::machinery_error("replay case has neither input nor raw");
        }
    }
    if ty == "PreciseDecimal" {
        one::<PreciseDecimal>(&case, &mut l, &col);
    } else {
        one::<Decimal>(&case, &mut l, &col);
    }
    ctx.merge(l);
    col.flush(&ctx);
    ctx.finish(Level::Exploration, "replay of one case", 1, true, Map::new(), &[])
}

pub fn run(ctx: Ctx) -> ! {
    if ctx.replay.is_some() {
        replay(ctx);
    }
    // self-test of the reference reader on hand-computed cases (machinery error, never a verdict)
    {
        let one = pow10(18);
        let chk = |s: &str, e: Ref| {
            if reference_read(s, 18, 192) != e {
                mc_core::machinery_error(&format!("reference reader self-test failed on {s:?}"));
            }
        };
        chk("1.5", Ref::Accept(&one * 3u32 / 2u32));
        chk("-0.05", Ref::Accept(-&one / 20u32));
        chk("007", Ref::Accept(&one * 7u32));
        chk("-0", Ref::Accept(BigInt::zero()));
        chk("1.-5", Ref::Reject("malformed"));
        chk("", Ref::Reject("no-digits"));
        chk("-.", Ref::Reject("no-digits"));
        chk("0.0000000000000000001", Ref::Reject("too-many-fraction-digits"));
        chk("3138550867693340381917894711603833208051.177722232017256447", Ref::Accept(max_raw(192)));
        chk("3138550867693340381917894711603833208051.177722232017256448", Ref::Reject("out-of-range"));
        chk("-3138550867693340381917894711603833208051.177722232017256448", Ref::Accept(-max_raw(192) - 1u32));
        chk("+5", Ref::Silent("leading-plus", &one * 5u32));
        chk("1.", Ref::Silent("empty-fraction", one.clone()));
        chk(".5", Ref::Silent("empty-integer-part", &one / 2u32));
        if reference_print(&(-&one / 20u32), 18) != "-0.05" || reference_print(&(&one * 120u32), 18) != "120" {
            mc_core::machinery_error("reference printer self-test failed");
        }
        if !is_signed_fraction("1.-5") || !is_signed_fraction("-0.+0") || is_signed_fraction("1.5") || is_signed_fraction("1.-") {
            mc_core::machinery_error("signed-fraction classifier self-test failed");
        }
    }
    let max_len = ctx.pick(7, 9);
    let col = Collector::default();
    let mut cov = Map::new();
    run_type::<Decimal>(&ctx, &col, max_len, &mut cov);
    run_type::<PreciseDecimal>(&ctx, &col, max_len, &mut cov);
    col.flush(&ctx);

    let classes = ctx.classes();
    // measured: distinct strings that got past every rejection branch (accepted, or failing the oracle)
    // + distinct lattice values
    let nontrivial: u64 = classes.iter().filter(|(k, _)| k.starts_with("parse:accepted") || k.starts_with("parse:silent-form-accepted")).map(|(_, n)| *n).sum::<u64>()
        + col.total()
        + cov.values().map(|v| v.get("lattice_values").and_then(|x| x.as_u64()).unwrap_or(0)).sum::<u64>();
    let rule = format!(
        "both types: every lattice value printed+read back; every string of length <= {max_len} over {{0,1,9,-,+,.,space,e,a,_}}; boundary numerals (13 integer parts x fraction lengths 1,scale-1,scale,scale+1,scale+2 x 3 signs); all single-point mutations over 16 ASCII bytes + 5 non-ASCII chars and all <=3-char insertions of {{-,+,.}} of 8 numerals. A case is one (type, string) or (type, value); non-trivial = distinct strings accepted as a numeral (or failing) + distinct lattice values printed and read back"
    );
    ctx.finish(
        Level::Exploration,
        &rule,
        nontrivial,
        true,
        cov,
        &[
            "statement-silent forms (leading '+', '1.', '.5') are informational either way",
            "a panic of from_str on a non-numeral counts as 'not accepted' (the statement does not promise panic-freedom); on a numeral it is a violation",
            "printed text must denote the exact value; not being the shortest form is informational",
            "strings longer than the bound are covered only through the boundary/mutation families",
        ],
    )
}
