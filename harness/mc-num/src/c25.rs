//! C25 — rounding follows the declared rounding modes.
//!
//! Bounded-exhaustive: (boundary lattice L(T) ∪ tie set) × every decimal-place count 0..=scale × all 7
//! modes through the real `checked_round`, plus `checked_floor`, `checked_ceiling`, the withdraw-strategy
//! helper `for_withdrawal` (Decimal, divisibility 0..=18, Exact + 7 rounded strategies) and
//! `PreciseDecimal::checked_truncate(mode)`. Oracle: BigInt floor/ceil/half rules written from the
//! documented mode table (`round_ref`): the prescribed multiple if representable, else None; values already
//! at the precision unchanged; never a panic for an allowed place count.
use crate::numref::*;
use mc_core::{par_range, Ctx, Level, Local};
use num_bigint::BigInt;
use num_traits::Signed;
use radix_common::math::*;
use radix_engine_interface::blueprints::resource::{ForWithdrawal, WithdrawStrategy};
use serde_json::{json, Map, Value};
use std::collections::BTreeSet;

/// Tie set: for every rounding unit 10^j (j = 1..=scale): ±(m·10^j + 5·10^(j−1)) and its two raw
/// neighbours, for m in {0,1,2,3} and the four largest m that still fit (both parities near MAX / MIN).
fn tie_set(ty: &Ty, quick: bool) -> Vec<BigInt> {
    let mut s: BTreeSet<BigInt> = BTreeSet::new();
    for j in 1..=ty.scale {
        if quick && j % 2 == 0 && j != ty.scale {
            continue;
        }
        let unit = pow10(j);
        let half = pow10(j - 1) * 5;
        let top: BigInt = &ty.max / &unit;
        let mut ms: Vec<BigInt> = (0..4).map(BigInt::from).collect();
        for d in 0..5 {
            ms.push(&top - d);
        }
        ms.push(&top + 1); // -(top+1)·unit - half may still be >= MIN
        for m in ms {
            if m.is_negative() {
                continue;
            }
            let t = &m * &unit + &half;
            for d in -1i32..=1 {
                let p: BigInt = &t + BigInt::from(d);
                for v in [p.clone(), -p] {
                    if ty.fits(&v) {
                        s.insert(v);
                    }
                }
            }
        }
    }
    s.into_iter().collect()
}

/// Digit-window family (thorough): for every rounding unit 10^j all 1000 settings of the three digits at
/// positions j, j-1, j-2 (the digit that decides parity, the digit that decides the half, and the first
/// digit below it), with and without a trailing raw 1, on top of a small / near-the-range-end prefix.
fn window_set(ty: &Ty) -> BTreeSet<BigInt> {
    let mut s: BTreeSet<BigInt> = BTreeSet::new();
    for j in 0..=ty.scale {
        let low = j.saturating_sub(2);
        let span = 10u32.pow(j - low + 1); // 10, 100 or 1000 digit settings
        let hi_unit = pow10(j + 1);
        let lo_unit = pow10(low);
        let top: BigInt = &ty.max / &hi_unit;
        let prefixes: Vec<BigInt> = vec![BigInt::from(0), BigInt::from(1), &top - 1, top.clone(), &top + 1];
        for m in &prefixes {
            if m.is_negative() {
                continue;
            }
            for w in 0..span {
                for t in 0..=1u32 {
                    if t == 1 && low == 0 {
                        continue;
                    }
                    let p: BigInt = m * &hi_unit + BigInt::from(w) * &lo_unit + BigInt::from(t);
                    for v in [p.clone(), -p] {
                        if ty.fits(&v) {
                            s.insert(v);
                        }
                    }
                }
            }
        }
    }
    s
}

fn values<T: Fixed>(quick: bool) -> Lat<T> {
    let ty = Ty::of::<T>();
    // the quick tier already uses the full lattice and the full tie set (the whole sweep costs seconds);
    // thorough adds the digit-window family
    let mut s: BTreeSet<BigInt> = lattice(&ty, false, true).into_iter().collect();
    s.extend(tie_set(&ty, false));
    if !quick {
        s.extend(window_set(&ty));
    }
    Lat::from_values(ty, s.into_iter().collect())
}

fn expect_round(ty: &Ty, v: &BigInt, dp: u32, mode: RoundingMode) -> (Option<BigInt>, &'static str) {
    let r = round_ref(v, ty.scale, dp, mode);
    if &r == v {
        (Some(r), "round:already-at-precision")
    } else if ty.fits(&r) {
        let unit = pow10(ty.scale - dp);
        let (_, rem) = div_floor_pos(v, &unit);
        let tie = &rem * 2 == unit;
        (Some(r), if tie { "round:tie" } else { "round:inexact" })
    } else {
        (None, "round:overflow")
    }
}

#[allow(clippy::too_many_arguments)]
fn check_round<T: Fixed>(ty: &Ty, v: &BigInt, vv: T, dp: u32, mode: RoundingMode, via: &str, got: Result<Option<BigInt>, String>, l: &mut Local) {
    l.eval();
    let (exp, class) = expect_round(ty, v, dp, mode);
    l.class(class);
    if let Some(kind) = verdict(ty, &exp, &got) {
        let _ = vv;
        report(
            l,
            kind,
            format!("{kind}:{}:{via}:{}", T::NAME, mode_name(mode)),
            format!(
                "{}::{via}({}, places={dp}, {}) [raw {v}]: mode table prescribes {}, real code returned {}",
                T::NAME,
                render(v, ty.scale),
                mode_name(mode),
                show_big(&exp),
                show_got(&got)
            ),
            json!({"kind": "round", "type": T::NAME, "via": via, "a": v.to_string(), "places": dp, "mode": mode_name(mode)}),
        );
    }
}

fn sweep<T: Fixed>(ctx: &Ctx, vals: &Lat<T>) {
    let ty = &vals.ty;
    par_range(ctx, vals.len() as u64, 4, |i, l| {
        let i = i as usize;
        let (v, vv) = (&vals.big[i], vals.val[i]);
        for dp in 0..=ty.scale {
            for mode in ALL_MODES {
                let got = got_big(mc_core::catch(|| vv.c_round(dp as i32, mode)));
                check_round(ty, v, vv, dp, mode, "checked_round", got, l);
            }
        }
        let got = got_big(mc_core::catch(|| vv.c_floor()));
        check_round(ty, v, vv, 0, RoundingMode::ToNegativeInfinity, "checked_floor", got, l);
        let got = got_big(mc_core::catch(|| vv.c_ceiling()));
        check_round(ty, v, vv, 0, RoundingMode::ToPositiveInfinity, "checked_ceiling", got, l);
        if i % 211 == 3 {
            let dp = (i as u32 * 7) % (ty.scale + 1);
            let mode = ALL_MODES[i % 7];
            let (e, c) = expect_round(ty, v, dp, mode);
            l.sample(|| json!({"type": T::NAME, "value": render(v, ty.scale), "places": dp, "mode": mode_name(mode), "expected_raw": show_big(&e), "class": c}));
        }
    });
}

fn sweep_withdrawal(ctx: &Ctx, vals: &Lat<Decimal>) {
    let ty = &vals.ty;
    par_range(ctx, vals.len() as u64, 4, |i, l| {
        let i = i as usize;
        let (v, vv) = (&vals.big[i], vals.val[i]);
        for div in 0..=18u8 {
            // Exact: the amount itself, untouched
            l.eval();
            l.class("for_withdrawal:exact-strategy");
            let got = got_big(mc_core::catch(|| vv.for_withdrawal(div, WithdrawStrategy::Exact)));
            if let Some(kind) = verdict(ty, &Some(v.clone()), &got) {
                report(
                    l,
                    kind,
                    format!("{kind}:Decimal:for_withdrawal:Exact"),
                    format!("for_withdrawal({}, divisibility={div}, Exact): expected the amount unchanged, real code returned {}", render(v, 18), show_got(&got)),
                    json!({"kind": "for_withdrawal", "a": v.to_string(), "divisibility": div, "mode": "Exact"}),
                );
            }
            for mode in ALL_MODES {
                let got = got_big(mc_core::catch(|| vv.for_withdrawal(div, WithdrawStrategy::Rounded(mode))));
                check_round(ty, v, vv, div as u32, mode, "for_withdrawal", got, l);
            }
        }
    });
}

/// PreciseDecimal::checked_truncate(mode): round to 18 places by the mode, then narrow to Decimal.
fn sweep_truncate(ctx: &Ctx, vals: &Lat<PreciseDecimal>) {
    let ty = &vals.ty;
    let dty = Ty::of::<Decimal>();
    let e18 = pow10(18);
    par_range(ctx, vals.len() as u64, 16, |i, l| {
        let i = i as usize;
        let (v, vv) = (&vals.big[i], vals.val[i]);
        for mode in ALL_MODES {
            l.eval();
            let r = round_ref(v, 36, 18, mode);
            // the rounding step works in PreciseDecimal: if the rounded value does not exist there, None
            let exp = if ty.fits(&r) { dty.some_if_fits(&r / &e18) } else { None };
            l.class(if exp.is_some() { "checked_truncate:some" } else { "checked_truncate:out-of-range" });
            let got = got_big(mc_core::catch(|| vv.checked_truncate(mode)));
            match verdict(&dty, &exp, &got) {
                None => {}
                Some("exact-MIN-rejected") => {
                    // The rounding is right; what fails is the I256 -> I192 narrowing of exactly Decimal::MIN.
                    // That is a conversion defect owned (and reported as a violation) by C24; C25's statement
                    // is about the rounding rule and is silent about the narrowing step.
                    l.info("checked_truncate: rounded value is exactly Decimal::MIN and the narrowing rejects it (conversion defect reported under C24)");
                }
                Some(kind) => report(
                    l,
                    kind,
                    format!("{kind}:PreciseDecimal:checked_truncate:{}", mode_name(mode)),
                    format!("PreciseDecimal::checked_truncate({}, {}) [raw {v}]: expected {}, real code returned {}", render(v, 36), mode_name(mode), show_big(&exp), show_got(&got)),
                    json!({"kind": "truncate", "a": v.to_string(), "mode": mode_name(mode)}),
                ),
            }
        }
    });
}

fn replay(ctx: Ctx, case: Value) -> ! {
    let kind = case.get("kind").and_then(|k| k.as_str()).unwrap_or("");
    let a = parse_big(&case, "a");
    let mode_s = case.get("mode").and_then(|k| k.as_str()).unwrap_or("");
    let mut l = Local::new();
    match kind {
        "round" => {
            let mode = mode_by_name(mode_s).unwrap_or_else(|| mc_core::machinery_error("replay: unknown mode"));
            let dp = case.get("places").and_then(|k| k.as_u64()).unwrap_or(0) as u32;
            let via = case.get("via").and_then(|k| k.as_str()).unwrap_or("checked_round").to_string();
            fn one<T: Fixed>(a: &BigInt, dp: u32, mode: RoundingMode, via: &str, l: &mut Local, f: impl FnOnce(T) -> Option<T>) {
                let ty = Ty::of::<T>();
                let vv: T = from_big(a).unwrap_or_else(|| mc_core::machinery_error("replay: value out of range"));
                let got = got_big(mc_core::catch(|| f(vv)));
                println!("REPLAY {}::{via}({}, places={dp}, {}): prescribed {}, real code returned {}", T::NAME, render(a, ty.scale), mode_name(mode), show_big(&expect_round(&ty, a, dp, mode).0), show_got(&got));
                check_round(&ty, a, vv, dp, mode, via, got, l);
            }
            let is_dec = case.get("type").and_then(|k| k.as_str()) == Some("Decimal");
            match (via.as_str(), is_dec) {
                ("for_withdrawal", _) => one::<Decimal>(&a, dp, mode, &via, &mut l, |v| v.for_withdrawal(dp as u8, WithdrawStrategy::Rounded(mode))),
                ("checked_floor", true) => one::<Decimal>(&a, 0, mode, &via, &mut l, |v| v.c_floor()),
                ("checked_floor", false) => one::<PreciseDecimal>(&a, 0, mode, &via, &mut l, |v| v.c_floor()),
                ("checked_ceiling", true) => one::<Decimal>(&a, 0, mode, &via, &mut l, |v| v.c_ceiling()),
                ("checked_ceiling", false) => one::<PreciseDecimal>(&a, 0, mode, &via, &mut l, |v| v.c_ceiling()),
                (_, true) => one::<Decimal>(&a, dp, mode, &via, &mut l, |v| v.c_round(dp as i32, mode)),
                (_, false) => one::<PreciseDecimal>(&a, dp, mode, &via, &mut l, |v| v.c_round(dp as i32, mode)),
            }
        }
        _ => mc_core::machinery_error("replay of this case kind is not supported; rerun the tier (the enumeration is deterministic)"),
    }
    println!("REPLAY verdict: {}", if l.violations.is_empty() { "agrees with the mode table" } else { "VIOLATES the mode table" });
    ctx.merge(l);
    ctx.finish(Level::Exploration, "replay", 0, false, Map::new(), &[])
}

pub fn run(ctx: Ctx) -> ! {
    if let Some(case) = ctx.read_replay_case() {
        replay(ctx, case);
    }
    let quick = ctx.quick();
    let vd = values::<Decimal>(quick);
    let vp = values::<PreciseDecimal>(quick);
    sweep(&ctx, &vd);
    sweep(&ctx, &vp);
    sweep_withdrawal(&ctx, &vd);
    sweep_truncate(&ctx, &vp);

    let classes = ctx.classes();
    let nontrivial: u64 = classes.iter().filter(|(k, _)| ["round:tie", "round:inexact", "round:overflow", "checked_truncate:out-of-range"].contains(&k.as_str())).map(|(_, v)| *v).sum();
    let mut cov = Map::new();
    cov.insert("values_decimal".into(), json!(vd.len()));
    cov.insert("values_precise_decimal".into(), json!(vp.len()));
    cov.insert("decimal_places".into(), json!({"Decimal": "0..=18", "PreciseDecimal": "0..=36"}));
    cov.insert("modes".into(), json!(ALL_MODES.iter().map(|m| mode_name(*m)).collect::<Vec<_>>()));
    cov.insert("withdraw_divisibilities".into(), json!("0..=18"));
    ctx.finish(
        Level::Exploration,
        "a case = one (type, entry point, value, decimal places, mode) evaluated on the real code and on the BigInt mode table; values (distinct) = boundary lattice L(T) ∪ tie set (±(m·10^j+5·10^(j-1)) and raw neighbours, m small and near the range ends, every rounding unit j) ∪ in the thorough tier the digit-window family (all 1000 settings of the three digits around every rounding position, with/without a trailing raw 1, small and near-range-end prefixes); entry points = checked_round (all places × 7 modes), checked_floor, checked_ceiling, for_withdrawal (divisibility 0..=18 × Exact + 7 modes), checked_truncate (7 modes); non-trivial = cases where the value is not already at the precision (inexact, exact tie, or prescribed multiple unrepresentable)",
        nontrivial,
        true,
        cov,
        &[
            "decimal-place counts outside 0..=SCALE are documented to panic and are not part of the property ('any allowed number of decimal places')",
            "checked_truncate returning None for a rounded value of exactly Decimal::MIN is counted as informational here (narrowing defect, violation under C24)",
            "raw values are transported as u64 limbs via from_digits/to_digits",
        ],
    )
}
