//! C26 — roots and powers are correctly truncated.
//!
//! Bounded-exhaustive over (boundary lattice L(T) ∪ perfect-power / small-integer / near-one families) ×
//! a degree alphabet (roots) and an exponent alphabet (powers), for Decimal and PreciseDecimal.
//!
//! Roots are *verified*, not recomputed: r is accepted iff |r|^n <= |x|·10^(s(n-1)) < (|r|+1)^n in BigInt
//! arithmetic, with sign(r) = sign(x) (truncation toward zero); failure is accepted only for (negative,
//! even degree) or degree 0.
//! Powers: the exact rational x^e is formed as N/D in BigInt arithmetic; if it is representable (D | N and
//! in range) the real result must equal it; otherwise None is accepted and Some(v) must satisfy
//! |v|·D <= |N| with the sign of N (or v = 0). For |e| > 1024 the exact power is not formed; it is enclosed
//! in a directed-rounding interval at 120 extra digits (only x = 0, ±1 are representable there).
//! A panic is a violation everywhere.
use crate::numref::*;
use mc_core::{par_range, Ctx, Level, Local};
use num_bigint::BigInt;
use num_traits::{One, Signed, Zero};
use radix_common::math::*;
use serde_json::{json, Map, Value};
use std::collections::BTreeSet;

const ROOT_DEGREES_QUICK: [u32; 13] = [0, 1, 2, 3, 4, 5, 7, 8, 16, 17, 36, 37, 64];
const ROOT_DEGREES_MORE: [u32; 6] = [100, 127, 128, 255, 256, 1000];
const BIG_DEGREES: [u32; 1] = [4096];
const EXPS: [i64; 30] = [
    i64::MIN,
    i64::MIN + 1,
    -128,
    -127,
    -65,
    -36,
    -18,
    -4,
    -3,
    -2,
    -1,
    0,
    1,
    2,
    3,
    4,
    5,
    7,
    8,
    16,
    18,
    31,
    36,
    63,
    64,
    65,
    127,
    128,
    i64::MAX - 1,
    i64::MAX,
];
/// exponents with |e| above this are handled by interval enclosure instead of the exact rational
const EXACT_LIMIT: u64 = 1024;

fn pm(s: &mut BTreeSet<BigInt>, ty: &Ty, v: BigInt) {
    let n = -&v;
    if ty.fits(&v) {
        s.insert(v);
    }
    if ty.fits(&n) {
        s.insert(n);
    }
}

/// Values on which roots are taken: L(T) plus perfect n-th powers (integer and fractional) and their raw
/// neighbours, so that "one below a perfect power" (root must drop by a whole step) is always present.
fn root_values<T: Fixed>(quick: bool) -> Lat<T> {
    let ty = Ty::of::<T>();
    let mut s: BTreeSet<BigInt> = lattice(&ty, quick, !quick).into_iter().collect();
    for n in [2u32, 3, 4, 5, 7, 8, 16] {
        for m in 2u32..=12 {
            let p = num_traits::pow(BigInt::from(m), n as usize);
            let whole = &p * &ty.one; // value m^n
            let tenn = pow10(n);
            for d in -1i32..=1 {
                pm(&mut s, &ty, &whole + d);
                if (&whole % &tenn).is_zero() {
                    pm(&mut s, &ty, &whole / &tenn + d); // value (m/10)^n
                }
            }
        }
    }
    Lat::from_values(ty, s.into_iter().collect())
}

/// Bases for powers: L(T) plus small integers, powers of two as values, exact negative powers of 2 and 5
/// (the bases whose reciprocal powers are representable), near-one values, and the n-th roots of MAX.
fn pow_values<T: Fixed>(quick: bool) -> Lat<T> {
    let ty = Ty::of::<T>();
    let one = ty.one.clone();
    let mut s: BTreeSet<BigInt> = lattice(&ty, quick, !quick).into_iter().collect();
    for m in (2u32..=12).chain([16, 20, 25, 32, 50, 64, 100, 125, 1000, 1024]) {
        pm(&mut s, &ty, &one * m);
    }
    for j in 1u32..=40 {
        pm(&mut s, &ty, &one * pow2(j));
    }
    for j in 1u32..=ty.scale {
        pm(&mut s, &ty, &one / pow2(j)); // 2^-j exactly (10^s / 2^j is an integer for j <= s)
        pm(&mut s, &ty, &one / num_traits::pow(BigInt::from(5), j as usize));
        pm(&mut s, &ty, &one * 3 / pow2(j.min(8)));
    }
    for d in [1u32, 2, 3, 10] {
        pm(&mut s, &ty, &one + d);
        pm(&mut s, &ty, &one - d);
    }
    for k in [ty.scale / 2, ty.scale - 3, ty.scale - 1] {
        pm(&mut s, &ty, &one + pow10(k));
        pm(&mut s, &ty, &one - pow10(k));
    }
    // n-th roots of MAX (as values) and neighbours: x^n straddles the overflow boundary
    for n in [2u32, 3, 4, 5, 7, 8, 16, 31, 63, 64, 127] {
        let target = &ty.max * num_traits::pow(one.clone(), (n - 1) as usize);
        let r = target.nth_root(n); // lattice construction only; the oracle never uses this
        for d in -1i32..=1 {
            pm(&mut s, &ty, &r + d);
        }
    }
    Lat::from_values(ty, s.into_iter().collect())
}

// ------------------------------------------------------------------------------------------------
// roots
// ------------------------------------------------------------------------------------------------

fn check_root<T: Fixed>(ty: &Ty, x: &BigInt, n: u32, via: &str, spow: &BigInt, got: Result<Option<BigInt>, String>, l: &mut Local) {
    l.eval();
    let case = || json!({"kind": "root", "type": T::NAME, "via": via, "a": x.to_string(), "degree": n});
    let head = || format!("{}::{via}({}{}) [raw {x}]", T::NAME, render(x, ty.scale), if via == "checked_nth_root" { format!(", n={n}") } else { String::new() });
    let must_fail = n == 0 || (x.is_negative() && n % 2 == 0);
    let g = match &got {
        Err(p) => {
            l.class("root:panic");
            report(l, "panic", format!("panic:{}:{via}", T::NAME), format!("{}: panicked: {p} @ {}", head(), mc_core::last_panic_location()), case());
            return;
        }
        Ok(g) => g,
    };
    if must_fail {
        l.class(if n == 0 { "root:zero-degree" } else { "root:even-of-negative" });
        if let Some(r) = g {
            report(l, "root-accepted-undefined", format!("root-accepted-undefined:{}:{via}", T::NAME), format!("{}: undefined root returned Some({r})", head()), case());
        }
        return;
    }
    let r = match g {
        None => {
            l.class("root:spurious-failure");
            report(l, "root-spurious-failure", format!("root-spurious-failure:{}:{via}", T::NAME), format!("{}: the root is defined but the real code returned None", head()), case());
            return;
        }
        Some(r) => r,
    };
    // verification: |r|^n <= |x| * S^(n-1) < (|r|+1)^n, sign(r) = sign(x)
    let target = x.abs() * spow;
    let ra = r.abs();
    let lo = num_traits::pow(ra.clone(), n as usize);
    let hi = num_traits::pow(&ra + 1, n as usize);
    let sign_ok = r.is_zero() || (r.is_negative() == x.is_negative());
    let exact = lo == target;
    if !(lo <= target && target < hi) || !sign_ok || (x.is_zero() != r.is_zero()) {
        l.class("root:wrong");
        let why = if !sign_ok {
            "wrong sign"
        } else if lo > target {
            "magnitude too large (not truncated toward zero)"
        } else {
            "magnitude too small"
        };
        report(l, "root-not-truncated", format!("root-not-truncated:{}:{via}", T::NAME), format!("{}: returned {r}: {why}; need |r|^n <= |x|*10^(s(n-1)) < (|r|+1)^n", head()), case());
        return;
    }
    l.class(if n == 1 {
        "root:degree-one"
    } else if x.is_zero() {
        "root:of-zero"
    } else if exact {
        "root:exact"
    } else if x.is_negative() {
        "root:truncated-negative"
    } else {
        "root:truncated-positive"
    });
}

fn sweep_roots<T: Fixed>(ctx: &Ctx, vals: &Lat<T>, degrees: &[u32]) {
    let ty = &vals.ty;
    // S^(n-1) per degree, once
    let spows: Vec<BigInt> = degrees.iter().map(|&n| if n == 0 { BigInt::one() } else { num_traits::pow(ty.one.clone(), (n - 1) as usize) }).collect();
    let s1 = ty.one.clone();
    let s2 = &ty.one * &ty.one;
    par_range(ctx, vals.len() as u64, 2, |i, l| {
        let i = i as usize;
        let (x, xv) = (&vals.big[i], vals.val[i]);
        check_root::<T>(ty, x, 2, "checked_sqrt", &s1, got_big(mc_core::catch(|| xv.c_sqrt())), l);
        check_root::<T>(ty, x, 3, "checked_cbrt", &s2, got_big(mc_core::catch(|| xv.c_cbrt())), l);
        for (k, &n) in degrees.iter().enumerate() {
            check_root::<T>(ty, x, n, "checked_nth_root", &spows[k], got_big(mc_core::catch(|| xv.c_nth_root(n))), l);
        }
        if i % 173 == 11 {
            l.sample(|| json!({"type": T::NAME, "value": render(x, ty.scale), "cbrt_raw": show(&mc_core::catch(|| xv.c_cbrt()))}));
        }
    });
}

/// Very large degrees on a handful of values (cost grows with the degree: the code forms 10^(s(n-1))).
fn big_degree_roots<T: Fixed>(ctx: &Ctx, degrees: &[u32]) {
    let ty = Ty::of::<T>();
    let vals: Vec<BigInt> = vec![BigInt::one(), -BigInt::one(), ty.one.clone(), -&ty.one, &ty.one * 2, &ty.one / 2, ty.max.clone(), &ty.min + 1, &ty.one + 1, &ty.one - 1];
    let lat = Lat::<T>::from_values(ty.clone(), vals);
    let items: Vec<(usize, u32)> = (0..lat.len()).flat_map(|i| degrees.iter().map(move |&n| (i, n))).collect();
    mc_core::par_for(ctx, &items, |&(i, n), l| {
        let spow = num_traits::pow(lat.ty.one.clone(), (n - 1) as usize);
        let xv = lat.val[i];
        check_root::<T>(&lat.ty, &lat.big[i], n, "checked_nth_root", &spow, got_big(mc_core::catch(|| xv.c_nth_root(n))), l);
    });
}

/// Degrees near u32::MAX: only the inputs on which the code answers without forming 10^(s·(n-1)).
fn extreme_degree_roots<T: Fixed>(l: &mut Local) {
    let ty = Ty::of::<T>();
    let zero: T = from_big(&BigInt::zero()).unwrap();
    let neg: T = from_big(&-&ty.one).unwrap();
    for n in [u32::MAX, u32::MAX - 1] {
        check_root::<T>(&ty, &BigInt::zero(), n, "checked_nth_root", &BigInt::one(), got_big(mc_core::catch(|| zero.c_nth_root(n))), l);
    }
    check_root::<T>(&ty, &-&ty.one, u32::MAX - 1, "checked_nth_root", &BigInt::one(), got_big(mc_core::catch(|| neg.c_nth_root(u32::MAX - 1))), l);
}

// ------------------------------------------------------------------------------------------------
// powers
// ------------------------------------------------------------------------------------------------

fn exp_class(e: i64) -> &'static str {
    if e == i64::MIN {
        "exp=i64::MIN"
    } else if e < 0 {
        "exp-negative"
    } else if e == 0 {
        "exp-zero"
    } else {
        "exp-positive"
    }
}

struct Iv {
    lo: BigInt,
    hi: BigInt,
    hi_unbounded: bool,
}

fn iv_mul(x: &Iv, y: &Iv, p: &BigInt, cap: &BigInt) -> Iv {
    let mut lo: BigInt = (&x.lo * &y.lo) / p; // floor of a non-negative product
    let mut unb = x.hi_unbounded || y.hi_unbounded;
    let mut hi: BigInt = if unb { cap.clone() } else { (&x.hi * &y.hi + p - BigInt::one()) / p }; // ceil
    if lo > *cap {
        lo = cap.clone();
    }
    if hi > *cap {
        hi = cap.clone();
        unb = true;
    }
    Iv { lo, hi, hi_unbounded: unb }
}

/// Enclosure of |x|^n (x = |a|/S, or S/|a| when `recip`) scaled by P = 10^w; a != 0.
fn pow_interval(a_abs: &BigInt, s: &BigInt, recip: bool, n: u64, p: &BigInt, cap: &BigInt) -> Iv {
    let mut base = if recip {
        let num = s * p;
        let lo = &num / a_abs;
        let exact = (&lo * a_abs) == num;
        let hi = if exact { lo.clone() } else { &lo + 1 };
        Iv { lo, hi, hi_unbounded: false }
    } else {
        let v = a_abs * (p / s); // exact: P is a multiple of S
        Iv { lo: v.clone(), hi: v, hi_unbounded: false }
    };
    let mut acc = Iv { lo: p.clone(), hi: p.clone(), hi_unbounded: false };
    let mut n = n;
    while n > 0 {
        if n & 1 == 1 {
            acc = iv_mul(&acc, &base, p, cap);
        }
        n >>= 1;
        if n > 0 {
            base = iv_mul(&base, &base, p, cap);
        }
    }
    acc
}

struct PowCtx {
    ty: Ty,
    /// per exponent index: S^(n-1) for e > 0, S^(n+1) for e < 0 (|e| <= EXACT_LIMIT), else 1
    spow: Vec<BigInt>,
    p: BigInt,
    p_over_s: BigInt,
    cap: BigInt,
}

fn check_pow<T: Fixed>(pc: &PowCtx, a: &BigInt, av: T, ei: usize, l: &mut Local) {
    l.eval();
    let ty = &pc.ty;
    let e = EXPS[ei];
    let n = e.unsigned_abs();
    let got = got_big(mc_core::catch(|| av.c_powi(e)));
    let case = || json!({"kind": "pow", "type": T::NAME, "a": a.to_string(), "exp": e});
    let head = || format!("{}::checked_powi({}, {e}) [raw {a}]", T::NAME, render(a, ty.scale));
    let g = match &got {
        Err(p) => {
            l.class("powi:panic");
            report(l, "panic", format!("panic:{}:{}:checked_powi", exp_class(e), T::NAME), format!("{}: panicked: {p} @ {}", head(), mc_core::last_panic_location()), case());
            return;
        }
        Ok(g) => g,
    };
    // --- cases without a mathematical demand
    if a.is_zero() && e == 0 {
        l.class("powi:zero-pow-zero(no demand)");
        return;
    }
    if a.is_zero() && e < 0 {
        l.class("powi:zero-to-negative(undefined)");
        if g.is_some() {
            l.info("0^negative returned Some (undefined; statement silent)");
        }
        return;
    }
    let neg_result = a.is_negative() && n % 2 == 1;
    let missed = |l: &mut Local, exact: &BigInt| {
        // key classes: an exact result of exactly MIN that is refused is the narrowing defect also seen by C24
        // (same key prefix); exp = i64::MIN with a unit base is the exponent-negation overflow
        let (kind, key) = if exact == &ty.min {
            ("exact-MIN-rejected", format!("exact-MIN-rejected:{}:checked_powi", T::NAME))
        } else if e == i64::MIN && a.abs() == ty.one {
            ("powi:exp=i64::MIN:unit-base", format!("powi:exp=i64::MIN:unit-base:{}", T::NAME))
        } else {
            ("powi-exact-result-missed", format!("powi-exact-result-missed:{}:{}", exp_class(e), T::NAME))
        };
        report(
            l,
            kind,
            key,
            format!("{}: the exact result {exact} (raw) is representable but the real code returned {}", head(), show_got(&got)),
            case(),
        );
    };
    // --- the exact result, when it is representable
    let exact_repr: Option<BigInt>;
    // bound check data for the non-representable case: Some(v) must satisfy |v|*D <= |N|
    let mut frac: Option<(BigInt, BigInt)> = None;
    let mut overflow = false;
    if n <= EXACT_LIMIT {
        let (num, den): (BigInt, BigInt) = if e == 0 {
            (ty.one.clone(), BigInt::one())
        } else if e > 0 {
            (num_traits::pow(a.clone(), n as usize), pc.spow[ei].clone())
        } else {
            let d = num_traits::pow(a.abs(), n as usize);
            (if neg_result { -pc.spow[ei].clone() } else { pc.spow[ei].clone() }, d)
        };
        let (q, ex) = div_trunc(&num, &den);
        overflow = !ty.fits(&q);
        exact_repr = if ex && !overflow { Some(q) } else { None };
        frac = Some((num, den));
    } else {
        // |e| > 1024: representable only for x in {0 (e > 0), 1, -1}
        exact_repr = if a.is_zero() {
            Some(BigInt::zero())
        } else if a.abs() == ty.one {
            Some(if neg_result { -ty.one.clone() } else { ty.one.clone() })
        } else {
            None
        };
    }
    if let Some(x) = &exact_repr {
        l.class("powi:exact-representable");
        match g {
            Some(v) if v == x => {}
            Some(_) => report(
                l,
                "powi-wrong-exact-value",
                format!("powi-wrong-exact-value:{}:{}", exp_class(e), T::NAME),
                format!("{}: exact result {x} (raw) is representable, real code returned {}", head(), show_got(&got)),
                case(),
            ),
            None => missed(l, x),
        }
        return;
    }
    // --- not representable: None is fine, Some(v) must not exceed the exact result in magnitude
    let v = match g {
        None => {
            l.class(if overflow { "powi:overflow->none" } else if n > EXACT_LIMIT { "powi:huge-exp-unrepresentable->none" } else { "powi:inexact->none" });
            return;
        }
        Some(v) => v,
    };
    if !v.is_zero() && v.is_negative() != neg_result {
        l.class("powi:wrong-sign");
        report(l, "powi-wrong-sign", format!("powi-wrong-sign:{}:{}", exp_class(e), T::NAME), format!("{}: returned {v} with the wrong sign", head()), case());
        return;
    }
    if let Some((num, den)) = &frac {
        if v.abs() * den <= num.abs() {
            l.class(if overflow { "powi:overflow->some-below-exact" } else { "powi:inexact->some-below-exact" });
        } else {
            l.class("powi:exceeds-exact");
            report(
                l,
                "powi-exceeds-exact",
                format!("powi-exceeds-exact:{}:{}", exp_class(e), T::NAME),
                format!("{}: returned {v} (raw), larger in magnitude than the exact result {}/{}", head(), mc_core::truncate(&num.to_string(), 90), mc_core::truncate(&den.to_string(), 90)),
                case(),
            );
        }
        return;
    }
    // huge exponent: interval enclosure
    let iv = pow_interval(&a.abs(), &ty.one, e < 0, n, &pc.p, &pc.cap);
    let scaled = v.abs() * &pc.p_over_s;
    if scaled <= iv.lo {
        l.class("powi:huge-exp->some-below-exact");
    } else if !iv.hi_unbounded && scaled > iv.hi {
        l.class("powi:exceeds-exact");
        report(l, "powi-exceeds-exact", format!("powi-exceeds-exact:{}:{}", exp_class(e), T::NAME), format!("{}: returned {v} (raw), above the upper enclosure of the exact result", head()), case());
    } else {
        l.class("powi:huge-exp->inconclusive");
        l.info("huge exponent: result inside the enclosure width, not decidable (no demand made)");
    }
}

fn sweep_pows<T: Fixed>(ctx: &Ctx, vals: &Lat<T>) {
    let ty = vals.ty.clone();
    let spow: Vec<BigInt> = EXPS
        .iter()
        .map(|&e| {
            let n = e.unsigned_abs();
            if n > EXACT_LIMIT || e == 0 {
                BigInt::one()
            } else if e > 0 {
                num_traits::pow(ty.one.clone(), (n - 1) as usize)
            } else {
                num_traits::pow(ty.one.clone(), (n + 1) as usize)
            }
        })
        .collect();
    let w = ty.scale + 120;
    let pc = PowCtx { p: pow10(w), p_over_s: pow10(w - ty.scale), cap: pow10(w + 80), spow, ty };
    par_range(ctx, vals.len() as u64, 2, |i, l| {
        let i = i as usize;
        for ei in 0..EXPS.len() {
            check_pow::<T>(&pc, &vals.big[i], vals.val[i], ei, l);
        }
        if i % 197 == 5 {
            let xv = vals.val[i];
            l.sample(|| json!({"type": T::NAME, "base": render(&vals.big[i], pc.ty.scale), "powi_3_raw": show(&mc_core::catch(|| xv.c_powi(3))), "powi_-2_raw": show(&mc_core::catch(|| xv.c_powi(-2)))}));
        }
    });
}

// ------------------------------------------------------------------------------------------------

fn replay(ctx: Ctx, case: Value) -> ! {
    let kind = case.get("kind").and_then(|k| k.as_str()).unwrap_or("");
    let is_dec = case.get("type").and_then(|k| k.as_str()) == Some("Decimal");
    let a = parse_big(&case, "a");
    let mut l = Local::new();
    fn root<T: Fixed>(a: &BigInt, n: u32, via: &str, l: &mut Local) {
        let ty = Ty::of::<T>();
        let xv: T = from_big(a).unwrap_or_else(|| mc_core::machinery_error("replay: value out of range"));
        let got = got_big(mc_core::catch(|| match via {
            "checked_sqrt" => xv.c_sqrt(),
            "checked_cbrt" => xv.c_cbrt(),
            _ => xv.c_nth_root(n),
        }));
        println!("REPLAY {}::{via}({}, n={n}): real code returned {}", T::NAME, render(a, ty.scale), show_got(&got));
        let spow = if n == 0 { BigInt::one() } else { num_traits::pow(ty.one.clone(), (n - 1) as usize) };
        check_root::<T>(&ty, a, n, via, &spow, got, l);
    }
    fn pow<T: Fixed>(a: &BigInt, e: i64, l: &mut Local) {
        let ty = Ty::of::<T>();
        let xv: T = from_big(a).unwrap_or_else(|| mc_core::machinery_error("replay: value out of range"));
        let ei = EXPS.iter().position(|x| *x == e).unwrap_or_else(|| mc_core::machinery_error("replay: exponent not in the alphabet"));
        println!("REPLAY {}::checked_powi({}, {e}): real code returned {}", T::NAME, render(a, ty.scale), show(&mc_core::catch(|| xv.c_powi(e))));
        let lat = Lat::<T>::from_values(ty, vec![a.clone()]);
        // same code path as the sweep, restricted to one exponent
        let n = e.unsigned_abs();
        let spow: Vec<BigInt> = EXPS
            .iter()
            .map(|&x| {
                if x != e || n > EXACT_LIMIT || e == 0 {
                    BigInt::one()
                } else if e > 0 {
                    num_traits::pow(lat.ty.one.clone(), (n - 1) as usize)
                } else {
                    num_traits::pow(lat.ty.one.clone(), (n + 1) as usize)
                }
            })
            .collect();
        let w = lat.ty.scale + 120;
        let pc = PowCtx { p: pow10(w), p_over_s: pow10(w - lat.ty.scale), cap: pow10(w + 80), spow, ty: lat.ty.clone() };
        check_pow::<T>(&pc, a, lat.val[0], ei, l);
    }
    match kind {
        "root" => {
            let n = case.get("degree").and_then(|k| k.as_u64()).unwrap_or(2) as u32;
            let via = case.get("via").and_then(|k| k.as_str()).unwrap_or("checked_nth_root").to_string();
            if is_dec {
                root::<Decimal>(&a, n, &via, &mut l)
            } else {
                root::<PreciseDecimal>(&a, n, &via, &mut l)
            }
        }
        "pow" => {
            let e = case.get("exp").and_then(|k| k.as_i64()).unwrap_or(0);
            if is_dec {
                pow::<Decimal>(&a, e, &mut l)
            } else {
                pow::<PreciseDecimal>(&a, e, &mut l)
            }
        }
        _ => mc_core::machinery_error("replay: unknown case kind"),
    }
    println!("REPLAY verdict: {}", if l.violations.is_empty() { "agrees with the specification" } else { "VIOLATES the specification" });
    ctx.merge(l);
    ctx.finish(Level::Exploration, "replay", 0, false, Map::new(), &[])
}

pub fn run(ctx: Ctx) -> ! {
    if let Some(case) = ctx.read_replay_case() {
        replay(ctx, case);
    }
    let quick = ctx.quick();
    let mut degrees: Vec<u32> = ROOT_DEGREES_QUICK.to_vec();
    if !quick {
        degrees.extend(ROOT_DEGREES_MORE);
    }
    let rd = root_values::<Decimal>(quick);
    let rp = root_values::<PreciseDecimal>(quick);
    sweep_roots(&ctx, &rd, &degrees);
    sweep_roots(&ctx, &rp, &degrees);
    let t_roots = ctx.elapsed_s();
    let mut l = Local::new();
    extreme_degree_roots::<Decimal>(&mut l);
    extreme_degree_roots::<PreciseDecimal>(&mut l);
    ctx.merge(l);
    if !quick {
        big_degree_roots::<Decimal>(&ctx, &BIG_DEGREES);
        big_degree_roots::<PreciseDecimal>(&ctx, &BIG_DEGREES);
    }
    let t_big = ctx.elapsed_s();
    let pd = pow_values::<Decimal>(quick);
    let pp = pow_values::<PreciseDecimal>(quick);
    sweep_pows(&ctx, &pd);
    sweep_pows(&ctx, &pp);

    let classes = ctx.classes();
    let trivial = ["root:degree-one", "root:of-zero", "powi:zero-pow-zero(no demand)", "powi:zero-to-negative(undefined)"];
    let nontrivial: u64 = classes.iter().filter(|(k, _)| !trivial.contains(&k.as_str())).map(|(_, v)| *v).sum();
    let mut cov = Map::new();
    cov.insert("root_values".into(), json!({"Decimal": rd.len(), "PreciseDecimal": rp.len()}));
    cov.insert("root_degrees".into(), json!(degrees));
    cov.insert("big_root_degrees_on_10_values".into(), json!(if quick { vec![] } else { BIG_DEGREES.to_vec() }));
    cov.insert("pow_bases".into(), json!({"Decimal": pd.len(), "PreciseDecimal": pp.len()}));
    cov.insert("pow_exponents".into(), json!(EXPS.to_vec()));
    cov.insert("seconds_roots".into(), json!(t_roots));
    cov.insert("seconds_big_degree_roots".into(), json!(t_big - t_roots));
    ctx.finish(
        Level::Exploration,
        "a case = one (type, operation, value, degree or exponent) evaluated on the real code and verified in BigInt arithmetic; roots: (L(T) ∪ perfect powers ±1 raw) × {sqrt, cbrt, nth_root × degree alphabet}; powers: (L(T) ∪ small integers, 2^j, 2^-j, 5^-j, near-one, n-th roots of MAX ±1) × exponent alphabet; non-trivial = every case except degree 1, root of zero, 0^0 and 0^negative",
        nontrivial,
        true,
        cov,
        &[
            "nth_root with a degree near u32::MAX is only run on inputs answered without forming 10^(s(n-1)) (zero; negative value with even degree): on any other input the code materialises a number of ~60·n bits (n = u32::MAX: ~32 GB) and the BigInt Newton iteration needs ~n·ln2 steps (degree 65537 did not finish within an hour on one value), which would take the harness down; reported as an observation, not decided here",
            "for |exponent| > 1024 the exact power is enclosed by directed rounding at 120 extra digits; a result inside the enclosure width is counted as inconclusive (informational), never as a violation",
            "0^0 and 0^negative carry no demand (statement silent), except that they must not panic",
            "raw values are transported as u64 limbs via from_digits/to_digits",
        ],
    )
}
