//! mc-num: serves C24 C25 C26 C27 C29 C37 (one module per property).
use mc_core::Ctx;

mod c24;
mod c25;
mod c26;
mod c27;
mod c29;
mod c37;
mod numref;

fn main() {
    let ctx = Ctx::from_args();
    match ctx.id.as_str() {
        "C24" => c24::run(ctx),
        "C25" => c25::run(ctx),
        "C26" => c26::run(ctx),
        "C27" => c27::run(ctx),
        "C29" => c29::run(ctx),
        "C37" => c37::run(ctx),
        other => mc_core::machinery_error(&format!("mc-num does not serve {other}")),
    }
}
