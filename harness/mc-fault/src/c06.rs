//! C06 — fees are fully paid and exactly distributed.
//!
//! Bounded-exhaustive exploration of the configuration grid
//!     program × tip specifier × costing parameter set × lock pattern
//! on the real engine (every point restores the same root snapshot, builds its own executable with the
//! tip / free credit in the execution context and the costing parameters as a system override).
//! Lock patterns that depend on the cost are derived per (program, tip, parameters) group: an ample lock
//! teaches the total T, then lock ∈ {T−d, T, T+1 atto, fractions of T, free credit}, then a bisection for
//! the smallest lock that is not rejected (every probe of the bisection is judged like any other point).
//!
//! Oracle (independent of the fee code: BigInt arithmetic on the receipt numbers + a scan of every XRD
//! vault before/after):
//!   * a panic is a violation ("rejected, never committed" — and never a crash);
//!   * Reject/Abort: database unchanged;
//!   * Commit: units ≤ limits; execution = price·units, finalization likewise, tip = ⌊execution·t⌋+⌊finalization·t⌋,
//!     royalties = the configured package + component royalty of the probe (0 on failure);
//!     total = execution+finalization+tip+storage+royalties = proposer+validator set+burn+royalties with
//!     proposer = ⌊tip·100%⌋+⌊network·25%⌋, validator set = ⌊network·25%⌋;
//!     every XRD vault of the ledger: locking vaults decrease by paid_v with 0 ≤ paid_v ≤ locked_v (contingent
//!     locks pay nothing on failure), Σ paid_v + free credit used = total with 0 ≤ credit used ≤ credit,
//!     `fee_source` agrees with the observed decreases, the rewards vault grows by proposer+validator set and
//!     the proposer bookkeeping by proposer, the package / component royalty vaults of the probe grow by
//!     exactly their configured share, every other XRD vault is unchanged (apart from the program's own
//!     declared XRD movement).
use crate::common::*;
use mc_core::{par_range, Ctx, Level, Local};
use mc_ledger::menu::*;
use mc_ledger::*;
use num_bigint::BigInt;
use num_traits::Zero;
use radix_engine::blueprints::package::{PackageField, PackageRoyaltyAccumulatorFieldPayload};
use radix_engine::errors::RuntimeError;
use radix_engine::kernel::kernel_api::{KernelNodeApi, KernelSubstateApi};
use radix_engine::object_modules::royalty::{ComponentRoyaltyAccumulatorFieldPayload, ComponentRoyaltyField};
use radix_engine::system::system_callback::SystemLockData;
use radix_engine::system::system_db_reader::SystemDatabaseReader;
use radix_engine::transaction::CostingParameters;
use radix_engine::vm::{OverridePackageCode, VmApi, VmInvoke};
use radix_engine_interface::api::{AttachedModuleId, SystemApi};
use radix_engine_interface::blueprints::package::PackageDefinition;
use radix_engine_interface::types::PackageRoyaltyConfig;
use radix_native_sdk::modules::metadata::Metadata;
use radix_native_sdk::modules::role_assignment::RoleAssignment;
use radix_native_sdk::modules::royalty::ComponentRoyalty;
use radix_transactions::model::{ExecutableTransaction, ExecutionContext, PreparedTestTransaction, TestTransaction, TipSpecifier, TransactionCostingParameters, AuthZoneInit};
use serde_json::{json, Map, Value};
use std::cell::RefCell;
use std::collections::{BTreeMap, BTreeSet};
use std::str::FromStr;
use std::sync::atomic::{AtomicBool, AtomicU64, Ordering};
use std::sync::Mutex;

// ------------------------------------------------------------------------------------------------
// probe package: one blueprint with a package royalty (XRD) and a component royalty (USD)
// ------------------------------------------------------------------------------------------------

const CODE_ID: u64 = 0xC06;
const BP: &str = "FeeProbe";
const PKG_ROYALTY_XRD: &str = "2";
const COMP_ROYALTY_USD: &str = "3";

#[derive(Clone)]
struct Probe;
impl VmInvoke for Probe {
    fn invoke<Y: SystemApi<RuntimeError> + KernelNodeApi + KernelSubstateApi<SystemLockData>, V: VmApi>(
        &mut self,
        export_name: &str,
        _input: &IndexedScryptoValue,
        api: &mut Y,
        _vm_api: &V,
    ) -> Result<IndexedScryptoValue, RuntimeError> {
        match export_name {
            "new" => {
                let metadata = Metadata::create(api)?;
                let roles = RoleAssignment::create(OwnerRole::None, indexmap!(), api)?;
                let royalty = ComponentRoyalty::create(
                    ComponentRoyaltyConfig { royalty_amounts: indexmap!("paid_method".to_string() => (RoyaltyAmount::Usd(Decimal::from_str(COMP_ROYALTY_USD).unwrap()), false)) },
                    api,
                )?;
                let node = api.new_simple_object(BP, indexmap![])?;
                let address = api.globalize(
                    node,
                    indexmap!(
                        AttachedModuleId::Metadata => metadata.0,
                        AttachedModuleId::RoleAssignment => roles.0.0,
                        AttachedModuleId::Royalty => royalty.0,
                    ),
                    None,
                )?;
                Ok(IndexedScryptoValue::from_typed(&address))
            }
            _ => Ok(IndexedScryptoValue::from_typed(&())),
        }
    }
}

type PSim = Sim<OverridePackageCode<Probe>>;

fn psim_from(snap: &Snap) -> PSim {
    LedgerSimulatorBuilder::new().with_custom_extension(OverridePackageCode::new(CODE_ID, Probe)).without_kernel_trace().build_from_snapshot(snap.clone())
}

thread_local! {
    static WORKER: RefCell<Option<PSim>> = RefCell::new(None);
}

fn with_psim<R>(snap: &Snap, f: impl FnOnce(&mut PSim) -> R) -> R {
    WORKER.with(|cell| {
        let mut slot = cell.borrow_mut();
        match slot.as_mut() {
            Some(sim) => sim.restore_snapshot(snap.clone()),
            None => *slot = Some(psim_from(snap)),
        }
        f(slot.as_mut().unwrap())
    })
}

// ------------------------------------------------------------------------------------------------
// grid
// ------------------------------------------------------------------------------------------------

#[derive(Clone, Copy, Debug, PartialEq, Eq, PartialOrd, Ord, Hash)]
enum Prog {
    NoOp,
    Transfer,
    Mint,
    WasmCall,
    Royalty,
    RoyaltyThenFail,
    Failing,
    /// body of a standard-menu transaction (thorough tier)
    Menu(Tx),
}

impl Prog {
    fn name(&self) -> String {
        match self {
            Prog::Menu(t) => format!("Menu{t:?}"),
            p => format!("{p:?}"),
        }
    }
}

#[derive(Clone, Copy, Debug, PartialEq, Eq, PartialOrd, Ord)]
enum Payer {
    Faucet,
    A,
    B,
}

#[derive(Clone, Debug)]
struct Lock {
    who: Payer,
    amount: Decimal,
    contingent: bool,
}

#[derive(Clone, Debug)]
struct Spec {
    prog: Prog,
    tip: TipSpecifier,
    cp: CostingParameters,
    cp_name: String,
    locks: Vec<Lock>,
    free_credit: Decimal,
    lock_class: String,
}

struct Env {
    snap: Snap,
    db: Db,
    w: World,
    x: Extras,
    pkg: PackageAddress,
    comp: ComponentAddress,
    faucet_vaults: Vec<NodeId>,
    a_vaults: Vec<NodeId>,
    b_vaults: Vec<NodeId>,
    rewards_vault: NodeId,
    pkg_royalty_vault: NodeId,
    comp_royalty_vault: NodeId,
    xrd_before: BTreeMap<NodeId, Decimal>,
    /// bodies of the programs (instructions after the lock prefix) and their signer proofs
    bodies: BTreeMap<Prog, (TransactionManifestV1, Vec<NonFungibleGlobalId>)>,
}

fn d(s: &str) -> Decimal {
    Decimal::from_str(s).unwrap()
}

fn big(x: Decimal) -> BigInt {
    BigInt::from_str(&x.attos().to_string()).unwrap()
}

fn build_env() -> Env {
    let mut sim: PSim = new_sim_with(OverridePackageCode::new(CODE_ID, Probe));
    let w = build_world(&mut sim);
    let x = build_extras(&mut sim, &w, w.f18);
    let mut def = PackageDefinition::new_functions_only_test_definition(BP, vec![("new", "new", false), ("paid_method", "paid_method", true)]);
    def.blueprints.get_mut(BP).unwrap().royalty_config =
        PackageRoyaltyConfig::Enabled(indexmap!("new".to_string() => RoyaltyAmount::Free, "paid_method".to_string() => RoyaltyAmount::Xrd(d(PKG_ROYALTY_XRD))));
    let pkg = sim.publish_native_package(CODE_ID, def);
    let r = sim.execute_manifest(ManifestBuilder::new().lock_fee_from_faucet().call_function(pkg, BP, "new", manifest_args!()).build(), vec![]);
    let comp = r.expect_commit_success().new_component_addresses()[0];
    // vault ids
    let (pkg_royalty_vault, comp_royalty_vault) = {
        let reader = SystemDatabaseReader::new(sim.substate_db());
        let p = reader
            .read_typed_object_field::<PackageRoyaltyAccumulatorFieldPayload>(pkg.as_node_id(), ModuleId::Main, PackageField::RoyaltyAccumulator.field_index())
            .expect("package royalty accumulator")
            .fully_update_and_into_latest_version();
        let c = reader
            .read_typed_object_field::<ComponentRoyaltyAccumulatorFieldPayload>(comp.as_node_id(), ModuleId::Royalty, ComponentRoyaltyField::Accumulator.field_index())
            .expect("component royalty accumulator")
            .fully_update_and_into_latest_version();
        (*p.royalty_vault.0.as_node_id(), *c.royalty_vault.0.as_node_id())
    };
    let faucet_vaults = sim.get_component_vaults(FAUCET, XRD);
    let a_vaults = sim.get_component_vaults(w.a.addr, XRD);
    let b_vaults = sim.get_component_vaults(w.b.addr, XRD);
    let db = sim.substate_db().clone();
    let rewards_vault = read_rewards(&db).expect("rewards").rewards_vault.0 .0;
    let xrd_before = scan_totals(&db).expect("scan").get(&XRD).map(|t| t.vaults.clone()).unwrap_or_default();
    // program bodies
    let a = w.a.addr;
    let b = w.b.addr;
    let both = vec![w.a.sig.clone(), w.b.sig.clone()];
    let mut bodies = BTreeMap::new();
    let nb = || ManifestBuilder::new();
    bodies.insert(Prog::NoOp, (nb().build(), both.clone()));
    bodies.insert(Prog::Transfer, (nb().withdraw_from_account(a, w.f18, dec!(1)).try_deposit_entire_worktop_or_abort(b, None).build(), both.clone()));
    bodies.insert(Prog::Mint, (nb().mint_fungible(w.f18, dec!(1)).try_deposit_entire_worktop_or_abort(a, None).build(), both.clone()));
    bodies.insert(Prog::WasmCall, (nb().get_free_xrd_from_faucet().try_deposit_entire_worktop_or_abort(a, None).build(), both.clone()));
    bodies.insert(Prog::Royalty, (nb().call_method(comp, "paid_method", manifest_args!()).build(), both.clone()));
    bodies.insert(Prog::RoyaltyThenFail, (nb().call_method(comp, "paid_method", manifest_args!()).assert_worktop_contains(w.f18, dec!(1)).build(), both.clone()));
    bodies.insert(
        Prog::Failing,
        (nb().withdraw_from_account(a, w.f18, dec!(1)).assert_worktop_contains(w.f18, dec!(2)).try_deposit_entire_worktop_or_abort(b, None).build(), both.clone()),
    );
    for t in STD_MENU {
        // menu bodies without XRD movement of their own and without their own lock pattern
        if matches!(t, Tx::NextRound | Tx::ContingentFail | Tx::ContingentOk | Tx::Faucet | Tx::Stake | Tx::Unstake | Tx::Claim) {
            continue;
        }
        if let Built::Manifest(m, _p) = build_tx(&mut sim, &w, &x, *t) {
            let mut m = m;
            m.instructions.retain(|i| !matches!(i, InstructionV1::CallMethod(cm) if cm.method_name.starts_with("lock_")));
            bodies.insert(Prog::Menu(*t), (m, both.clone()));
        }
    }
    Env { snap: sim.create_snapshot(), db, w, x, pkg, comp, faucet_vaults, a_vaults, b_vaults, rewards_vault, pkg_royalty_vault, comp_royalty_vault, xrd_before, bodies }
}

impl Env {
    fn payer_addr(&self, p: Payer) -> ComponentAddress {
        match p {
            Payer::Faucet => FAUCET,
            Payer::A => self.w.a.addr,
            Payer::B => self.w.b.addr,
        }
    }
    fn payer_vaults(&self, p: Payer) -> &Vec<NodeId> {
        match p {
            Payer::Faucet => &self.faucet_vaults,
            Payer::A => &self.a_vaults,
            Payer::B => &self.b_vaults,
        }
    }
    fn manifest(&self, spec: &Spec) -> (TransactionManifestV1, Vec<NonFungibleGlobalId>) {
        let mut b = ManifestBuilder::new();
        for l in &spec.locks {
            b = if l.contingent { b.lock_contingent_fee(self.payer_addr(l.who), l.amount) } else { b.lock_fee(self.payer_addr(l.who), l.amount) };
        }
        let mut m = b.build();
        let (body, proofs) = &self.bodies[&spec.prog];
        m.instructions.extend(body.instructions.iter().cloned());
        for (h, blob) in &body.blobs {
            m.blobs.insert(*h, blob.clone());
        }
        (m, proofs.clone())
    }
    /// XRD movement of the program itself (successful execution only): vault -> delta
    fn program_xrd_movement(&self, prog: Prog) -> BTreeMap<NodeId, Decimal> {
        let mut m = BTreeMap::new();
        if prog == Prog::WasmCall {
            m.insert(self.faucet_vaults[0], d("-10000"));
            m.insert(self.a_vaults[0], d("10000"));
        }
        m
    }
}

fn tips(thorough: bool) -> Vec<TipSpecifier> {
    use TipSpecifier::*;
    if !thorough {
        vec![None, Percentage(1), Percentage(33), Percentage(65535), BasisPoints(1), BasisPoints(3333), BasisPoints(1_000_000)]
    } else {
        vec![
            None,
            Percentage(1),
            Percentage(2),
            Percentage(33),
            Percentage(99),
            Percentage(100),
            Percentage(101),
            Percentage(65535),
            BasisPoints(1),
            BasisPoints(2),
            BasisPoints(3333),
            BasisPoints(9999),
            BasisPoints(10000),
            BasisPoints(10001),
            BasisPoints(1_000_000),
        ]
    }
}

fn tip_name(t: &TipSpecifier) -> String {
    match t {
        TipSpecifier::None => "none".into(),
        TipSpecifier::Percentage(p) => format!("{p}%"),
        TipSpecifier::BasisPoints(b) => format!("{b}bp"),
    }
}

/// tip as an exact rational
fn tip_ratio(t: &TipSpecifier) -> (BigInt, BigInt) {
    match t {
        TipSpecifier::None => (BigInt::zero(), BigInt::from(1)),
        TipSpecifier::Percentage(p) => (BigInt::from(*p), BigInt::from(100)),
        TipSpecifier::BasisPoints(b) => (BigInt::from(*b), BigInt::from(10000)),
    }
}

fn costing_sets(thorough: bool) -> Vec<(String, CostingParameters)> {
    let main = CostingParameters::babylon_genesis();
    let mut out = vec![("mainnet".to_string(), main)];
    let prices: Vec<&str> = if !thorough {
        vec!["0", "0.000000000000000001", "0.000000000000000003", "0.0000000000000007", "0.00000005", "1"]
    } else {
        vec![
            "0",
            "0.000000000000000001",
            "0.000000000000000003",
            "0.000000000000000011",
            "0.0000000000000007",
            "0.000000000000009999",
            "0.00000000000001",
            "0.000000000000010001",
            "0.00000005",
            "0.000000050000000001",
            "1",
        ]
    };
    for p in &prices {
        for zero_aux in [false, true] {
            let mut c = main;
            c.execution_cost_unit_price = d(p);
            c.finalization_cost_unit_price = d(p);
            if zero_aux {
                c.usd_price = Decimal::ZERO;
                c.state_storage_price = Decimal::ZERO;
                c.archive_storage_price = Decimal::ZERO;
            }
            out.push((format!("price={p}{}", if zero_aux { ",usd=0,storage=0" } else { "" }), c));
        }
    }
    // execution and finalization priced differently (tells the two apart)
    let mut c = main;
    c.execution_cost_unit_price = d("0.0000000000000007");
    c.finalization_cost_unit_price = d("0.000000000000000003");
    out.push(("exec=7e-16,fin=3e-18".into(), c));
    if thorough {
        let mut c = main;
        c.execution_cost_unit_price = d("0.00000005");
        c.finalization_cost_unit_price = d("0.000000000000000001");
        out.push(("exec=5e-8,fin=1e-18".into(), c));
        let mut c = main;
        c.execution_cost_unit_price = d("0.000000000000000001");
        c.finalization_cost_unit_price = d("0.00000005");
        out.push(("exec=1e-18,fin=5e-8".into(), c));
    }
    out
}

fn sub_1e14(p: Decimal) -> bool {
    !(big(p) % BigInt::from(10_000)).is_zero()
}

fn price_class(cp: &CostingParameters) -> &'static str {
    if sub_1e14(cp.execution_cost_unit_price) || sub_1e14(cp.finalization_cost_unit_price) {
        "sub-1e-14-price"
    } else {
        "coarse-price"
    }
}

fn tip_class(t: &TipSpecifier) -> &'static str {
    if t.basis_points() == 0 {
        "no-tip"
    } else {
        "tip"
    }
}

fn spec_json(s: &Spec) -> Value {
    json!({
        "program": s.prog.name(),
        "tip": match s.tip { TipSpecifier::None => json!("none"), TipSpecifier::Percentage(p) => json!({"percentage": p}), TipSpecifier::BasisPoints(b) => json!({"basis_points": b}) },
        "costing": {
            "name": s.cp_name,
            "execution_cost_unit_price": s.cp.execution_cost_unit_price.to_string(),
            "finalization_cost_unit_price": s.cp.finalization_cost_unit_price.to_string(),
            "usd_price": s.cp.usd_price.to_string(),
            "state_storage_price": s.cp.state_storage_price.to_string(),
            "archive_storage_price": s.cp.archive_storage_price.to_string(),
            "execution_cost_unit_limit": s.cp.execution_cost_unit_limit,
            "execution_cost_unit_loan": s.cp.execution_cost_unit_loan,
            "finalization_cost_unit_limit": s.cp.finalization_cost_unit_limit,
        },
        "locks": s.locks.iter().map(|l| json!({"payer": format!("{:?}", l.who), "amount": l.amount.to_string(), "contingent": l.contingent})).collect::<Vec<_>>(),
        "free_credit": s.free_credit.to_string(),
        "lock_class": s.lock_class,
    })
}

// ------------------------------------------------------------------------------------------------
// execution + oracle
// ------------------------------------------------------------------------------------------------

fn executable(sim: &mut PSim, env: &Env, spec: &Spec) -> ExecutableTransaction {
    let (manifest, proofs) = env.manifest(spec);
    let nonce = sim.next_transaction_nonce();
    let prepared = TestTransaction::new_v1_from_nonce(manifest, nonce, proofs.into_iter().collect())
        .prepare(sim.transaction_validator().preparation_settings())
        .unwrap_or_else(|e| mc_core::machinery_error(&format!("C06: cannot prepare test transaction: {e:?}")));
    let PreparedTestTransaction::V1(intent) = prepared else { unreachable!() };
    let n_sigs = intent.initial_proofs.len() + 1;
    ExecutableTransaction::new_v1(
        intent.encoded_instructions.clone(),
        AuthZoneInit::proofs(intent.initial_proofs.clone()),
        intent.references.clone(),
        intent.blobs.clone(),
        ExecutionContext {
            unique_hash: intent.hash,
            intent_hash_nullifications: vec![],
            epoch_range: None,
            payload_size: intent.encoded_instructions.len() + intent.blobs.values().map(|x| x.len()).sum::<usize>(),
            num_of_signature_validations: n_sigs,
            costing_parameters: TransactionCostingParameters { tip: spec.tip, free_credit_in_xrd: spec.free_credit },
            pre_allocated_addresses: vec![],
            disable_limits_and_costing_modules: false,
            proposer_timestamp_range: None,
        },
    )
}

#[derive(Clone, Debug)]
struct Seen {
    class: String,
    /// Some(total cost) for commits
    total: Option<Decimal>,
    success: bool,
    rejected: bool,
    panicked: bool,
    exec_units: u32,
    fin_units: u32,
}

type Viol = (String, String);

fn mul_floor(x: &BigInt, num: &BigInt, den: &BigInt) -> BigInt {
    (x * num) / den
}

fn judge(env: &Env, spec: &Spec, receipt: &TransactionReceipt, after: &Db) -> Result<Seen, Viol> {
    let suffix = format!("{}:{}:lock={}", price_class(&spec.cp), tip_class(&spec.tip), spec.lock_class);
    let v = |kind: &str, what: String| -> Viol { (format!("{kind}:{suffix}"), what) };
    let class = receipt_class(receipt);
    let fs = &receipt.fee_summary;
    let mut seen = Seen { class, total: None, success: false, rejected: false, panicked: false, exec_units: fs.total_execution_cost_units_consumed, fin_units: fs.total_finalization_cost_units_consumed };
    let c = match &receipt.result {
        TransactionResult::Reject(_) | TransactionResult::Abort(_) => {
            if after != &env.db {
                return Err(v("rejected-changed-database", "a rejected transaction changed the database".into()));
            }
            seen.rejected = true;
            return Ok(seen);
        }
        TransactionResult::Commit(c) => c,
    };
    let success = matches!(c.outcome, TransactionOutcome::Success(_));
    seen.success = success;
    // configuration echoed by the receipt
    if receipt.costing_parameters != spec.cp {
        return Err(v("receipt-costing-parameters", format!("receipt reports {:?}", receipt.costing_parameters)));
    }
    // ---- limits
    if fs.total_execution_cost_units_consumed > spec.cp.execution_cost_unit_limit {
        return Err(v("execution-units-over-limit", format!("{} > {}", fs.total_execution_cost_units_consumed, spec.cp.execution_cost_unit_limit)));
    }
    if fs.total_finalization_cost_units_consumed > spec.cp.finalization_cost_unit_limit {
        return Err(v("finalization-units-over-limit", format!("{} > {}", fs.total_finalization_cost_units_consumed, spec.cp.finalization_cost_unit_limit)));
    }
    // ---- summary arithmetic (attos, BigInt)
    let one = BigInt::from(10u8).pow(18);
    let exec = big(spec.cp.execution_cost_unit_price) * BigInt::from(fs.total_execution_cost_units_consumed);
    let fin = big(spec.cp.finalization_cost_unit_price) * BigInt::from(fs.total_finalization_cost_units_consumed);
    if big(fs.total_execution_cost_in_xrd) != exec {
        return Err(v("execution-cost", format!("reported {} for {} units at {}", fs.total_execution_cost_in_xrd, fs.total_execution_cost_units_consumed, spec.cp.execution_cost_unit_price)));
    }
    if big(fs.total_finalization_cost_in_xrd) != fin {
        return Err(v("finalization-cost", format!("reported {} for {} units at {}", fs.total_finalization_cost_in_xrd, fs.total_finalization_cost_units_consumed, spec.cp.finalization_cost_unit_price)));
    }
    let (tn, td) = tip_ratio(&spec.tip);
    let tip_ref = mul_floor(&exec, &tn, &td) + mul_floor(&fin, &tn, &td);
    if big(fs.total_tipping_cost_in_xrd) != tip_ref {
        return Err(v("tip-cost", format!("reported tip {} but floor(exec*t)+floor(fin*t) = {} attos", fs.total_tipping_cost_in_xrd, tip_ref)));
    }
    let storage = big(fs.total_storage_cost_in_xrd);
    if spec.cp.state_storage_price.is_zero() && spec.cp.archive_storage_price.is_zero() && !storage.is_zero() {
        return Err(v("storage-cost", format!("storage cost {} with zero storage prices", fs.total_storage_cost_in_xrd)));
    }
    if storage < BigInt::zero() {
        return Err(v("storage-cost", "negative storage cost".into()));
    }
    // royalties: configured amounts of the probe
    let charges_royalty = matches!(spec.prog, Prog::Royalty | Prog::RoyaltyThenFail) && success;
    let pkg_share = if charges_royalty { big(d(PKG_ROYALTY_XRD)) } else { BigInt::zero() };
    let comp_share = if charges_royalty { (big(d(COMP_ROYALTY_USD)) * big(spec.cp.usd_price)) / &one } else { BigInt::zero() };
    let royalty_ref = &pkg_share + &comp_share;
    if big(fs.total_royalty_cost_in_xrd) != royalty_ref {
        return Err(v("royalty-cost", format!("reported royalties {} but configured package+component royalty = {} attos (success={success})", fs.total_royalty_cost_in_xrd, royalty_ref)));
    }
    let total = &exec + &fin + &tip_ref + &storage + &royalty_ref;
    let total_dec = fs.total_execution_cost_in_xrd + fs.total_finalization_cost_in_xrd + fs.total_tipping_cost_in_xrd + fs.total_storage_cost_in_xrd + fs.total_royalty_cost_in_xrd;
    seen.total = Some(total_dec);
    // ---- distribution
    let fd = &c.fee_destination;
    let network = &exec + &fin + &storage;
    let proposer_ref = mul_floor(&tip_ref, &BigInt::from(100), &BigInt::from(100)) + mul_floor(&network, &BigInt::from(25), &BigInt::from(100));
    let vset_ref = mul_floor(&network, &BigInt::from(25), &BigInt::from(100));
    let roy_dest: BigInt = fd.to_royalty_recipients.values().map(|x| big(*x)).sum();
    if big(fd.to_proposer) + big(fd.to_validator_set) + big(fd.to_burn) + &roy_dest != total {
        return Err(v(
            "split-sum",
            format!("proposer {} + validator set {} + burn {} + royalties {} attos != total {} attos", fd.to_proposer, fd.to_validator_set, fd.to_burn, roy_dest, total),
        ));
    }
    if big(fd.to_proposer) != proposer_ref || big(fd.to_validator_set) != vset_ref {
        return Err(v("split-shares", format!("proposer {} / validator set {} but reference {} / {} attos", fd.to_proposer, fd.to_validator_set, proposer_ref, vset_ref)));
    }
    if big(fd.to_burn) < BigInt::zero() {
        return Err(v("split-negative-burn", format!("burn {}", fd.to_burn)));
    }
    for (rcp, amt) in &fd.to_royalty_recipients {
        use radix_engine::system::system_modules::costing::RoyaltyRecipient;
        let (ok, expect) = match rcp {
            RoyaltyRecipient::Package(p, vault) => (*p == env.pkg && *vault == env.pkg_royalty_vault, &pkg_share),
            RoyaltyRecipient::Component(cm, vault) => (*cm == env.comp && *vault == env.comp_royalty_vault, &comp_share),
        };
        if !ok || &big(*amt) != expect {
            return Err(v("royalty-recipient", format!("royalty recipient {rcp:?} gets {amt}, configured share {expect} attos")));
        }
    }
    // ---- physical movement of XRD: every XRD vault of the ledger, before/after
    let after_vaults = scan_totals(after).map_err(|e| v("scan-failed", e))?.get(&XRD).map(|t| t.vaults.clone()).unwrap_or_default();
    let mut locked: BTreeMap<NodeId, Decimal> = BTreeMap::new();
    let mut non_contingent: BTreeSet<NodeId> = BTreeSet::new();
    for l in &spec.locks {
        let vault = env.payer_vaults(l.who)[0];
        let e = locked.entry(vault).or_insert(Decimal::ZERO);
        *e = e.checked_add(l.amount).unwrap();
        if !l.contingent {
            non_contingent.insert(vault);
        }
    }
    let movement = if success { env.program_xrd_movement(spec.prog) } else { BTreeMap::new() };
    let all: BTreeSet<NodeId> = env.xrd_before.keys().chain(after_vaults.keys()).copied().collect();
    let mut paid_sum = BigInt::zero();
    for vault in all {
        let before = env.xrd_before.get(&vault).copied().unwrap_or(Decimal::ZERO);
        let now = after_vaults.get(&vault).copied().unwrap_or(Decimal::ZERO);
        let delta = big(now) - big(before);
        let own = movement.get(&vault).map(|x| big(*x)).unwrap_or_else(BigInt::zero);
        if let Some(lk) = locked.get(&vault) {
            let paid = &own - &delta;
            if paid < BigInt::zero() {
                return Err(v("locking-vault-gained", format!("vault {} gained {} attos beyond the program's own movement", mc_core::hex(&vault.0), -paid)));
            }
            if paid > big(*lk) {
                return Err(v("paid-more-than-locked", format!("vault {} paid {} attos, locked {}", mc_core::hex(&vault.0), paid, lk)));
            }
            if !success && !non_contingent.contains(&vault) && !paid.is_zero() {
                return Err(v("contingent-fee-taken-on-failure", format!("contingently locked vault {} paid {} attos in a failed commit", mc_core::hex(&vault.0), paid)));
            }
            let reported = c.fee_source.paying_vaults.get(&vault).map(|x| big(*x)).unwrap_or_else(BigInt::zero);
            if reported != paid {
                return Err(v("fee-source-mismatch", format!("vault {} decreased by {} attos, fee_source says {} attos", mc_core::hex(&vault.0), paid, reported)));
            }
            paid_sum += paid;
        } else {
            let expect = if vault == env.rewards_vault {
                big(fd.to_proposer) + big(fd.to_validator_set)
            } else if vault == env.pkg_royalty_vault {
                pkg_share.clone()
            } else if vault == env.comp_royalty_vault {
                comp_share.clone()
            } else {
                own
            };
            if delta != expect {
                let which = if vault == env.rewards_vault {
                    "rewards-vault"
                } else if vault == env.pkg_royalty_vault {
                    "package-royalty-vault"
                } else if vault == env.comp_royalty_vault {
                    "component-royalty-vault"
                } else {
                    "other-xrd-vault"
                };
                return Err(v(&format!("{which}-delta"), format!("XRD vault {} changed by {} attos, expected {} attos", mc_core::hex(&vault.0), delta, expect)));
            }
        }
    }
    for vault in c.fee_source.paying_vaults.keys() {
        if !locked.contains_key(vault) {
            return Err(v("payer-not-a-locker", format!("fee_source names vault {} which no lock call targets", mc_core::hex(&vault.0))));
        }
    }
    let credit_used = &total - &paid_sum;
    if credit_used < BigInt::zero() {
        return Err(v("overpaid", format!("locking vaults paid {} attos, total cost {} attos", paid_sum, total)));
    }
    if credit_used > big(spec.free_credit) {
        return Err(v(
            "underpaid",
            format!("locking vaults paid {} attos + free credit {} < total cost {} attos (committed without covering its cost)", paid_sum, spec.free_credit, total),
        ));
    }
    // proposer bookkeeping
    let rb = read_rewards(&env.db).map_err(|e| v("decode", e))?;
    let ra = read_rewards(after).map_err(|e| v("decode", e))?;
    if rb.rewards_vault != ra.rewards_vault {
        return Err(v("rewards-vault-replaced", "rewards vault reference changed".into()));
    }
    let mut grown = BigInt::zero();
    let keys: BTreeSet<_> = rb.proposer_rewards.keys().chain(ra.proposer_rewards.keys()).copied().collect();
    for k in keys {
        grown += big(ra.proposer_rewards.get(&k).copied().unwrap_or(Decimal::ZERO)) - big(rb.proposer_rewards.get(&k).copied().unwrap_or(Decimal::ZERO));
    }
    if grown != big(fd.to_proposer) {
        return Err(v("proposer-bookkeeping", format!("proposer rewards grew by {} attos, to_proposer = {}", grown, fd.to_proposer)));
    }
    Ok(seen)
}

struct Sink {
    /// (order key, violation key, what, case)
    violations: Mutex<Vec<(Vec<u64>, String, String, Value)>>,
    commits: AtomicU64,
    panics: AtomicU64,
}

/// Execute one grid point and judge it.
fn run_spec(env: &Env, spec: &Spec, order: &[u64], l: &mut Local, sink: &Sink) -> Seen {
    l.eval();
    let (res, seen) = with_psim(&env.snap, |sim| {
        let exe = executable(sim, env, spec);
        let cfg = ExecutionConfig::for_test_transaction().update_system_overrides(|o| o.set_costing_parameters(Some(spec.cp)));
        let r = mc_core::catch(|| sim.execute_transaction(exe, cfg));
        match r {
            Err(p) => (Err(p), None),
            Ok(receipt) => {
                let j = judge(env, spec, &receipt, sim.substate_db());
                (Ok(j), Some(receipt_class(&receipt)))
            }
        }
    });
    match res {
        Err(p) => {
            sink.panics.fetch_add(1, Ordering::Relaxed);
            let key = if p.contains("Locked fee does not cover transaction cost") {
                format!("panic-locked-fee-does-not-cover-cost:{}:{}:lock={}", price_class(&spec.cp), tip_class(&spec.tip), spec.lock_class)
            } else {
                format!("panic@{}:{}:{}:lock={}", mc_core::last_panic_location(), price_class(&spec.cp), tip_class(&spec.tip), spec.lock_class)
            };
            l.class(&format!("{}:PANIC", lock_group(&spec.lock_class)));
            sink.violations.lock().unwrap().push((
                order.to_vec(),
                key,
                format!(
                    "{} tip={} {} lock={:?}: engine panicked instead of rejecting/committing: {}",
                    spec.prog.name(),
                    tip_name(&spec.tip),
                    spec.cp_name,
                    spec.locks.iter().map(|l| format!("{:?}:{}{}", l.who, l.amount, if l.contingent { "(contingent)" } else { "" })).collect::<Vec<_>>(),
                    mc_core::truncate(&p, 200)
                ),
                spec_json(spec),
            ));
            Seen { class: "panic".into(), total: None, success: false, rejected: false, panicked: true, exec_units: 0, fin_units: 0 }
        }
        Ok(Ok(s)) => {
            if s.total.is_some() {
                sink.commits.fetch_add(1, Ordering::Relaxed);
            }
            l.class(&format!("{}:{}", lock_group(&spec.lock_class), variant_path(&s.class, 2)));
            s
        }
        Ok(Err((key, what))) => {
            l.class(&format!("{}:VIOLATION", lock_group(&spec.lock_class)));
            sink.violations.lock().unwrap().push((
                order.to_vec(),
                key,
                format!("{} tip={} {} [{}]: {what}", spec.prog.name(), tip_name(&spec.tip), spec.cp_name, seen.unwrap_or_default()),
                spec_json(spec),
            ));
            Seen { class: "violation".into(), total: None, success: false, rejected: false, panicked: false, exec_units: 0, fin_units: 0 }
        }
    }
}

/// coarse label for outcome classes (bisection probes and T−d variants are folded)
fn lock_group(lock_class: &str) -> &str {
    if lock_class.starts_with("bisect") {
        "loan-boundary-search"
    } else if lock_class.starts_with("total-") && lock_class != "total-1atto" && lock_class != "total-fixpoint" {
        "total-minus-d"
    } else if lock_class.starts_with("fraction") {
        "fraction-of-total"
    } else {
        lock_class
    }
}

const BIG_LOCK: &str = "1000000000000";

fn one_lock(amount: Decimal) -> Vec<Lock> {
    vec![Lock { who: Payer::Faucet, amount, contingent: false }]
}

fn atto() -> Decimal {
    Decimal::from_attos(I192::from(1u8))
}

/// All grid points of one (program, tip, costing set) group.
fn run_group(env: &Env, prog: Prog, tip: TipSpecifier, cp_name: &str, cp: CostingParameters, gidx: u64, thorough: bool, with_limits: bool, l: &mut Local, sink: &Sink) {
    let mk = |locks: Vec<Lock>, credit: Decimal, class: &str| Spec { prog, tip, cp, cp_name: cp_name.to_string(), locks, free_credit: credit, lock_class: class.to_string() };
    let mut n = 0u64;
    let mut go = |spec: Spec, l: &mut Local| -> Seen {
        n += 1;
        run_spec(env, &spec, &[gidx, n], l, sink)
    };
    let big_lock = d(BIG_LOCK);
    // 1. ample
    let ample = go(mk(one_lock(big_lock), Decimal::ZERO, "ample"), l);
    // 2. two vaults (A locked second: pays first)
    go(mk(vec![Lock { who: Payer::Faucet, amount: big_lock, contingent: false }, Lock { who: Payer::A, amount: dec!(5), contingent: false }], Decimal::ZERO, "two-vaults"), l);
    // 3. non-contingent + contingent
    go(mk(vec![Lock { who: Payer::Faucet, amount: big_lock, contingent: false }, Lock { who: Payer::B, amount: dec!(5), contingent: true }], Decimal::ZERO, "with-contingent"), l);
    let Some(mut t) = ample.total else {
        l.info("ample-lock-did-not-commit(no boundary runs)");
        return;
    };
    if t.is_zero() {
        l.info("total-cost-zero(no boundary runs)");
        return;
    }
    // the cost can depend on the locked amount itself (the faucet's lock_fee is WASM code doing decimal
    // arithmetic on it): iterate lock := reported total until it is a fixed point, so that the boundary
    // patterns below sit exactly at the cost of the transaction that locks that amount
    for _ in 0..4 {
        let s = go(mk(one_lock(t), Decimal::ZERO, "total-fixpoint"), l);
        match s.total {
            Some(t2) if t2 != t && !t2.is_zero() => t = t2,
            _ => break,
        }
    }
    // 4. boundary
    let mut ds: Vec<(Decimal, String)> = vec![(atto(), "total-1atto".into())];
    if thorough {
        for (x, name) in [(2u64, "2atto"), (10, "10atto"), (1000, "1e3atto"), (1_000_000, "1e6atto"), (1_000_000_000, "1e9atto")] {
            ds.push((Decimal::from_attos(I192::from(x)), format!("total-{name}")));
        }
    }
    for (dd, name) in &ds {
        if let Some(lock) = t.checked_sub(*dd) {
            if !lock.is_negative() {
                go(mk(one_lock(lock), Decimal::ZERO, name), l);
            }
        }
    }
    let at_total = go(mk(one_lock(t), Decimal::ZERO, "total"), l);
    if at_total.total.is_some() && at_total.total != Some(t) {
        l.info("total-differs-between-ample-and-exact-lock");
    }
    if at_total.rejected {
        // seen for the failing royalty program: the royalty that is reverted later still has to be covered when
        // the loan is repaid, so a lock equal to the final (royalty-free) cost is not enough; rejection changes nothing
        l.info(&format!("lock=total rejected ({})", prog.name()));
    }
    go(mk(one_lock(t.checked_add(atto()).unwrap()), Decimal::ZERO, "total+1atto"), l);
    // 5. fractions
    let fracs: Vec<u32> = if thorough { vec![1, 2, 3, 4, 5, 6, 7] } else { vec![4] };
    for j in fracs {
        let lock = t.checked_mul(Decimal::from(j)).unwrap().checked_div(Decimal::from(8u32)).unwrap();
        go(mk(one_lock(lock), Decimal::ZERO, &format!("fraction-{j}/8")), l);
    }
    // 6. free credit: half from the vault, rest from the credit (credit is used last)
    let half = t.checked_div(Decimal::from(2u32)).unwrap();
    go(mk(one_lock(half), t, "free-credit"), l);
    // 7. smallest lock that is not rejected: bisection over [0, T]; every probe is judged
    let mut lo = Decimal::ZERO; // rejected (or assumed: no lock at all cannot repay a positive loan)
    let mut hi = t; // not rejected
    let r0 = go(mk(one_lock(lo), Decimal::ZERO, "bisect"), l);
    if r0.rejected {
        let mut steps = 0;
        while hi.checked_sub(lo).unwrap() > atto() && steps < 200 {
            steps += 1;
            let mid = lo.checked_add(hi).unwrap().checked_div(Decimal::from(2u32)).unwrap();
            let s = go(mk(one_lock(mid), Decimal::ZERO, "bisect"), l);
            if s.rejected {
                lo = mid;
            } else {
                hi = mid;
            }
        }
        l.class("loan-boundary-found");
    } else {
        l.info("zero-lock-not-rejected");
    }
    // 8. unit limits at the boundary (mainnet-like groups only)
    if with_limits && ample.exec_units > 0 {
        for (de, df, name) in [(1u32, 0u32, "exec-limit-1"), (0, 0, "limits-exact"), (0, 1, "fin-limit-1")] {
            let mut c2 = cp;
            c2.execution_cost_unit_limit = ample.exec_units - de;
            c2.finalization_cost_unit_limit = ample.fin_units.saturating_sub(df);
            let mut s = mk(one_lock(big_lock), Decimal::ZERO, name);
            s.cp = c2;
            s.cp_name = format!("{cp_name},exec_limit={},fin_limit={}", c2.execution_cost_unit_limit, c2.finalization_cost_unit_limit);
            go(s, l);
        }
    }
}

pub fn run(ctx: Ctx) -> ! {
    let env = build_env();
    if ctx.replay.is_some() {
        replay(ctx, &env);
    }
    let thorough = !ctx.quick();
    let cap_s = wall_cap_override().unwrap_or(if thorough { 1080.0 } else { 52.0 });
    let mut progs = vec![Prog::NoOp, Prog::Transfer, Prog::Mint, Prog::WasmCall, Prog::Royalty, Prog::RoyaltyThenFail, Prog::Failing];
    if thorough {
        progs.extend(env.bodies.keys().filter(|p| matches!(p, Prog::Menu(_))).copied());
    }
    let tips = tips(thorough);
    let sets = costing_sets(thorough);
    // groups ordered simplest first (program, tip, costing set): the order index decides which violation of a
    // class is reported (the minimal one), independent of thread scheduling
    let mut groups: Vec<(Prog, TipSpecifier, usize)> = vec![];
    for p in &progs {
        for t in &tips {
            for (ci, _) in sets.iter().enumerate() {
                groups.push((*p, *t, ci));
            }
        }
    }
    let sink = Sink { violations: Mutex::new(vec![]), commits: AtomicU64::new(0), panics: AtomicU64::new(0) };
    let capped = AtomicBool::new(false);
    let groups_done = AtomicU64::new(0);
    par_range(&ctx, groups.len() as u64, 1, |g, l| {
        if ctx.elapsed_s() > cap_s {
            capped.store(true, Ordering::Relaxed);
            return;
        }
        let (p, t, ci) = groups[g as usize];
        let (name, cp) = &sets[ci];
        let with_limits = name == "mainnet";
        run_group(&env, p, t, name, *cp, g, thorough, with_limits, l, &sink);
        groups_done.fetch_add(1, Ordering::Relaxed);
        if g % 97 == 0 {
            l.sample(|| json!({"program": p.name(), "tip": tip_name(&t), "costing": name}));
        }
    });
    let mut vs = sink.violations.into_inner().unwrap();
    vs.sort_by(|a, b| a.0.cmp(&b.0));
    let total_violations = vs.len();
    for (_o, key, what, case) in vs {
        ctx.violation(key, what, case);
    }
    let capped = capped.load(Ordering::Relaxed);
    let mut cov = Map::new();
    cov.insert("program_names".into(), json!(progs.iter().map(|p| p.name()).collect::<Vec<_>>()));
    cov.insert("programs".into(), json!(progs.len()));
    cov.insert("tips".into(), json!(tips.iter().map(tip_name).collect::<Vec<_>>()));
    cov.insert("costing_sets".into(), json!(sets.iter().map(|s| s.0.clone()).collect::<Vec<_>>()));
    cov.insert("groups".into(), json!(groups.len()));
    cov.insert("groups_done".into(), json!(groups_done.load(Ordering::Relaxed)));
    cov.insert("commits_fully_checked".into(), json!(sink.commits.load(Ordering::Relaxed)));
    cov.insert("panics".into(), json!(sink.panics.load(Ordering::Relaxed)));
    cov.insert("violating_grid_points".into(), json!(total_violations));
    cov.insert("caps_hit".into(), json!(capped));
    cov.insert("probe_royalties".into(), json!({"package_xrd": PKG_ROYALTY_XRD, "component_usd": COMP_ROYALTY_USD}));
    let nontrivial = sink.commits.load(Ordering::Relaxed);
    if nontrivial == 0 {
        mc_core::machinery_error("C06: the wall cap was hit before any grid point committed (overloaded machine?): nothing to report");
    }
    ctx.finish(
        Level::Exploration,
        "a case is one grid point (program, tip specifier, costing parameter set, lock pattern incl. every probe of the loan-boundary bisection) executed on the real engine from the same root snapshot; non-trivial = grid points that committed and went through the complete fee identity oracle (receipt arithmetic in BigInt + before/after scan of every XRD vault)",
        nontrivial,
        !capped,
        cov,
        &[
            "prices/tips are a boundary lattice, not all values; storage cost is taken from the receipt (no independent byte count), only its zero case is predicted",
            "shares (tips 100% proposer; network fees 25% proposer, 25% validator set, rest burnt) and the tip formula are the reference semantics of DESIGN Appendix A.3",
            "payer with an ample balance is the faucet component (10^17 XRD at genesis); A and B are the second / contingent payers",
            "test transactions are built directly as executables (tip and free credit in the execution context), so transaction validation limits on the tip are not in the loop",
        ],
    )
}

fn replay(ctx: Ctx, env: &Env) -> ! {
    let case = ctx.read_replay_case().unwrap();
    let prog = env.bodies.keys().copied().find(|p| Some(p.name().as_str()) == case["program"].as_str()).unwrap_or_else(|| mc_core::machinery_error("replay: unknown program"));
    let tip = if let Some(p) = case["tip"].get("percentage").and_then(|x| x.as_u64()) {
        TipSpecifier::Percentage(p as u16)
    } else if let Some(b) = case["tip"].get("basis_points").and_then(|x| x.as_u64()) {
        TipSpecifier::BasisPoints(b as u32)
    } else {
        TipSpecifier::None
    };
    let cj = &case["costing"];
    let ds = |k: &str| d(cj[k].as_str().unwrap_or("0"));
    let mut cp = CostingParameters::babylon_genesis();
    cp.execution_cost_unit_price = ds("execution_cost_unit_price");
    cp.finalization_cost_unit_price = ds("finalization_cost_unit_price");
    cp.usd_price = ds("usd_price");
    cp.state_storage_price = ds("state_storage_price");
    cp.archive_storage_price = ds("archive_storage_price");
    cp.execution_cost_unit_limit = cj["execution_cost_unit_limit"].as_u64().unwrap_or(cp.execution_cost_unit_limit as u64) as u32;
    cp.execution_cost_unit_loan = cj["execution_cost_unit_loan"].as_u64().unwrap_or(cp.execution_cost_unit_loan as u64) as u32;
    cp.finalization_cost_unit_limit = cj["finalization_cost_unit_limit"].as_u64().unwrap_or(cp.finalization_cost_unit_limit as u64) as u32;
    let locks: Vec<Lock> = case["locks"]
        .as_array()
        .map(|a| {
            a.iter()
                .map(|x| Lock {
                    who: match x["payer"].as_str() {
                        Some("A") => Payer::A,
                        Some("B") => Payer::B,
                        _ => Payer::Faucet,
                    },
                    amount: d(x["amount"].as_str().unwrap_or("0")),
                    contingent: x["contingent"].as_bool().unwrap_or(false),
                })
                .collect()
        })
        .unwrap_or_default();
    let spec = Spec {
        prog,
        tip,
        cp,
        cp_name: cj["name"].as_str().unwrap_or("").to_string(),
        locks,
        free_credit: d(case["free_credit"].as_str().unwrap_or("0")),
        lock_class: case["lock_class"].as_str().unwrap_or("replay").to_string(),
    };
    let sink = Sink { violations: Mutex::new(vec![]), commits: AtomicU64::new(0), panics: AtomicU64::new(0) };
    let mut l = Local::new();
    let seen = run_spec(env, &spec, &[0], &mut l, &sink);
    println!("replayed {}: observed {:?}", serde_json::to_string(&spec_json(&spec)).unwrap(), seen);
    for (_o, key, what, case) in sink.violations.into_inner().unwrap() {
        println!("observed violation: {key} :: {what}");
        l.violation(key, what, case);
    }
    ctx.merge(l);
    ctx.finish(Level::Exploration, "replay", 1, false, Map::new(), &[])
}
