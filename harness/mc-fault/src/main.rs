//! mc-fault: serves C02 C06 (one module per property).
use mc_core::Ctx;

mod common;
mod c02;
mod c06;

fn main() {
    let ctx = Ctx::from_args();
    match ctx.id.as_str() {
        "C02" => c02::run(ctx),
        "C06" => c06::run(ctx),
        other => mc_core::machinery_error(&format!("mc-fault does not serve {other}")),
    }
}
