//! C02 — failed, rejected and aborted transactions change nothing but fees.
//!
//! Fault enumeration. A *subject* is a (state, transaction) pair: the state is reached from the root
//! world by a history of menu transactions (depth 0/1/2), the transaction is one of the standard menu
//! or one of the fee-locking variants below. For every subject:
//!   1. the un-faulted run (4 menu transactions fail intrinsically: they are checked as they are);
//!   2. the abort variant (`abort_when_loan_repaid`);
//!   3. `execute_manifest_with_injected_error(manifest, proofs, k)` for every k = 1..=N (+ a window past
//!      N that must reproduce the un-faulted receipt), N = number of positions at which the cost hook
//!      fires (full sweep), or the strided subset {k ≤ edge} ∪ {k > N − edge} ∪ {k ≡ 0 mod stride}.
//!
//! Oracle (derived from the property statement, not from `Track::revert_non_force_write_changes`):
//!   * Reject / Abort: the database after the run is equal (raw, whole) to the parent database.
//!   * Commit(Failure): the raw whole-database diff parent→child is a subset of
//!       { balance field of an XRD vault owned by a component on which the *manifest* calls a
//!         lock-fee method; ConsensusManager.ValidatorRewards field; balance of the rewards vault named
//!         by that field in the parent; TransactionTracker field; whole-partition deletes of the
//!         tracker (ring rotation); tracker entries of this transaction's own intent hashes }.
//!     Fee vaults never increase, decrease by exactly the receipt's `fee_source` amount, a vault that
//!     was only locked contingently is unchanged; rewards vault increases by to_proposer +
//!     to_validator_set; the rewards bookkeeping changes only proposer entries, by to_proposer in
//!     total; events ⊆ {LockFeeEvent, PayFeeEvent on fee vaults; DepositEvent on the rewards vault;
//!     BurnFungibleResourceEvent on XRD}. Then the resource invariants (independent scan: supply = Σ
//!     vaults, no negative vault, NF index) on every failed commit, and the engine's own
//!     kernel/system/role-assignment/royalty checkers on one representative (minimal k) per distinct
//!     diff shape of every subject.
//!   * A faulted run that still commits successfully (the injected error was absorbed) is outside the
//!     statement: counted as informational.
use crate::common::*;
use mc_core::{par_map, par_range, Ctx, Level, Local};
use mc_ledger::menu::*;
use mc_ledger::*;
use radix_engine::blueprints::consensus_manager::ConsensusManagerField;
use radix_engine::blueprints::resource::FungibleVaultField;
use radix_substate_store_interface::db_key_mapper::{DatabaseKeyMapper, SpreadPrefixKeyMapper};
use serde_json::{json, Map, Value};
use std::collections::{BTreeMap, BTreeSet};
use std::sync::atomic::{AtomicBool, AtomicU64, Ordering};
use std::sync::Mutex;

/// Fee-locking variants on top of the standard menu (the menu locks from the faucet except for the two
/// contingent entries): they exercise a force-written vault that is modified again afterwards, two locks
/// on one vault, the combined lock+withdraw method and two different payers.
#[derive(Clone, Copy, Debug, PartialEq, Eq, PartialOrd, Ord, Hash)]
pub enum Extra {
    LockAThenSpendXrd,
    LockTwiceA,
    LockFeeAndWithdrawA,
    FaucetAndALock,
}
pub const EXTRAS: &[Extra] = &[Extra::LockAThenSpendXrd, Extra::LockTwiceA, Extra::LockFeeAndWithdrawA, Extra::FaucetAndALock];

#[derive(Clone, Copy, Debug, PartialEq, Eq, PartialOrd, Ord, Hash)]
pub enum Op {
    Menu(Tx),
    Extra(Extra),
}

impl Op {
    fn name(&self) -> String {
        match self {
            Op::Menu(t) => format!("{t:?}"),
            Op::Extra(e) => format!("{e:?}"),
        }
    }
    fn parse(s: &str) -> Option<Op> {
        all_ops().into_iter().chain(std::iter::once(Op::Menu(Tx::NextRound))).find(|o| o.name() == s)
    }
}

/// transactions that are fault-injected (NextRound is a system transaction: costing is disabled for it, so
/// there is no cost hook to fail and the public injection entry point does not accept it; it is still
/// used to reach states)
fn all_ops() -> Vec<Op> {
    STD_MENU.iter().filter(|t| **t != Tx::NextRound).map(|t| Op::Menu(*t)).chain(EXTRAS.iter().map(|e| Op::Extra(*e))).collect()
}

fn build_op(sim: &mut Sim, w: &World, x: &Extras, op: Op) -> Option<(TransactionManifestV1, Vec<NonFungibleGlobalId>)> {
    let a = w.a.addr;
    let b = w.b.addr;
    let sa = vec![w.a.sig.clone()];
    match op {
        Op::Menu(t) => match build_tx(sim, w, x, t) {
            Built::Manifest(m, p) => Some((m, p)),
            Built::Round => None,
        },
        Op::Extra(Extra::LockAThenSpendXrd) => {
            Some((ManifestBuilder::new().lock_fee(a, dec!(10)).withdraw_from_account(a, XRD, dec!(3)).try_deposit_entire_worktop_or_abort(b, None).build(), sa))
        }
        Op::Extra(Extra::LockTwiceA) => Some((
            ManifestBuilder::new().lock_fee(a, dec!(5)).lock_fee(a, dec!(5)).withdraw_from_account(a, w.f18, dec!(1)).try_deposit_entire_worktop_or_abort(b, None).build(),
            sa,
        )),
        Op::Extra(Extra::LockFeeAndWithdrawA) => {
            Some((ManifestBuilder::new().lock_fee_and_withdraw(a, dec!(10), w.f18, dec!(1)).try_deposit_entire_worktop_or_abort(b, None).build(), sa))
        }
        Op::Extra(Extra::FaucetAndALock) => Some((
            ManifestBuilder::new().lock_fee_from_faucet().lock_fee(a, dec!(1)).withdraw_from_account(a, w.f18, dec!(1)).try_deposit_entire_worktop_or_abort(b, None).build(),
            sa,
        )),
    }
}

/// Components on which the manifest calls a fee-locking method: (component, contingent?).
fn lockers_of(m: &TransactionManifestV1) -> Vec<(ComponentAddress, bool)> {
    let mut out = vec![];
    for i in &m.instructions {
        if let InstructionV1::CallMethod(cm) = i {
            let contingent = match cm.method_name.as_str() {
                "lock_fee" | "lock_fee_and_withdraw" | "lock_fee_and_withdraw_non_fungibles" => false,
                "lock_contingent_fee" => true,
                _ => continue,
            };
            if let ManifestGlobalAddress::Static(g) = &cm.address {
                if let Ok(c) = ComponentAddress::try_from(*g) {
                    out.push((c, contingent));
                }
            }
        }
    }
    out
}

struct State {
    history: Vec<Op>,
    depth: usize,
    snap: Snap,
    db: Db,
    rewards_vault: NodeId,
}

struct Subject {
    state: usize,
    op: Op,
    manifest: TransactionManifestV1,
    proofs: Vec<NonFungibleGlobalId>,
    /// XRD vaults of the components the manifest locks fees on
    fee_vaults: BTreeSet<NodeId>,
    /// subset locked only contingently
    contingent_only: BTreeSet<NodeId>,
    base_digest: Hash,
    base_class: String,
    /// last k whose receipt differs from the un-faulted one (= number of cost-hook positions)
    n: u64,
    /// lower bound for n: execution-cost applications of the un-faulted run (debug breakdown)
    n_lower: u64,
    /// the transaction is executed as an executable that carries a real transaction-intent nullification
    /// (replay-protection record); the tracker entry of that intent hash is then part of the allowed set
    intent: bool,
    /// sort key of the tracker entry of this subject's own intent hash (intent subjects only)
    own_key: Option<DbSortKey>,
}

impl Subject {
    fn label(&self) -> String {
        if self.intent {
            format!("{}+intent", self.op.name())
        } else {
            self.op.name()
        }
    }
}

thread_local! {
    static VM: VmModules<DefaultWasmEngine, NoExtension> = VmModules::default_with_extension(NoExtension);
}

fn intent_hash_of(exe_hash: &Hash) -> Hash {
    *exe_hash
}

/// Executable with a real intent-hash nullification (what a notarized transaction carries), same instructions.
fn intent_executable(sim: &mut Sim, sj: &Subject) -> ExecutableTransaction {
    use radix_transactions::model::{AuthZoneInit, EpochRange, ExecutionContext, IntentHashNullification, PreparedTestTransaction, TestTransaction, TipSpecifier, TransactionCostingParameters};
    let nonce = sim.next_transaction_nonce();
    let prepared = TestTransaction::new_v1_from_nonce(sj.manifest.clone(), nonce, sj.proofs.iter().cloned().collect())
        .prepare(sim.transaction_validator().preparation_settings())
        .unwrap_or_else(|e| mc_core::machinery_error(&format!("C02: cannot prepare test transaction: {e:?}")));
    let PreparedTestTransaction::V1(intent) = prepared else { unreachable!() };
    let cur = sim.get_current_epoch();
    let expiry = Epoch::of(cur.number() + 2);
    ExecutableTransaction::new_v1(
        intent.encoded_instructions.clone(),
        AuthZoneInit::proofs(intent.initial_proofs.clone()),
        intent.references.clone(),
        intent.blobs.clone(),
        ExecutionContext {
            unique_hash: intent.hash,
            intent_hash_nullifications: vec![IntentHashNullification::TransactionIntent { intent_hash: TransactionIntentHash::from_hash(intent_hash_of(&intent.hash)), expiry_epoch: expiry }],
            epoch_range: Some(EpochRange { start_epoch_inclusive: cur, end_epoch_exclusive: expiry }),
            payload_size: intent.encoded_instructions.len() + intent.blobs.values().map(|x| x.len()).sum::<usize>(),
            num_of_signature_validations: intent.initial_proofs.len() + 1,
            costing_parameters: TransactionCostingParameters { tip: TipSpecifier::None, free_credit_in_xrd: Decimal::ZERO },
            pre_allocated_addresses: vec![],
            disable_limits_and_costing_modules: false,
            proposer_timestamp_range: None,
        },
    )
}

/// sort key of the tracker entry of an intent subject executed from the state `sim` is in
fn own_tracker_key(sim: &mut Sim) -> Option<DbSortKey> {
    let nonce = sim.next_transaction_nonce();
    let h = hash(format!("Test transaction: {}", nonce));
    Some(SpreadPrefixKeyMapper::to_db_sort_key(&SubstateKey::Map(scrypto_encode(&intent_hash_of(&h)).unwrap())))
}

#[derive(Clone, Copy, Debug, PartialEq, Eq)]
enum Mode {
    Plain,
    Abort,
    Fault(u64),
}

fn run_mode(sim: &mut Sim, sj: &Subject, mode: Mode) -> Result<TransactionReceipt, String> {
    if sj.intent {
        let exe = intent_executable(sim, sj);
        return match mode {
            Mode::Plain => mc_core::catch(|| sim.execute_transaction(exe, ExecutionConfig::for_test_transaction())),
            Mode::Abort => mc_core::catch(|| sim.execute_transaction(exe, ExecutionConfig::for_test_transaction().update_system_overrides(|o| o.set_abort_when_loan_repaid()))),
            Mode::Fault(k) => mc_core::catch(|| {
                // the same wiring as LedgerSimulator::execute_manifest_with_injected_error, for an executable
                let receipt = VM.with(|vm| {
                    let db = sim.substate_db();
                    let vm_init = VmInit::load(db, vm);
                    let system_init = InjectCostingErrorInit { system_input: SystemInit::load(db, ExecutionConfig::for_test_transaction().with_kernel_trace(false), vm_init), error_after_count: k };
                    KernelInit::load(db, system_init).execute(&exe)
                });
                if let TransactionResult::Commit(c) = &receipt.result {
                    let updates = c.state_updates.create_database_updates();
                    radix_substate_store_interface::interface::CommittableSubstateDatabase::commit(sim.substate_db_mut(), &updates);
                }
                receipt
            }),
        };
    }
    match mode {
        Mode::Plain => exec(sim, sj.manifest.clone(), sj.proofs.clone()),
        Mode::Abort => {
            let cfg = ExecutionConfig::for_test_transaction().update_system_overrides(|o| o.set_abort_when_loan_repaid());
            exec_cfg(sim, sj.manifest.clone(), sj.proofs.clone(), cfg)
        }
        Mode::Fault(k) => mc_core::catch(|| sim.execute_manifest_with_injected_error(sj.manifest.clone(), sj.proofs.clone(), k)),
    }
}

struct Verdict {
    class: String,
    /// for failed commits: canonical description of the set of changed substates (diff shape)
    shape: Option<String>,
    digest: Hash,
}

fn field_key(f: u8) -> DbSortKey {
    SpreadPrefixKeyMapper::to_db_sort_key(&SubstateKey::Field(f))
}

fn short_class(r: &TransactionReceipt) -> String {
    match &r.result {
        TransactionResult::Commit(c) => match &c.outcome {
            TransactionOutcome::Success(_) => "commit-success".into(),
            TransactionOutcome::Failure(e) => format!("commit-failure:{}", variant_path(&format!("{e:?}"), 2)),
        },
        TransactionResult::Reject(rj) => format!("reject:{}", variant_path(&format!("{:?}", rj.reason), 1)),
        TransactionResult::Abort(a) => format!("abort:{}", variant_path(&format!("{:?}", a.reason), 1)),
    }
}

/// The oracle. `after` is the simulator's database after the run.
fn judge(st: &State, sj: &Subject, mode: Mode, receipt: &TransactionReceipt, after: &Db, full_invariants: bool, own_key: Option<&DbSortKey>) -> Result<Verdict, (String, String)> {
    let digest = receipt_digest(receipt);
    let cls = short_class(receipt);
    match &receipt.result {
        TransactionResult::Reject(_) | TransactionResult::Abort(_) => {
            if after != &st.db {
                let d = db_diff(&st.db, after);
                let kind = if matches!(receipt.result, TransactionResult::Reject(_)) { "rejected" } else { "aborted" };
                return Err((
                    format!("{kind}-changed-database"),
                    format!("{kind} transaction changed {} substates, first: {}", d.len(), d.first().map(|c| c.describe()).unwrap_or_default()),
                ));
            }
            Ok(Verdict { class: cls, shape: None, digest })
        }
        TransactionResult::Commit(c) => {
            if matches!(c.outcome, TransactionOutcome::Success(_)) {
                return Ok(Verdict { class: cls, shape: None, digest });
            }
            let _ = mode;
            let mut shape = String::new();
            let diff = db_diff(&st.db, after);
            let bal = field_key(FungibleVaultField::Balance.field_index());
            let rew = field_key(ConsensusManagerField::ValidatorRewards.field_index());
            let mut paid: BTreeMap<NodeId, Decimal> = BTreeMap::new();
            let mut rewards_vault_delta = Decimal::ZERO;
            let mut rewards_change: Option<(&Vec<u8>, &Vec<u8>)> = None;
            let mut tracker_deleted_partitions: BTreeSet<PartitionNumber> = BTreeSet::new();
            let mut own_entry_written = false;
            for ch in &diff {
                let et = ch.node.entity_type().map(|e| format!("{e:?}")).unwrap_or_else(|| "UnknownEntity".to_string());
                let outside = |what: &str| -> (String, String) {
                    (
                        format!("failed-commit:changed-outside-fee-set:{}:{et}:p{}", what, ch.partition.0),
                        format!("a failed commit changed a substate outside the fee-related set: {}", ch.describe()),
                    )
                };
                if sj.fee_vaults.contains(&ch.node) {
                    if ch.partition != MAIN_BASE_PARTITION || ch.sort_key != bal {
                        return Err(outside("fee-vault-non-balance"));
                    }
                    let (Some(o), Some(n)) = (&ch.old, &ch.new) else { return Err(outside("fee-vault-balance-created-or-deleted")) };
                    let o = decode_vault_balance(o).map_err(|e| ("decode".to_string(), e))?;
                    let n = decode_vault_balance(n).map_err(|e| ("decode".to_string(), e))?;
                    if n > o {
                        return Err((
                            "failed-commit:fee-vault-increased".into(),
                            format!("fee-locking vault {} went from {o} to {n} in a failed commit", mc_core::hex(&ch.node.0)),
                        ));
                    }
                    paid.insert(ch.node, o.checked_sub(n).unwrap());
                    shape.push_str("V;");
                } else if ch.node == *CONSENSUS_MANAGER.as_node_id() {
                    if ch.partition != MAIN_BASE_PARTITION || ch.sort_key != rew {
                        return Err(outside("consensus-manager"));
                    }
                    let (Some(o), Some(n)) = (&ch.old, &ch.new) else { return Err(outside("validator-rewards-created-or-deleted")) };
                    rewards_change = Some((o, n));
                    shape.push_str("R;");
                } else if ch.node == st.rewards_vault {
                    if ch.partition != MAIN_BASE_PARTITION || ch.sort_key != bal {
                        return Err(outside("rewards-vault-non-balance"));
                    }
                    let (Some(o), Some(n)) = (&ch.old, &ch.new) else { return Err(outside("rewards-vault-balance-created-or-deleted")) };
                    let o = decode_vault_balance(o).map_err(|e| ("decode".to_string(), e))?;
                    let n = decode_vault_balance(n).map_err(|e| ("decode".to_string(), e))?;
                    rewards_vault_delta = n.checked_sub(o).unwrap();
                    shape.push_str("RV;");
                } else if ch.node == *TRANSACTION_TRACKER.as_node_id() {
                    if ch.partition == MAIN_BASE_PARTITION {
                        if ch.sort_key != field_key(0) || ch.old.is_none() || ch.new.is_none() {
                            return Err(outside("tracker-main"));
                        }
                        shape.push_str("T;");
                    } else if ch.partition.0 > MAIN_BASE_PARTITION.0 {
                        // test transactions carry no intent-hash nullification: no entry of their own may appear;
                        // only the rotation of the ring (whole-partition delete) is fee-unrelated bookkeeping of
                        // the replay-protection record
                        if ch.new.is_some() {
                            // the only entry a transaction may write is the one of its own intent hash, once
                            if own_key == Some(&ch.sort_key) && ch.old.is_none() && !own_entry_written {
                                own_entry_written = true;
                                shape.push_str("TE;");
                                continue;
                            }
                            return Err(outside("tracker-entry-written"));
                        }
                        tracker_deleted_partitions.insert(ch.partition);
                    } else {
                        return Err(outside("tracker-module"));
                    }
                } else {
                    let kind = match (&ch.old, &ch.new) {
                        (None, Some(_)) => "created",
                        (Some(_), None) => "deleted",
                        _ => "updated",
                    };
                    return Err(outside(kind));
                }
            }
            for p in &tracker_deleted_partitions {
                let pk = SpreadPrefixKeyMapper::to_db_partition_key(TRANSACTION_TRACKER.as_node_id(), *p);
                if radix_substate_store_interface::interface::SubstateDatabase::list_raw_values_from_db_key(after, &pk, None).next().is_some() {
                    return Err((
                        "failed-commit:tracker-partial-delete".into(),
                        format!("tracker partition {} lost entries without being discarded as a whole", p.0),
                    ));
                }
                shape.push_str("TD;");
            }
            // receipt cross-checks
            for (v, amt) in &c.fee_source.paying_vaults {
                if !sj.fee_vaults.contains(v) {
                    return Err((
                        "failed-commit:payer-not-a-locker".into(),
                        format!("fee_source names vault {} which no lock-fee call of the manifest targets", mc_core::hex(&v.0)),
                    ));
                }
                let p = paid.get(v).copied().unwrap_or(Decimal::ZERO);
                if p != *amt {
                    return Err((
                        "failed-commit:fee-source-mismatch".into(),
                        format!("vault {} decreased by {p} but fee_source says {amt}", mc_core::hex(&v.0)),
                    ));
                }
            }
            for (v, p) in &paid {
                if !p.is_zero() && !c.fee_source.paying_vaults.contains_key(v) {
                    return Err(("failed-commit:fee-source-mismatch".into(), format!("vault {} decreased by {p} but is not in fee_source", mc_core::hex(&v.0))));
                }
                if !p.is_zero() && sj.contingent_only.contains(v) {
                    return Err((
                        "failed-commit:contingent-fee-taken".into(),
                        format!("contingently locked vault {} paid {p} in a failed commit", mc_core::hex(&v.0)),
                    ));
                }
            }
            let to_validators = c.fee_destination.to_proposer.checked_add(c.fee_destination.to_validator_set).unwrap();
            if rewards_vault_delta != to_validators {
                return Err((
                    "failed-commit:rewards-vault-delta".into(),
                    format!("rewards vault changed by {rewards_vault_delta}, fee_destination proposer+validator set = {to_validators}"),
                ));
            }
            if rewards_vault_delta.is_negative() {
                return Err(("failed-commit:rewards-vault-decreased".into(), format!("rewards vault changed by {rewards_vault_delta}")));
            }
            let total_paid = paid.values().fold(Decimal::ZERO, |a, b| a.checked_add(*b).unwrap());
            if total_paid < rewards_vault_delta {
                return Err(("failed-commit:rewards-exceed-fees".into(), format!("fee vaults paid {total_paid}, rewards vault received {rewards_vault_delta}")));
            }
            if let Some((o, n)) = rewards_change {
                let o = decode_rewards(o).map_err(|e| ("decode".to_string(), e))?;
                let n = decode_rewards(n).map_err(|e| ("decode".to_string(), e))?;
                if o.rewards_vault != n.rewards_vault {
                    return Err(("failed-commit:rewards-vault-replaced".into(), "the rewards vault reference changed".into()));
                }
                let mut sum = Decimal::ZERO;
                let keys: BTreeSet<_> = o.proposer_rewards.keys().chain(n.proposer_rewards.keys()).copied().collect();
                for k in keys {
                    let a = o.proposer_rewards.get(&k).copied().unwrap_or(Decimal::ZERO);
                    let b = n.proposer_rewards.get(&k).copied().unwrap_or(Decimal::ZERO);
                    if b < a {
                        return Err(("failed-commit:proposer-reward-decreased".into(), format!("proposer {k} reward {a} -> {b}")));
                    }
                    sum = sum.checked_add(b.checked_sub(a).unwrap()).unwrap();
                }
                if sum != c.fee_destination.to_proposer {
                    return Err(("failed-commit:proposer-reward-delta".into(), format!("proposer rewards grew by {sum}, to_proposer = {}", c.fee_destination.to_proposer)));
                }
            }
            // events
            for (id, _data) in &c.application_events {
                let ok = match &id.0 {
                    Emitter::Method(node, ModuleId::Main) => match id.1.as_str() {
                        "LockFeeEvent" | "PayFeeEvent" => sj.fee_vaults.contains(node),
                        "DepositEvent" => *node == st.rewards_vault,
                        "BurnFungibleResourceEvent" => node == XRD.as_node_id(),
                        _ => false,
                    },
                    _ => false,
                };
                if !ok {
                    return Err((
                        format!("failed-commit:non-fee-event:{}", id.1),
                        format!("a failed commit emitted {:?}", id),
                    ));
                }
            }
            // the receipt must not announce new entities either
            let s = &c.state_update_summary;
            if !s.new_packages.is_empty() || !s.new_components.is_empty() || !s.new_resources.is_empty() || !s.new_vaults.is_empty() {
                return Err(("failed-commit:summary-new-entities".into(), format!("state_update_summary of a failed commit lists new entities: {s:?}")));
            }
            // ledger invariants afterwards
            if full_invariants {
                let t = scan_totals(after).map_err(|e| ("failed-commit:scan-failed".to_string(), e))?;
                totals_invariant(&t).map_err(|e| ("failed-commit:resource-invariant".to_string(), e))?;
            }
            Ok(Verdict { class: cls, shape: Some(shape), digest })
        }
    }
}

fn case_json(st: &State, sj: &Subject, mode: Mode) -> Value {
    json!({
        "history": st.history.iter().map(|o| o.name()).collect::<Vec<_>>(),
        "op": sj.op.name(),
        "intent": sj.intent,
        "mode": match mode { Mode::Plain => "plain".to_string(), Mode::Abort => "abort".to_string(), Mode::Fault(_) => "fault".to_string() },
        "k": match mode { Mode::Fault(k) => k, _ => 0 },
    })
}

/// one execution + oracle; returns the verdict (None when the run panicked, which is recorded)
fn run_case(st: &State, sj: &Subject, mode: Mode, l: &mut Local, full_invariants: bool) -> Option<Verdict> {
    l.eval();
    with_sim(&st.snap, |sim| {
        let own_key = sj.own_key.clone();
        let r = run_mode(sim, sj, mode);
        match r {
            Err(p) => {
                // "whatever the point at which execution failed": the engine must produce a receipt
                l.violation(
                    format!("panic:{}", mc_core::last_panic_location()),
                    format!("{} {:?} panicked instead of producing a receipt: {}", sj.label(), mode, mc_core::truncate(&p, 300)),
                    case_json(st, sj, mode),
                );
                None
            }
            Ok(receipt) => match judge(st, sj, mode, &receipt, sim.substate_db(), full_invariants, own_key.as_ref()) {
                Ok(v) => Some(v),
                Err((key, what)) => {
                    l.violation(key, format!("{} [{}] {:?}: {what} (receipt: {})", sj.label(), st.history.iter().map(|o| o.name()).collect::<Vec<_>>().join(","), mode, short_class(&receipt)), case_json(st, sj, mode));
                    None
                }
            },
        }
    })
}

fn semantic_fp(sim: &mut Sim, w: &World, x: &Extras) -> Vec<u8> {
    let comps = [w.a.addr, w.b.addr, x.pool, x.validator];
    let res = [w.f18, w.f2, w.f0, w.nf, w.rc, x.pool_unit, x.stake_unit, x.claim_nft];
    let mut fp = balances_fp(sim, &comps, &res);
    for c in [w.a.addr, w.b.addr, x.validator] {
        let b = sim.get_component_balance(c, XRD);
        fp.extend(format!("x{};", b.checked_floor().unwrap()).into_bytes());
    }
    let cm = sim.get_consensus_manager_state();
    fp.extend(format!("e{}r{};", cm.epoch.number(), cm.round.number()).into_bytes());
    let nres = scan_totals(sim.substate_db()).map(|t| t.len()).unwrap_or(0);
    fp.extend(format!("n{nres};").into_bytes());
    if let Some(v) = sim.get_component_vaults(w.b.addr, w.rc).first() {
        let frozen: Option<radix_engine::blueprints::resource::FungibleVaultFreezeStatusFieldPayload> = radix_engine::system::system_db_reader::SystemDatabaseReader::new(sim.substate_db())
            .read_typed_object_field(v, ModuleId::Main, FungibleVaultField::FreezeStatus.field_index())
            .ok();
        fp.extend(format!("f{frozen:?};").into_bytes());
    }
    fp
}

fn make_state(sim: &Sim, history: Vec<Op>) -> State {
    let db = sim.substate_db().clone();
    let rewards_vault = read_rewards(&db).unwrap_or_else(|e| mc_core::machinery_error(&format!("C02: {e}"))).rewards_vault.0 .0;
    State { depth: history.len(), history, snap: sim.create_snapshot(), db, rewards_vault }
}

/// apply a state-producing op (any menu entry incl. NextRound); Some(receipt) if executed without panic
fn apply_op(sim: &mut Sim, w: &World, x: &Extras, op: Op) -> Option<TransactionReceipt> {
    match op {
        Op::Menu(t) => run_tx(sim, w, x, t).ok(),
        Op::Extra(_) => {
            let (m, p) = build_op(sim, w, x, op)?;
            exec(sim, m, p).ok()
        }
    }
}

fn expand_states(ctx: &Ctx, root: &Root, parents: &[State], seen: &mut BTreeSet<Vec<u8>>) -> Vec<State> {
    let ops: Vec<Op> = STD_MENU.iter().map(|t| Op::Menu(*t)).collect();
    let pairs: Vec<(usize, Op)> = (0..parents.len()).flat_map(|i| ops.iter().map(move |o| (i, *o))).collect();
    let results = par_map(ctx.threads, &pairs, |(i, op)| {
        let p = &parents[*i];
        let mut sim = sim_from(&p.snap);
        let r = apply_op(&mut sim, &root.w, &root.x, *op)?;
        // only successful commits produce a new state: a failed commit differs from its parent by fee
        // balances only (that is what this check establishes for it), a reject/abort not at all
        if !is_success(&r) {
            return None;
        }
        let fp = semantic_fp(&mut sim, &root.w, &root.x);
        let mut h = p.history.clone();
        h.push(*op);
        Some((fp, make_state(&sim, h)))
    });
    let mut out = vec![];
    for r in results.into_iter().flatten() {
        if seen.insert(r.0) {
            out.push(r.1);
        }
    }
    out
}

enum PrepErr {
    /// the engine panicked on the un-faulted (or debug-config) run: a verdict about the engine, not harness trouble
    EnginePanic(String, String, Value),
    Machinery(String),
}
impl From<String> for PrepErr {
    fn from(s: String) -> Self {
        PrepErr::Machinery(s)
    }
}

fn prepare_subject(root: &Root, states: &[State], si: usize, op: Op, intent: bool) -> Result<Option<Subject>, PrepErr> {
    let st = &states[si];
    let mut sim = sim_from(&st.snap);
    let Some((manifest, proofs)) = build_op(&mut sim, &root.w, &root.x, op) else { return Ok(None) };
    let lockers = lockers_of(&manifest);
    let mut fee_vaults = BTreeSet::new();
    let mut non_contingent = BTreeSet::new();
    for (c, contingent) in &lockers {
        for v in xrd_vaults_of(&mut sim, *c) {
            fee_vaults.insert(v);
            if !contingent {
                non_contingent.insert(v);
            }
        }
    }
    let contingent_only: BTreeSet<NodeId> = fee_vaults.difference(&non_contingent).copied().collect();
    let mut sj = Subject { state: si, op, manifest, proofs, fee_vaults, contingent_only, base_digest: Hash([0u8; 32]), base_class: String::new(), n: 0, n_lower: 0, intent, own_key: None };
    if intent {
        sj.own_key = own_tracker_key(&mut sim_from(&st.snap));
    }
    // un-faulted receipt
    let base = with_sim(&st.snap, |sim| run_mode(sim, &sj, Mode::Plain)).map_err(|p| {
        PrepErr::EnginePanic(
            format!("panic:{}", mc_core::last_panic_location()),
            format!("un-faulted {} panicked instead of producing a receipt: {}", sj.label(), mc_core::truncate(&p, 300)),
            case_json(st, &sj, Mode::Plain),
        )
    })?;
    sj.base_digest = receipt_digest(&base);
    sj.base_class = short_class(&base);
    // lower bound for the number of hook positions: execution-cost applications after boot
    let dbg = with_sim(&st.snap, |sim| exec_cfg(sim, sj.manifest.clone(), sj.proofs.clone(), ExecutionConfig::for_debug_transaction())).map_err(|p| {
        PrepErr::EnginePanic(
            format!("panic:{}", mc_core::last_panic_location()),
            format!("un-faulted {} (debug configuration) panicked: {}", sj.label(), mc_core::truncate(&p, 300)),
            case_json(st, &sj, Mode::Plain),
        )
    })?;
    if let Some(d) = &dbg.debug_information {
        sj.n_lower = d
            .detailed_execution_cost_breakdown
            .iter()
            .filter(|e| match &e.item {
                radix_engine::system::system_modules::costing::ExecutionCostBreakdownItem::Execution { simple_name, .. } => {
                    !["VerifyTxSignatures", "ValidateTxPayload", "CheckReference", "CheckIntentValidity", "CheckTimestamp"].iter().any(|p| simple_name.starts_with(p))
                }
                _ => false,
            })
            .count() as u64;
    }
    // N: the injection point k is "effective" iff the receipt differs from the un-faulted one. Every k up to the
    // number of hook calls injects an error (the first k-1 calls are those of the un-faulted run, by
    // determinism), every larger k injects nothing. Find the boundary by doubling + bisection; the sweep then
    // re-checks a window past N and counts effective-looking gaps below N.
    let differs = |k: u64| -> Result<bool, String> {
        let r = with_sim(&st.snap, |sim| run_mode(sim, &sj, Mode::Fault(k)));
        match r {
            Ok(r) => Ok(receipt_digest(&r) != sj.base_digest),
            Err(_) => Ok(true), // a panic is certainly not the un-faulted receipt; reported by the sweep
        }
    };
    let mut lo = 0u64; // differs(lo) (or 0)
    let mut hi = 1024u64;
    loop {
        if !differs(hi)? {
            break;
        }
        lo = hi;
        hi *= 2;
        if hi > (1 << 22) {
            return Err(PrepErr::Machinery(format!("{}: no k up to {hi} reproduces the un-faulted receipt", op.name())));
        }
    }
    while hi - lo > 1 {
        let mid = (lo + hi) / 2;
        if differs(mid)? {
            lo = mid;
        } else {
            hi = mid;
        }
    }
    sj.n = lo;
    if sj.n < sj.n_lower {
        return Err(PrepErr::Machinery(format!("{}: boundary {} below the number of execution-cost applications {} (an injected error was absorbed at the boundary)", op.name(), sj.n, sj.n_lower)));
    }
    Ok(Some(sj))
}

const PAST_WINDOW: u64 = 24;

fn ks_for(n: u64, full: bool, stride: u64, edge: u64) -> Vec<u64> {
    let mut v = vec![];
    for k in 1..=n + PAST_WINDOW {
        if full || k <= edge || k + edge > n || k % stride == 0 {
            v.push(k);
        }
    }
    v
}

pub fn run(ctx: Ctx) -> ! {
    let root = build_root();
    if ctx.replay.is_some() {
        replay(ctx, &root);
    }
    let quick = ctx.quick();
    // (full-sweep depth, strided depth, stride, edge, wall cap); engine checkers up to depth 1 in both tiers
    let (full_depth, max_depth, stride, edge, cap_s): (usize, usize, u64, u64, f64) = if quick { (0, 1, 17, 50, 45.0) } else { (1, 2, 29, 30, 1000.0) };
    let engine_check_depth = 1usize;
    let cap_s = wall_cap_override().unwrap_or(cap_s);
    // development aid: VERIF_C02_SMOKE=1 thins every layer (no full sweep, stride 997, edge 3) so that the oracle can
    // be tried on all states of the tier quickly; the evidence of such a run says so and is never `exhaustive`
    let smoke = std::env::var("VERIF_C02_SMOKE").is_ok();
    let (full_depth, stride, edge) = if smoke { (usize::MAX, 997, 3) } else { (full_depth, stride, edge) };

    // ---- states
    let root_sim = sim_from(&root.snap);
    let mut seen: BTreeSet<Vec<u8>> = BTreeSet::new();
    {
        let mut s = sim_from(&root.snap);
        seen.insert(semantic_fp(&mut s, &root.w, &root.x));
    }
    let mut states: Vec<State> = vec![make_state(&root_sim, vec![])];
    let mut per_depth = vec![1usize];
    let mut layer_start = 0;
    for _d in 1..=max_depth {
        let new = expand_states(&ctx, &root, &states[layer_start..], &mut seen);
        // histories inside expand_states are relative to `parents` slice indices: already absolute (history cloned)
        layer_start = states.len();
        per_depth.push(new.len());
        states.extend(new);
    }

    // ---- subjects
    let ops = all_ops();
    let mut pairs: Vec<(usize, Op, bool)> = (0..states.len()).flat_map(|i| ops.iter().map(move |o| (i, *o, false))).collect();
    // the same transaction carried by an executable with a real intent-hash nullification (root state, full sweep)
    for op in [Op::Menu(Tx::TransferF), Op::Menu(Tx::FailAssert), Op::Menu(Tx::ContingentFail), Op::Extra(Extra::LockAThenSpendXrd)] {
        pairs.push((0, op, true));
    }
    let prepared = par_map(ctx.threads, &pairs, |(si, op, intent)| prepare_subject(&root, &states, *si, *op, *intent));
    let mut subjects: Vec<Subject> = vec![];
    for p in prepared {
        match p {
            Ok(Some(s)) => subjects.push(s),
            Ok(None) => {}
            Err(PrepErr::EnginePanic(key, what, case)) => ctx.violation(key, what, case),
            Err(PrepErr::Machinery(e)) => mc_core::machinery_error(&format!("C02: {e}")),
        }
    }
    let t_prepared = ctx.elapsed_s();

    // ---- plain + abort runs (one each per subject)
    let shapes: Mutex<BTreeMap<(usize, String), u64>> = Mutex::new(BTreeMap::new()); // (subject, class|shape) -> min k
    let plain_jobs: Vec<(usize, Mode)> = (0..subjects.len()).flat_map(|i| [(i, Mode::Plain), (i, Mode::Abort)]).collect();
    par_range(&ctx, plain_jobs.len() as u64, 4, |j, l| {
        let (i, mode) = plain_jobs[j as usize];
        let sj = &subjects[i];
        let st = &states[sj.state];
        if let Some(v) = run_case(st, sj, mode, l, true) {
            let tag = if mode == Mode::Plain { "unfaulted" } else { "abort-when-loan-repaid" };
            l.class(&format!("{tag}:{}", v.class));
            if mode == Mode::Plain && v.digest != sj.base_digest {
                l.violation("nondeterministic-unfaulted-run", format!("{}: two un-faulted runs from the same snapshot differ", sj.op.name()), case_json(st, sj, mode));
            }
            if mode == Mode::Abort && !v.class.starts_with("abort") && !v.class.starts_with("reject") {
                // loan never repaid within the run cannot happen for a committing transaction
                l.info(&format!("abort-config-but-{}", v.class));
            }
            if let Some(sh) = v.shape {
                let mut g = shapes.lock().unwrap();
                g.entry((i, format!("{}|{sh}", v.class))).or_insert(0);
            }
            if i % 7 == 0 {
                l.sample(|| json!({"history": st.history.iter().map(|o| o.name()).collect::<Vec<_>>(), "op": sj.op.name(), "mode": tag, "outcome": v.class}));
            }
        }
    });

    // ---- fault sweep
    // jobs ordered by depth so that a wall cap cuts the deepest layer first
    let mut jobs: Vec<(u32, u32)> = vec![]; // (subject, k)
    let mut order: Vec<usize> = (0..subjects.len()).collect();
    order.sort_by_key(|i| (states[subjects[*i].state].depth, *i));
    let mut jobs_per_depth = vec![0u64; max_depth + 1];
    for i in order {
        let d = states[subjects[i].state].depth;
        for k in ks_for(subjects[i].n, full_depth != usize::MAX && d <= full_depth, stride, edge) {
            jobs.push((i as u32, k as u32));
            jobs_per_depth[d] += 1;
        }
    }
    // the wall cap applies to the sweep (the preparation above is a bounded, small amount of work)
    let sweep_t0 = ctx.elapsed_s();
    let capped = AtomicBool::new(false);
    let done_per_depth: Vec<AtomicU64> = (0..=max_depth).map(|_| AtomicU64::new(0)).collect();
    let absorbed_below_n = AtomicU64::new(0);
    let boundary_bad: Mutex<Option<String>> = Mutex::new(None);
    let failed_commits = AtomicU64::new(0);
    let rejected = AtomicU64::new(0);
    par_range(&ctx, jobs.len() as u64, 16, |j, l| {
        if capped.load(Ordering::Relaxed) {
            return;
        }
        if ctx.elapsed_s() - sweep_t0 > cap_s {
            capped.store(true, Ordering::Relaxed);
            return;
        }
        let (i, k) = jobs[j as usize];
        let (i, k) = (i as usize, k as u64);
        let sj = &subjects[i];
        let st = &states[sj.state];
        let Some(v) = run_case(st, sj, Mode::Fault(k), l, true) else {
            done_per_depth[st.depth].fetch_add(1, Ordering::Relaxed);
            return;
        };
        done_per_depth[st.depth].fetch_add(1, Ordering::Relaxed);
        let same = v.digest == sj.base_digest;
        if k > sj.n {
            if !same {
                // the boundary found by bisection was not the end of the hook sequence
                boundary_bad.lock().unwrap().get_or_insert(format!("{} after {:?}: k={k} > N={} still differs from the un-faulted receipt", sj.op.name(), st.history.iter().map(|o| o.name()).collect::<Vec<_>>(), sj.n));
            } else {
                l.class("k-past-last-hook:identical-to-unfaulted");
            }
            return;
        }
        if same {
            absorbed_below_n.fetch_add(1, Ordering::Relaxed);
            l.info("injected-error-without-effect-on-receipt");
        }
        if v.class.starts_with("commit-success") {
            l.info("injected-error-absorbed:commit-success");
            l.class("faulted:commit-success(error absorbed; outside statement)");
        } else if v.class.starts_with("commit-failure") {
            failed_commits.fetch_add(1, Ordering::Relaxed);
            l.class(&format!("faulted:{}", v.class));
        } else {
            rejected.fetch_add(1, Ordering::Relaxed);
            l.class(&format!("faulted:{}", v.class));
        }
        if let Some(sh) = v.shape {
            let mut g = shapes.lock().unwrap();
            let e = g.entry((i, format!("{}|{sh}", v.class))).or_insert(k);
            if k < *e {
                *e = k;
            }
        }
        if k % 997 == 0 {
            l.sample(|| json!({"history": st.history.iter().map(|o| o.name()).collect::<Vec<_>>(), "op": sj.op.name(), "k": k, "N": sj.n, "outcome": v.class}));
        }
    });
    let capped = capped.load(Ordering::Relaxed);
    if let Some(msg) = boundary_bad.into_inner().unwrap() {
        // the bisection did not find the end of the hook sequence: harness trouble, never a verdict
        mc_core::machinery_error(&format!("C02: injection boundary: {msg}"));
    }

    // ---- engine's own checkers on one representative (minimal k) per distinct diff shape of every subject
    let reps: Vec<((usize, String), u64)> = shapes.into_inner().unwrap().into_iter().filter(|((i, _), _)| states[subjects[*i].state].depth <= engine_check_depth).collect();
    let engine_checked = AtomicU64::new(0);
    let engine_skipped = AtomicU64::new(0);
    par_range(&ctx, reps.len() as u64, 1, |j, l| {
        if ctx.elapsed_s() - sweep_t0 > cap_s + 20.0 {
            engine_skipped.fetch_add(1, Ordering::Relaxed);
            return;
        }
        let ((i, _shape), k) = &reps[j as usize];
        let sj = &subjects[*i];
        let st = &states[sj.state];
        let mode = if *k == 0 { Mode::Plain } else { Mode::Fault(*k) };
        l.eval();
        with_sim(&st.snap, |sim| {
            if run_mode(sim, sj, mode).is_ok() {
                engine_checked.fetch_add(1, Ordering::Relaxed);
                match check_database_quiet(sim, false, false) {
                    Ok(()) => l.class("engine-checkers-after-failed-commit:ok"),
                    Err(e) => l.violation("failed-commit:engine-checker", format!("{} {:?}: {e}", sj.op.name(), mode), case_json(st, sj, mode)),
                }
            }
        });
    });

    // ---- evidence
    let mut cov = Map::new();
    let ns: Vec<u64> = subjects.iter().map(|s| s.n).collect();
    let root_points: BTreeMap<String, u64> = subjects.iter().filter(|s| s.state == 0).map(|s| (s.label(), s.n)).collect();
    let root_outcomes: BTreeMap<String, String> = subjects.iter().filter(|s| s.state == 0).map(|s| (s.label(), s.base_class.clone())).collect();
    cov.insert("unfaulted_outcome_per_transaction_root_state".into(), json!(root_outcomes));
    cov.insert("states_per_depth".into(), json!(per_depth));
    cov.insert("subjects".into(), json!(subjects.len()));
    cov.insert("fault_points_per_transaction_root_state".into(), json!(root_points));
    cov.insert("fault_points_min".into(), json!(ns.iter().min()));
    cov.insert("fault_points_max".into(), json!(ns.iter().max()));
    cov.insert("fault_points_total_over_subjects".into(), json!(ns.iter().sum::<u64>()));
    cov.insert("full_sweep_up_to_depth".into(), if full_depth == usize::MAX { json!("none (smoke run)") } else { json!(full_depth) });
    cov.insert("engine_checkers_up_to_depth".into(), json!(engine_check_depth));
    cov.insert("strided_sweep_depth".into(), json!(max_depth));
    cov.insert("stride".into(), json!(stride));
    cov.insert("edge".into(), json!(edge));
    cov.insert("faulted_runs_planned_per_depth".into(), json!(jobs_per_depth));
    cov.insert("faulted_runs_done_per_depth".into(), json!(done_per_depth.iter().map(|a| a.load(Ordering::Relaxed)).collect::<Vec<_>>()));
    cov.insert("failed_commits_checked".into(), json!(failed_commits.load(Ordering::Relaxed)));
    cov.insert("rejections_and_aborts_checked".into(), json!(rejected.load(Ordering::Relaxed)));
    cov.insert("injected_errors_without_effect_below_N".into(), json!(absorbed_below_n.load(Ordering::Relaxed)));
    cov.insert("distinct_diff_shapes_engine_checked".into(), json!(engine_checked.load(Ordering::Relaxed)));
    cov.insert("engine_checks_skipped_by_cap".into(), json!(engine_skipped.load(Ordering::Relaxed)));
    cov.insert("caps_hit".into(), json!(capped));
    cov.insert("prepare_wall_s".into(), json!(t_prepared));
    cov.insert("ops".into(), json!(ops.iter().map(|o| o.name()).collect::<Vec<_>>()));
    if capped {
        let done: Vec<u64> = done_per_depth.iter().map(|a| a.load(Ordering::Relaxed)).collect();
        let complete: Vec<usize> = (0..=max_depth).filter(|d| done[*d] == jobs_per_depth[*d]).collect();
        ctx.note(format!("wall cap ({cap_s}s for the sweep) hit; layers fully covered: {complete:?}"));
    }
    let nontrivial = failed_commits.load(Ordering::Relaxed) + rejected.load(Ordering::Relaxed);
    if nontrivial == 0 {
        mc_core::machinery_error("C02: the wall cap was hit before any faulted run was judged (overloaded machine?): nothing to report");
    }
    let exhaustive = !capped && engine_skipped.load(Ordering::Relaxed) == 0 && !smoke;
    if smoke {
        ctx.note("VERIF_C02_SMOKE run: thinned sweep (development aid), not the tier's enumeration");
    }
    ctx.finish(
        Level::FaultEnumeration,
        "a case is one execution of (history, transaction, injection point k | abort config | un-faulted); full sweep = every k in 1..=N+24 where N = number of cost-hook positions of that transaction in that state (boundary found by bisection on 'receipt differs from the un-faulted one', re-checked over the window past N, N >= number of execution-cost applications); strided sweep = k<=edge, k>N-edge, k multiple of stride; non-trivial = faulted runs that ended as failed commit, rejection or abort and went through the whole-database diff oracle",
        nontrivial,
        exhaustive,
        cov,
        &[
            "NextRound (system transaction, costing disabled) has no cost hook and is not injectable; it is used to reach states only",
            "menu transactions are test transactions without an intent-hash nullification (replay-protection record = tracker field / ring rotation); 4 of them are additionally swept at the root state as executables with a real transaction-intent nullification, for which the tracker entry of that intent hash joins the allowed set",
            "states reached by failed commits are not expanded (they differ from the parent by fee balances only, which is what is checked on them)",
            "states with equal balances/supplies/epoch/round/freeze flag are merged at depth 2",
            "engine full-database checkers run on one representative (smallest k) per distinct changed-substate shape of every subject; the independent resource scan runs on every failed commit",
            "every k <= N injects an error (determinism of the prefix); an injected error that leaves the receipt identical to the un-faulted one is counted, not assumed absent",
        ],
    )
}

fn replay(ctx: Ctx, root: &Root) -> ! {
    let case = ctx.read_replay_case().unwrap();
    let hist: Vec<Op> = case["history"].as_array().map(|a| a.iter().filter_map(|s| s.as_str().and_then(Op::parse)).collect()).unwrap_or_default();
    let op = case["op"].as_str().and_then(Op::parse).unwrap_or_else(|| mc_core::machinery_error("replay: unknown op"));
    let k = case["k"].as_u64().unwrap_or(0);
    let mode = match case["mode"].as_str() {
        Some("plain") => Mode::Plain,
        Some("abort") => Mode::Abort,
        _ => Mode::Fault(k),
    };
    let mut sim = sim_from(&root.snap);
    for h in &hist {
        if apply_op(&mut sim, &root.w, &root.x, *h).is_none() {
            mc_core::machinery_error("replay: history step panicked");
        }
    }
    let states = vec![make_state(&sim, hist)];
    let sj = match prepare_subject(root, &states, 0, op, case["intent"].as_bool().unwrap_or(false)) {
        Ok(Some(s)) => s,
        Ok(None) => mc_core::machinery_error("replay: op is not injectable"),
        Err(PrepErr::EnginePanic(key, what, _)) => {
            println!("observed violation: {key} :: {what}");
            ctx.violation(key, what, case.clone());
            ctx.finish(Level::FaultEnumeration, "replay", 1, false, Map::new(), &[])
        }
        Err(PrepErr::Machinery(e)) => mc_core::machinery_error(&format!("replay: {e}")),
    };
    let mut l = Local::new();
    println!("replaying {} {:?} (N = {}, un-faulted: {})", sj.op.name(), mode, sj.n, sj.base_class);
    if let Some(v) = run_case(&states[0], &sj, mode, &mut l, true) {
        println!("observed: {} shape={:?} -> oracle satisfied", v.class, v.shape);
        l.class(&v.class);
    }
    for v in &l.violations {
        println!("observed violation: {} :: {}", v.key, v.what);
    }
    ctx.merge(l);
    ctx.finish(Level::FaultEnumeration, "replay", 1, false, Map::new(), &[])
}

