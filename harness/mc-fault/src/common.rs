//! Helpers shared by C02 and C06: root world, per-worker simulators, raw database diff, XRD vault
//! decoding, validator-reward bookkeeping decoding.
use mc_ledger::menu::*;
use mc_ledger::*;
use radix_engine::blueprints::consensus_manager::*;
use radix_engine::blueprints::resource::*;
use radix_substate_store_interface::db_key_mapper::{DatabaseKeyMapper, SpreadPrefixKeyMapper};
use radix_substate_store_interface::interface::*;
use std::cell::RefCell;

pub type Db = InMemorySubstateDatabase;

pub struct Root {
    pub snap: Snap,
    pub w: World,
    pub x: Extras,
}

pub fn build_root() -> Root {
    let mut sim = new_sim();
    let w = build_world(&mut sim);
    let x = build_extras(&mut sim, &w, w.f18);
    Root { snap: sim.create_snapshot(), w, x }
}

pub fn sim_from(snap: &Snap) -> Sim {
    LedgerSimulatorBuilder::new().without_kernel_trace().build_from_snapshot(snap.clone())
}

thread_local! {
    static WORKER_SIM: RefCell<Option<Sim>> = RefCell::new(None);
}

/// Run `f` on this worker's simulator after restoring it to `snap` (the simulator keeps its WASM
/// engine, i.e. its code cache, across restores; C01 is the check that cache hits are unobservable).
pub fn with_sim<R>(snap: &Snap, f: impl FnOnce(&mut Sim) -> R) -> R {
    WORKER_SIM.with(|cell| {
        let mut slot = cell.borrow_mut();
        match slot.as_mut() {
            Some(sim) => sim.restore_snapshot(snap.clone()),
            None => *slot = Some(sim_from(snap)),
        }
        f(slot.as_mut().unwrap())
    })
}

/// One raw difference between two databases.
#[derive(Debug, Clone, PartialEq, Eq)]
pub struct Change {
    pub node: NodeId,
    pub partition: PartitionNumber,
    pub sort_key: DbSortKey,
    pub old: Option<Vec<u8>>,
    pub new: Option<Vec<u8>>,
}

impl Change {
    pub fn is_field(&self, field: u8) -> bool {
        self.sort_key == SpreadPrefixKeyMapper::to_db_sort_key(&SubstateKey::Field(field))
    }
    pub fn describe(&self) -> String {
        format!(
            "node {} ({:?}) partition {} key {} {}",
            mc_core::hex(&self.node.0),
            self.node.entity_type(),
            self.partition.0,
            mc_core::hex(&self.sort_key.0),
            match (&self.old, &self.new) {
                (None, Some(_)) => "created",
                (Some(_), None) => "deleted",
                _ => "updated",
            }
        )
    }
}

fn partition_entries(db: &Db, pk: &DbPartitionKey) -> Vec<(DbSortKey, Vec<u8>)> {
    db.list_raw_values_from_db_key(pk, None).collect()
}

/// Full raw diff of two in-memory databases (every partition of both is walked; nothing is taken
/// from the receipt). Ordered by (partition key, sort key).
pub fn db_diff(before: &Db, after: &Db) -> Vec<Change> {
    let mut out = vec![];
    let pa: Vec<DbPartitionKey> = before.list_partition_keys().collect();
    let pb: Vec<DbPartitionKey> = after.list_partition_keys().collect();
    let (mut i, mut j) = (0, 0);
    let push_all = |pk: &DbPartitionKey, entries: Vec<(DbSortKey, Vec<u8>)>, created: bool, out: &mut Vec<Change>| {
        let (node, partition) = SpreadPrefixKeyMapper::from_db_partition_key(pk);
        for (k, v) in entries {
            out.push(Change { node, partition, sort_key: k, old: if created { None } else { Some(v.clone()) }, new: if created { Some(v) } else { None } });
        }
    };
    while i < pa.len() || j < pb.len() {
        let ord = if i >= pa.len() {
            std::cmp::Ordering::Greater
        } else if j >= pb.len() {
            std::cmp::Ordering::Less
        } else {
            pa[i].cmp(&pb[j])
        };
        match ord {
            std::cmp::Ordering::Less => {
                push_all(&pa[i], partition_entries(before, &pa[i]), false, &mut out);
                i += 1;
            }
            std::cmp::Ordering::Greater => {
                push_all(&pb[j], partition_entries(after, &pb[j]), true, &mut out);
                j += 1;
            }
            std::cmp::Ordering::Equal => {
                let ea = partition_entries(before, &pa[i]);
                let eb = partition_entries(after, &pb[j]);
                if ea != eb {
                    let (node, partition) = SpreadPrefixKeyMapper::from_db_partition_key(&pa[i]);
                    let (mut a, mut b) = (0, 0);
                    while a < ea.len() || b < eb.len() {
                        let o = if a >= ea.len() {
                            std::cmp::Ordering::Greater
                        } else if b >= eb.len() {
                            std::cmp::Ordering::Less
                        } else {
                            ea[a].0.cmp(&eb[b].0)
                        };
                        match o {
                            std::cmp::Ordering::Less => {
                                out.push(Change { node, partition, sort_key: ea[a].0.clone(), old: Some(ea[a].1.clone()), new: None });
                                a += 1;
                            }
                            std::cmp::Ordering::Greater => {
                                out.push(Change { node, partition, sort_key: eb[b].0.clone(), old: None, new: Some(eb[b].1.clone()) });
                                b += 1;
                            }
                            std::cmp::Ordering::Equal => {
                                if ea[a].1 != eb[b].1 {
                                    out.push(Change { node, partition, sort_key: ea[a].0.clone(), old: Some(ea[a].1.clone()), new: Some(eb[b].1.clone()) });
                                }
                                a += 1;
                                b += 1;
                            }
                        }
                    }
                }
                i += 1;
                j += 1;
            }
        }
    }
    out
}

/// Decode a fungible vault balance field substate.
pub fn decode_vault_balance(raw: &[u8]) -> Result<Decimal, String> {
    let s: FungibleVaultBalanceFieldSubstate = scrypto_decode(raw).map_err(|e| format!("vault balance undecodable: {e:?}"))?;
    Ok(s.into_payload().fully_update_and_into_latest_version().amount())
}

pub fn read_vault_balance(db: &Db, vault: &NodeId) -> Result<Decimal, String> {
    let raw = db
        .get_raw_substate(vault, MAIN_BASE_PARTITION, SubstateKey::Field(FungibleVaultField::Balance.field_index()))
        .ok_or_else(|| format!("vault {} has no balance field", mc_core::hex(&vault.0)))?;
    decode_vault_balance(&raw)
}

pub fn decode_rewards(raw: &[u8]) -> Result<ValidatorRewardsSubstate, String> {
    let s: FieldSubstate<ConsensusManagerValidatorRewardsFieldPayload> = scrypto_decode(raw).map_err(|e| format!("validator rewards undecodable: {e:?}"))?;
    Ok(s.into_payload().fully_update_and_into_latest_version())
}

pub fn read_rewards(db: &Db) -> Result<ValidatorRewardsSubstate, String> {
    let raw = db
        .get_raw_substate(CONSENSUS_MANAGER.as_node_id(), MAIN_BASE_PARTITION, SubstateKey::Field(ConsensusManagerField::ValidatorRewards.field_index()))
        .ok_or("consensus manager has no validator rewards field")?;
    decode_rewards(&raw)
}

/// Resource a fungible vault belongs to (outer object of the vault), read from the database.
pub fn vault_resource(db: &Db, vault: &NodeId) -> Option<ResourceAddress> {
    let reader = radix_engine::system::system_db_reader::SystemDatabaseReader::new(db);
    let info = reader.get_object_info(*vault).ok()?;
    Some(ResourceAddress::new_or_panic(info.get_outer_object().into_node_id().0))
}

/// XRD vaults directly owned by a component (through the engine's own vault finder; used only to
/// translate "the account that locks the fee" into vault ids).
pub fn xrd_vaults_of(sim: &mut Sim, c: ComponentAddress) -> Vec<NodeId> {
    sim.get_component_vaults(c, XRD)
}

pub fn dec_json(d: Decimal) -> serde_json::Value {
    serde_json::Value::String(d.to_string())
}

/// Development aid: VERIF_WALL_CAP_S overrides the internal wall cap (never changes what is enumerated,
/// only how long the run may take before it stops and reports `exhaustive: false`).
pub fn wall_cap_override() -> Option<f64> {
    std::env::var("VERIF_WALL_CAP_S").ok().and_then(|s| s.parse().ok())
}
