//! C39 — account deposit rules are enforced exactly.
//!
//! Shape H (explicit-state history exploration), two layers:
//!
//! 1. configuration layer: breadth-first search over *configuration transactions* of a real account B
//!    (`set_default_deposit_rule` x3, `set/remove_resource_preference` over {XRD, R1, R2}, `add/remove_authorized_
//!    depositor` over {Bres (resource badge), Bnf#1 (non-fungible badge)}, "B receives R1" / "B's R1 vault is
//!    emptied"). A state is the history that reaches it; states are merged by a fingerprint made of the raw
//!    stored configuration of B (deposit-rule field, every preference / depositor entry *including removed
//!    entries*, vault entries with their contents) together with the reference model's configuration.
//! 2. in **every** configuration state, **every** deposit attempt of the alphabet is executed on the real
//!    engine from that state (and rolled back): method x batch x named badge x proof present.
//!
//! Reference = the decision table of the property statement, written on the model configuration (maps and
//! sets updated by the configuration ops, never read from the engine):
//!   allowed(r)  = preference(r) if an explicit preference exists, else by the default rule
//!                 (Accept: yes, Reject: no, AllowExisting: r is XRD or B already holds r);
//!   all allowed                                  -> everything is deposited;
//!   else badge named, listed and proven          -> everything is deposited;
//!   else badge named, listed, not proven         -> the call fails;
//!   else                                         -> nothing deposited: refund variants return all buckets
//!                                                   untouched, abort variants fail;
//!   always: only B's vaults of the deposited resources change.
//! Statement-silent (informational only): AllowExisting when B's vault exists but is empty ("holds"?), the empty
//! batch, plain `deposit`/`deposit_batch`, the RejectedDeposit events, nodes written outside B.
use crate::util::*;
use mc_core::{bfs, par_for, Ctx, Level, Local, Machine};
use mc_ledger::*;
use radix_engine::blueprints::account::*;
use serde_json::{json, Value};
use std::collections::{BTreeMap, BTreeSet};
use std::sync::Mutex;

// ------------------------------------------------------------------------------------------------
// alphabets
// ------------------------------------------------------------------------------------------------

#[derive(Clone, Copy, Debug, PartialEq, Eq, PartialOrd, Ord, Hash)]
pub enum Res {
    Xrd,
    R1,
    R2,
}
const RES: [Res; 3] = [Res::Xrd, Res::R1, Res::R2];

#[derive(Clone, Copy, Debug, PartialEq, Eq, PartialOrd, Ord, Hash)]
pub enum Badge {
    Bres,
    Bnf1,
}
const BADGES: [Badge; 2] = [Badge::Bres, Badge::Bnf1];

#[derive(Clone, Copy, Debug, PartialEq, Eq, PartialOrd, Ord, Hash)]
pub enum Def {
    Accept,
    Reject,
    AllowExisting,
}

#[derive(Clone, Copy, Debug, PartialEq, Eq, PartialOrd, Ord, Hash)]
pub enum Pref {
    Allowed,
    Disallowed,
}

#[derive(Clone, Copy, Debug, PartialEq, Eq, PartialOrd, Ord, Hash)]
pub enum Op {
    SetDefault(Def),
    SetPref(Res, Pref),
    RemovePref(Res),
    AddDep(Badge),
    RemoveDep(Badge),
    /// A sends 5 R1 into B with the plain, owner-authorised `deposit`
    HoldR1,
    /// B's owner withdraws all R1 (the vault stays, empty)
    EmptyR1,
}

fn all_ops() -> Vec<Op> {
    let mut v = vec![Op::SetDefault(Def::Reject), Op::SetDefault(Def::AllowExisting), Op::SetDefault(Def::Accept)];
    for r in RES {
        v.push(Op::SetPref(r, Pref::Disallowed));
        v.push(Op::SetPref(r, Pref::Allowed));
        v.push(Op::RemovePref(r));
    }
    for b in BADGES {
        v.push(Op::AddDep(b));
        v.push(Op::RemoveDep(b));
    }
    v.push(Op::HoldR1);
    v.push(Op::EmptyR1);
    v
}

#[derive(Clone, Copy, Debug, PartialEq, Eq, PartialOrd, Ord, Hash)]
pub enum Method {
    RefundOne,
    AbortOne,
    RefundBatch,
    AbortBatch,
    PlainOne,
    PlainBatch,
}

#[derive(Clone, Copy, Debug, PartialEq, Eq, PartialOrd, Ord, Hash)]
pub enum ProofKind {
    NoProof,
    OfBres,
    OfBnf1,
    OfBnf2,
}

#[derive(Clone, Copy, Debug, PartialEq, Eq)]
pub struct Attempt {
    pub method: Method,
    pub batch: usize,
    pub named: Option<Badge>,
    pub proof: ProofKind,
    /// B's owner signs (only varied for the plain methods)
    pub owner: bool,
}

/// one bucket: fungible amount of a resource, or one non-fungible id of R2
#[derive(Clone, Debug, PartialEq, Eq)]
pub enum Bk {
    F(Res, Decimal),
    N(Res, u64),
}
impl Bk {
    fn res(&self) -> Res {
        match self {
            Bk::F(r, _) | Bk::N(r, _) => *r,
        }
    }
}

fn batches() -> Vec<Vec<Bk>> {
    vec![
        vec![Bk::F(Res::Xrd, dec!(1))],
        vec![Bk::F(Res::R1, dec!(1))],
        vec![Bk::N(Res::R2, 1)],
        vec![Bk::F(Res::R1, dec!(1)), Bk::N(Res::R2, 1)],
        vec![Bk::F(Res::Xrd, dec!(1)), Bk::N(Res::R2, 1)],
        vec![Bk::F(Res::R1, dec!(1)), Bk::F(Res::R1, dec!(2))],
        vec![],
    ]
}

fn badge_combos() -> Vec<(Option<Badge>, ProofKind)> {
    vec![
        (None, ProofKind::NoProof),
        (None, ProofKind::OfBres),
        (Some(Badge::Bres), ProofKind::NoProof),
        (Some(Badge::Bres), ProofKind::OfBres),
        (Some(Badge::Bres), ProofKind::OfBnf1), // a proof, but of another badge
        (Some(Badge::Bnf1), ProofKind::NoProof),
        (Some(Badge::Bnf1), ProofKind::OfBnf1),
        (Some(Badge::Bnf1), ProofKind::OfBnf2), // same badge resource, other id
    ]
}

fn all_attempts() -> Vec<Attempt> {
    let mut v = vec![];
    for method in [Method::RefundOne, Method::AbortOne] {
        for batch in 0..3 {
            for (named, proof) in badge_combos() {
                v.push(Attempt { method, batch, named, proof, owner: false });
            }
        }
    }
    for method in [Method::RefundBatch, Method::AbortBatch] {
        for batch in 0..batches().len() {
            for (named, proof) in badge_combos() {
                v.push(Attempt { method, batch, named, proof, owner: false });
            }
        }
    }
    for owner in [true, false] {
        v.push(Attempt { method: Method::PlainOne, batch: 1, named: None, proof: ProofKind::NoProof, owner });
        v.push(Attempt { method: Method::PlainOne, batch: 2, named: None, proof: ProofKind::NoProof, owner });
        v.push(Attempt { method: Method::PlainBatch, batch: 3, named: None, proof: ProofKind::NoProof, owner });
    }
    v
}

fn proven(named: Badge, proof: ProofKind) -> bool {
    matches!((named, proof), (Badge::Bres, ProofKind::OfBres) | (Badge::Bnf1, ProofKind::OfBnf1))
}

// ------------------------------------------------------------------------------------------------
// reference model
// ------------------------------------------------------------------------------------------------

#[derive(Clone, Debug, PartialEq, Eq)]
pub struct Model {
    pub default: Def,
    pub prefs: BTreeMap<Res, Pref>,
    pub deps: BTreeSet<Badge>,
    /// what B has ever received, by the history: resource -> current amount (entry = "a vault was needed")
    pub held: BTreeMap<Res, Decimal>,
}

impl Model {
    fn new() -> Self {
        Model { default: Def::Accept, prefs: BTreeMap::new(), deps: BTreeSet::new(), held: BTreeMap::new() }
    }
    /// `empty_is_held`: reading of "already holds" for a resource B received and fully gave away again
    fn allowed(&self, r: Res, empty_is_held: bool) -> bool {
        match self.prefs.get(&r) {
            Some(Pref::Allowed) => true,
            Some(Pref::Disallowed) => false,
            None => match self.default {
                Def::Accept => true,
                Def::Reject => false,
                Def::AllowExisting => {
                    r == Res::Xrd
                        || match self.held.get(&r) {
                            None => false,
                            Some(a) => a.is_positive() || empty_is_held,
                        }
                }
            },
        }
    }
}

#[derive(Clone, Copy, Debug, PartialEq, Eq)]
pub enum Exp {
    DepositedAllAllowed,
    DepositedByBadge,
    Refunded,
    FailBadgeNotProven,
    FailAbort,
}

impl Exp {
    fn label(&self) -> &'static str {
        match self {
            Exp::DepositedAllAllowed => "deposited(all-allowed)",
            Exp::DepositedByBadge => "deposited(listed-badge-proven)",
            Exp::Refunded => "refunded(all-buckets-returned)",
            Exp::FailBadgeNotProven => "failed(listed-badge-not-proven)",
            Exp::FailAbort => "failed(abort-variant)",
        }
    }
    fn deposited(&self) -> bool {
        matches!(self, Exp::DepositedAllAllowed | Exp::DepositedByBadge)
    }
}

/// The statement's decision table.
fn expect(m: &Model, at: &Attempt, batch: &[Bk], empty_is_held: bool) -> Exp {
    let refund = matches!(at.method, Method::RefundOne | Method::RefundBatch);
    let any_refused = batch.iter().any(|b| !m.allowed(b.res(), empty_is_held));
    if !any_refused {
        return Exp::DepositedAllAllowed;
    }
    match at.named {
        Some(b) if m.deps.contains(&b) => {
            if proven(b, at.proof) {
                Exp::DepositedByBadge
            } else {
                Exp::FailBadgeNotProven
            }
        }
        _ => {
            if refund {
                Exp::Refunded
            } else {
                Exp::FailAbort
            }
        }
    }
}

// ------------------------------------------------------------------------------------------------
// world
// ------------------------------------------------------------------------------------------------

#[derive(Clone, Debug)]
pub struct W {
    pub a: ComponentAddress,
    pub sig_a: NonFungibleGlobalId,
    pub b: ComponentAddress,
    pub sig_b: NonFungibleGlobalId,
    pub c: ComponentAddress,
    pub r1: ResourceAddress,
    pub r2: ResourceAddress,
    pub bres: ResourceAddress,
    pub bnf: ResourceAddress,
}

impl W {
    fn res(&self, r: Res) -> ResourceAddress {
        match r {
            Res::Xrd => XRD,
            Res::R1 => self.r1,
            Res::R2 => self.r2,
        }
    }
    fn badge(&self, b: Badge) -> ResourceOrNonFungible {
        match b {
            Badge::Bres => ResourceOrNonFungible::Resource(self.bres),
            Badge::Bnf1 => ResourceOrNonFungible::NonFungible(NonFungibleGlobalId::new(self.bnf, NonFungibleLocalId::integer(1))),
        }
    }
}

/// A (source, pays fees, holds all resources and badges), C (sink for whatever the call returns, default
/// rule Accept, already holds every resource), B (subject: fresh account, owner = sig_b, no vault at all).
pub fn build_root() -> (Snap, W) {
    let mut sim = new_sim();
    let (pk_a, _, a) = sim.new_account(true);
    let (_pk_c, _, c) = sim.new_account(true);
    let (pk_b, _) = sim.new_key_pair();
    let sig_a = NonFungibleGlobalId::from_public_key(&pk_a);
    let sig_b = NonFungibleGlobalId::from_public_key(&pk_b);
    let r = sim.execute_manifest(
        ManifestBuilder::new().lock_fee_from_faucet().new_account_advanced(OwnerRole::Fixed(rule!(require(sig_b.clone()))), None).build(),
        vec![],
    );
    let b = r.expect_commit_success().new_component_addresses()[0];
    let r1 = sim.create_fungible_resource(dec!(1000), 18, a);
    let r2 = sim.create_non_fungible_resource(a);
    let bres = sim.create_fungible_resource(dec!(10), 0, a);
    let bnf = sim.create_non_fungible_resource(a);
    let w = W { a, sig_a, b, sig_b, c, r1, r2, bres, bnf };
    // C already holds R1 and R2#3 so that refunds never create vaults in C
    let m = ManifestBuilder::new()
        .lock_fee(a, dec!(20))
        .withdraw_from_account(a, r1, dec!(7))
        .withdraw_non_fungibles_from_account(a, r2, [NonFungibleLocalId::integer(3)])
        .try_deposit_entire_worktop_or_abort(c, None)
        .build();
    sim.execute_manifest(m, vec![w.sig_a.clone()]).expect_commit_success();
    (sim.create_snapshot(), w)
}

// ------------------------------------------------------------------------------------------------
// reading B back from the database
// ------------------------------------------------------------------------------------------------

fn holdings(sim: &mut Sim, acct: ComponentAddress) -> Result<BTreeMap<ResourceAddress, Holding>, String> {
    let raw = collection_raw(sim, acct.as_node_id(), AccountCollection::ResourceVaultKeyValue.collection_index());
    let mut out = BTreeMap::new();
    for (k, v) in raw {
        let ra: ResourceAddress = scrypto_decode(&k).map_err(|e| format!("vault key: {e:?}"))?;
        match kv_value::<AccountResourceVaultEntryPayload>(&v)? {
            Some(p) => {
                let vault = p.fully_update_and_into_latest_version();
                out.insert(ra, vault_holding(sim, *vault.0.as_node_id()));
            }
            None => {
                out.insert(ra, Holding { amount: Decimal::ZERO, ids: BTreeSet::new(), vault: None });
            }
        }
    }
    Ok(out)
}

/// Raw stored configuration of an account: deposit-rule field, preference entries, depositor entries.
fn config_raw(sim: &Sim, acct: ComponentAddress) -> (Option<Vec<u8>>, BTreeMap<Vec<u8>, Vec<u8>>, BTreeMap<Vec<u8>, Vec<u8>>) {
    let rule = sim.substate_db().get_raw_substate(acct.as_node_id(), MAIN_BASE_PARTITION, SubstateKey::Field(AccountField::DepositRule.field_index()));
    let prefs = collection_raw(sim, acct.as_node_id(), AccountCollection::ResourcePreferenceKeyValue.collection_index());
    let deps = collection_raw(sim, acct.as_node_id(), AccountCollection::AuthorizedDepositorKeyValue.collection_index());
    (rule, prefs, deps)
}

// ------------------------------------------------------------------------------------------------
// the configuration machine
// ------------------------------------------------------------------------------------------------

pub struct Cfg {
    pub root: Snap,
    pub w: W,
    pub batches: Vec<Vec<Bk>>,
    /// fingerprint -> lexicographically least shortest history (filled during the search)
    pub found: Mutex<BTreeMap<Vec<u8>, Vec<Op>>>,
}

pub struct St {
    pub sim: Sim,
    pub model: Model,
    pub hist: Vec<Op>,
    pub fp: Vec<u8>,
}

impl Cfg {
    fn op_manifest(&self, model: &Model, op: &Op) -> (TransactionManifestV1, Vec<NonFungibleGlobalId>) {
        let w = &self.w;
        let mb = ManifestBuilder::new().lock_fee(w.a, dec!(20));
        let both = vec![w.sig_a.clone(), w.sig_b.clone()];
        let m = match op {
            Op::SetDefault(d) => {
                let d = match d {
                    Def::Accept => DefaultDepositRule::Accept,
                    Def::Reject => DefaultDepositRule::Reject,
                    Def::AllowExisting => DefaultDepositRule::AllowExisting,
                };
                mb.call_method(w.b, ACCOUNT_SET_DEFAULT_DEPOSIT_RULE_IDENT, AccountSetDefaultDepositRuleInput { default: d })
            }
            Op::SetPref(r, p) => {
                let p = match p {
                    Pref::Allowed => ResourcePreference::Allowed,
                    Pref::Disallowed => ResourcePreference::Disallowed,
                };
                mb.call_method(w.b, ACCOUNT_SET_RESOURCE_PREFERENCE_IDENT, AccountSetResourcePreferenceInput { resource_address: w.res(*r), resource_preference: p })
            }
            Op::RemovePref(r) => mb.call_method(w.b, ACCOUNT_REMOVE_RESOURCE_PREFERENCE_IDENT, AccountRemoveResourcePreferenceInput { resource_address: w.res(*r) }),
            Op::AddDep(b) => mb.call_method(w.b, ACCOUNT_ADD_AUTHORIZED_DEPOSITOR_IDENT, AccountAddAuthorizedDepositorInput { badge: w.badge(*b) }),
            Op::RemoveDep(b) => mb.call_method(w.b, ACCOUNT_REMOVE_AUTHORIZED_DEPOSITOR_IDENT, AccountRemoveAuthorizedDepositorInput { badge: w.badge(*b) }),
            Op::HoldR1 => mb.withdraw_from_account(w.a, w.r1, dec!(5)).take_all_from_worktop(w.r1, "x").deposit(w.b, "x"),
            Op::EmptyR1 => {
                let amt = model.held.get(&Res::R1).copied().unwrap_or(dec!(5));
                mb.withdraw_from_account(w.b, w.r1, amt).try_deposit_entire_worktop_or_abort(w.a, None)
            }
        };
        (m.build(), both)
    }

    /// Apply a configuration op to the real account and (on success) to the model.
    fn apply(&self, st: &mut St, op: &Op) -> Result<String, (String, String)> {
        let (m, proofs) = self.op_manifest(&st.model, op);
        let receipt = match exec(&mut st.sim, m, proofs) {
            Ok(r) => r,
            Err(p) => return Err((format!("panic@{}", mc_core::last_panic_location()), format!("configuration transaction {op:?} panicked: {p}"))),
        };
        st.hist.push(*op);
        let ok = is_success(&receipt);
        if ok {
            match op {
                Op::SetDefault(d) => st.model.default = *d,
                Op::SetPref(r, p) => {
                    st.model.prefs.insert(*r, *p);
                }
                Op::RemovePref(r) => {
                    st.model.prefs.remove(r);
                }
                Op::AddDep(b) => {
                    st.model.deps.insert(*b);
                }
                Op::RemoveDep(b) => {
                    st.model.deps.remove(b);
                }
                Op::HoldR1 => {
                    let e = st.model.held.entry(Res::R1).or_insert(Decimal::ZERO);
                    *e = e.checked_add(dec!(5)).unwrap();
                }
                Op::EmptyR1 => {
                    st.model.held.insert(Res::R1, Decimal::ZERO);
                }
            }
        }
        let kind = match op {
            Op::SetDefault(_) => "set-default",
            Op::SetPref(..) => "set-preference",
            Op::RemovePref(_) => "remove-preference",
            Op::AddDep(_) => "add-depositor",
            Op::RemoveDep(_) => "remove-depositor",
            Op::HoldR1 => "owner-deposit-r1",
            Op::EmptyR1 => "owner-withdraw-r1",
        };
        Ok(format!("config:{kind}:{}", receipt_class(&receipt)))
    }

    fn replay(&self, hist: &[Op]) -> St {
        let mut st = self.init();
        for op in hist {
            if let Err((k, w)) = self.apply(&mut st, op) {
                mc_core::machinery_error(&format!("replay of a configuration history failed: {k}: {w}"));
            }
        }
        st
    }

    fn compute_fp(&self, st: &mut St) -> Vec<u8> {
        let s = format!("{}#{:?}", self.real_fp(&mut st.sim), st.model);
        mc_core::fp128(s.as_bytes())
    }

    fn real_fp(&self, sim: &mut Sim) -> String {
        let (rule, prefs, deps) = config_raw(sim, self.w.b);
        // vault ids depend on transaction hashes (history), contents do not
        let held: Vec<String> = match holdings(sim, self.w.b) {
            Ok(h) => h.iter().map(|(ra, h)| format!("{}:{}:{:?}:{}", mc_core::hex(ra.as_node_id().as_bytes()), h.amount, h.ids, h.vault.is_some())).collect(),
            Err(e) => vec![format!("unreadable:{e}")],
        };
        format!("{rule:?}|{prefs:?}|{deps:?}|{held:?}")
    }
}

impl Machine for Cfg {
    type Op = Op;
    type St = St;

    fn init(&self) -> St {
        let mut st = St { sim: sim_from(&self.root), model: Model::new(), hist: vec![], fp: vec![] };
        st.fp = self.compute_fp(&mut st);
        st
    }

    fn ops(&self, st: &St, _depth: usize) -> Vec<Op> {
        let holds = st.model.held.get(&Res::R1).map(|a| a.is_positive()).unwrap_or(false);
        all_ops()
            .into_iter()
            .filter(|op| match op {
                Op::HoldR1 => !holds,
                Op::EmptyR1 => holds,
                _ => true,
            })
            .collect()
    }

    fn fork(&self, st: &St) -> Option<St> {
        Some(St { sim: sim_from(&st.sim.create_snapshot()), model: st.model.clone(), hist: st.hist.clone(), fp: st.fp.clone() })
    }

    fn step(&self, st: &mut St, op: &Op) -> Result<String, (String, String)> {
        let class = self.apply(st, op)?;
        st.fp = self.compute_fp(st);
        let fp = st.fp.clone();
        let mut g = self.found.lock().unwrap();
        let better = match g.get(&fp) {
            None => true,
            Some(old) => (st.hist.len(), &st.hist) < (old.len(), old),
        };
        if better {
            g.insert(fp, st.hist.clone());
        }
        Ok(class)
    }

    fn fingerprint(&self, st: &St) -> Vec<u8> {
        st.fp.clone()
    }
}

// ------------------------------------------------------------------------------------------------
// deposit attempts
// ------------------------------------------------------------------------------------------------

struct Pre {
    b_hold: BTreeMap<ResourceAddress, Holding>,
    c_hold: BTreeMap<ResourceAddress, Holding>,
    a_hold: BTreeMap<ResourceAddress, Holding>,
    b_cfg: (Option<Vec<u8>>, BTreeMap<Vec<u8>, Vec<u8>>, BTreeMap<Vec<u8>, Vec<u8>>),
}

#[derive(Debug, Clone, PartialEq, Eq)]
enum Kind {
    /// committed successfully, B gained exactly all buckets, nothing came back
    DepositedAll,
    /// committed successfully, B unchanged, everything came back
    RefundedAll,
    /// committed successfully, something else happened (partial deposit, loss, ...)
    SuccessOther(String),
    Failed(String),
    Rejected(String),
    Panicked(String),
}

impl Kind {
    fn label(&self) -> String {
        match self {
            Kind::DepositedAll => "deposited-all".into(),
            Kind::RefundedAll => "refunded-all".into(),
            Kind::SuccessOther(_) => "success-other".into(),
            Kind::Failed(_) => "failed".into(),
            Kind::Rejected(_) => "rejected".into(),
            Kind::Panicked(_) => "panicked".into(),
        }
    }
}

struct Obs {
    kind: Kind,
    /// problems with "only B's vaults of the deposited resources change" (statement-level)
    frame: Vec<String>,
    /// written nodes outside A, B, C and their vaults (informational)
    other_nodes: BTreeSet<String>,
    rejected_events: usize,
    returned_buckets: Option<usize>,
    failure: String,
}

fn sum_buckets(w: &W, batch: &[Bk]) -> BTreeMap<ResourceAddress, (Decimal, BTreeSet<NonFungibleLocalId>)> {
    let mut m: BTreeMap<ResourceAddress, (Decimal, BTreeSet<NonFungibleLocalId>)> = BTreeMap::new();
    for b in batch {
        match b {
            Bk::F(r, a) => {
                let e = m.entry(w.res(*r)).or_default();
                e.0 = e.0.checked_add(*a).unwrap();
            }
            Bk::N(r, id) => {
                let e = m.entry(w.res(*r)).or_default();
                e.0 = e.0.checked_add(Decimal::ONE).unwrap();
                e.1.insert(NonFungibleLocalId::integer(*id));
            }
        }
    }
    m
}

/// before + delta == after on amounts and ids, for every resource either side knows
fn holds_plus(
    before: &BTreeMap<ResourceAddress, Holding>,
    delta: &BTreeMap<ResourceAddress, (Decimal, BTreeSet<NonFungibleLocalId>)>,
    after: &BTreeMap<ResourceAddress, Holding>,
    skip: Option<ResourceAddress>,
) -> Result<(), String> {
    let keys: BTreeSet<ResourceAddress> = before.keys().chain(after.keys()).chain(delta.keys()).copied().collect();
    for k in keys {
        if Some(k) == skip {
            continue;
        }
        let z = Holding::default();
        let b = before.get(&k).unwrap_or(&z);
        let a = after.get(&k).unwrap_or(&z);
        let (da, dids) = delta.get(&k).cloned().unwrap_or_default();
        let want_amt = b.amount.checked_add(da).unwrap();
        let want_ids: BTreeSet<NonFungibleLocalId> = b.ids.union(&dids).cloned().collect();
        if a.amount != want_amt || a.ids != want_ids {
            return Err(format!("resource {k:?}: before {} {:?}, expected change +{da} {dids:?}, after {} {:?}", b.amount, b.ids, a.amount, a.ids));
        }
        if before.contains_key(&k) && !after.contains_key(&k) {
            return Err(format!("resource {k:?}: vault entry disappeared"));
        }
        if !delta.contains_key(&k) && before.contains_key(&k) != after.contains_key(&k) {
            return Err(format!("resource {k:?}: vault entry appeared for a resource that was not deposited"));
        }
        if let (Some(vb), Some(va)) = (before.get(&k), after.get(&k)) {
            if vb.vault != va.vault {
                return Err(format!("resource {k:?}: vault replaced {:?} -> {:?}", vb.vault, va.vault));
            }
        }
    }
    Ok(())
}

impl Cfg {
    fn pre(&self, sim: &mut Sim) -> Pre {
        let rd = |sim: &mut Sim, a| holdings(sim, a).unwrap_or_else(|e| mc_core::machinery_error(&format!("cannot read holdings: {e}")));
        Pre { b_hold: rd(sim, self.w.b), c_hold: rd(sim, self.w.c), a_hold: rd(sim, self.w.a), b_cfg: config_raw(sim, self.w.b) }
    }

    fn attempt_manifest(&self, at: &Attempt) -> (TransactionManifestV1, Vec<NonFungibleGlobalId>) {
        let w = &self.w;
        let batch = &self.batches[at.batch];
        let mut mb = ManifestBuilder::new().lock_fee(w.a, dec!(20));
        mb = match at.proof {
            ProofKind::NoProof => mb,
            ProofKind::OfBres => mb.create_proof_from_account_of_amount(w.a, w.bres, dec!(1)),
            ProofKind::OfBnf1 => mb.create_proof_from_account_of_non_fungibles(w.a, w.bnf, [NonFungibleLocalId::integer(1)]),
            ProofKind::OfBnf2 => mb.create_proof_from_account_of_non_fungibles(w.a, w.bnf, [NonFungibleLocalId::integer(2)]),
        };
        let mut names: Vec<String> = vec![];
        for (i, b) in batch.iter().enumerate() {
            let name = format!("b{i}");
            mb = match b {
                Bk::F(r, a) => mb.withdraw_from_account(w.a, w.res(*r), *a).take_from_worktop(w.res(*r), *a, name.clone()),
                Bk::N(r, id) => {
                    let ids = [NonFungibleLocalId::integer(*id)];
                    mb.withdraw_non_fungibles_from_account(w.a, w.res(*r), ids.clone()).take_non_fungibles_from_worktop(w.res(*r), ids, name.clone())
                }
            };
            names.push(name);
        }
        let badge = at.named.map(|b| w.badge(b));
        mb = match at.method {
            Method::RefundOne => mb.try_deposit_or_refund(w.b, badge, names[0].clone()),
            Method::AbortOne => mb.try_deposit_or_abort(w.b, badge, names[0].clone()),
            Method::RefundBatch => mb.try_deposit_batch_or_refund(w.b, names.clone(), badge),
            Method::AbortBatch => mb.try_deposit_batch_or_abort(w.b, names.clone(), badge),
            Method::PlainOne => mb.deposit(w.b, names[0].clone()),
            Method::PlainBatch => mb.deposit_batch(w.b, names.clone()),
        };
        mb = mb.try_deposit_entire_worktop_or_abort(w.c, None);
        let mut proofs = vec![w.sig_a.clone()];
        if at.owner {
            proofs.push(w.sig_b.clone());
        }
        (mb.build(), proofs)
    }

    fn run_attempt(&self, sim: &mut Sim, pre: &Pre, at: &Attempt) -> Obs {
        let w = &self.w;
        let batch = &self.batches[at.batch];
        let (m, proofs) = self.attempt_manifest(at);
        let n_instr = m.instructions.len();
        let mut obs = Obs { kind: Kind::Failed(String::new()), frame: vec![], other_nodes: BTreeSet::new(), rejected_events: 0, returned_buckets: None, failure: String::new() };
        let receipt = match exec(sim, m, proofs) {
            Ok(r) => r,
            Err(p) => {
                obs.kind = Kind::Panicked(format!("{p} @ {}", mc_core::last_panic_location()));
                return obs;
            }
        };
        obs.failure = failure_text(&receipt);
        let c = match &receipt.result {
            TransactionResult::Commit(c) => c,
            _ => {
                obs.kind = Kind::Rejected(obs.failure.clone());
                return obs;
            }
        };
        // events emitted by B
        for (id, _) in &c.application_events {
            if let Emitter::Method(node, ModuleId::Main) = &id.0 {
                if node == w.b.as_node_id() && sim.is_event_name_equal::<RejectedDepositEvent>(id) {
                    obs.rejected_events += 1;
                }
            }
        }
        // what B, C, A hold now
        let b_after = holdings(sim, w.b);
        let c_after = holdings(sim, w.c);
        let a_after = holdings(sim, w.a);
        let (b_after, c_after, a_after) = match (b_after, c_after, a_after) {
            (Ok(b), Ok(c), Ok(a)) => (b, c, a),
            (b, c, a) => {
                obs.kind = Kind::SuccessOther(format!("account state unreadable after the transaction: {:?} {:?} {:?}", b.err(), c.err(), a.err()));
                return obs;
            }
        };
        let all = sum_buckets(w, batch);
        let none = BTreeMap::new();
        let success = matches!(c.outcome, TransactionOutcome::Success(_));
        let deposited_all = holds_plus(&pre.b_hold, &all, &b_after, None).is_ok() && holds_plus(&pre.c_hold, &none, &c_after, None).is_ok();
        let refunded_all = holds_plus(&pre.b_hold, &none, &b_after, None).is_ok() && holds_plus(&pre.c_hold, &all, &c_after, None).is_ok();
        if let TransactionOutcome::Success(outputs) = &c.outcome {
            // output of the call on B = second to last instruction
            if let Some(InstructionOutput::CallReturn(bytes)) = outputs.get(n_instr - 2) {
                obs.returned_buckets = count_owned(bytes).ok();
            }
        }
        obs.kind = if !success {
            Kind::Failed(obs.failure.clone())
        } else if batch.is_empty() {
            // nothing to move: both descriptions coincide
            if deposited_all {
                Kind::DepositedAll
            } else {
                Kind::SuccessOther("empty batch changed balances".into())
            }
        } else if deposited_all {
            Kind::DepositedAll
        } else if refunded_all {
            Kind::RefundedAll
        } else {
            let mut d = String::new();
            if let Err(e) = holds_plus(&pre.b_hold, &all, &b_after, None) {
                d.push_str(&format!("not a full deposit into B ({e}); "));
            }
            if let Err(e) = holds_plus(&pre.b_hold, &none, &b_after, None) {
                d.push_str(&format!("B changed ({e}); "));
            }
            if let Err(e) = holds_plus(&pre.c_hold, &all, &c_after, None) {
                d.push_str(&format!("not everything came back ({e}); "));
            }
            Kind::SuccessOther(d)
        };
        // ---- frame: only B's vaults of the deposited resources change ----
        let cfg_after = config_raw(sim, w.b);
        if cfg_after != pre.b_cfg {
            obs.frame.push("B's stored configuration (deposit rule / preferences / authorised depositors) changed".into());
        }
        if !success {
            if let Err(e) = holds_plus(&pre.b_hold, &none, &b_after, None) {
                obs.frame.push(format!("failed transaction changed B: {e}"));
            }
            if let Err(e) = holds_plus(&pre.c_hold, &none, &c_after, None) {
                obs.frame.push(format!("failed transaction changed C: {e}"));
            }
        }
        // conservation on the source side (XRD excluded: A pays the fee)
        if success {
            let mut minus = BTreeMap::new();
            for (k, (a, ids)) in &all {
                minus.insert(*k, (a.checked_neg().unwrap(), ids.clone()));
            }
            // ids leave A: check amounts only through a dedicated comparison
            for (k, (da, ids)) in &minus {
                if *k == XRD {
                    continue;
                }
                let z = Holding::default();
                let before = pre.a_hold.get(k).unwrap_or(&z);
                let after = a_after.get(k).unwrap_or(&z);
                let want_ids: BTreeSet<NonFungibleLocalId> = before.ids.difference(ids).cloned().collect();
                if after.amount != before.amount.checked_add(*da).unwrap() || after.ids != want_ids {
                    obs.frame.push(format!("source account A: resource {k:?} before {} after {} (withdrawn {})", before.amount, after.amount, da));
                }
            }
        }
        // written substates under B, and written nodes elsewhere
        let t = touched(c, w.b.as_node_id());
        let deposited_now = matches!(obs.kind, Kind::DepositedAll) && success;
        let vault_part = vault_partition(sim, w.b);
        let allowed_keys: BTreeSet<Vec<u8>> = if deposited_now { all.keys().map(|ra| scrypto_encode(ra).unwrap()).collect() } else { BTreeSet::new() };
        if t.focus_reset {
            obs.frame.push("a whole partition of B was reset".into());
        }
        for (p, k) in &t.focus {
            let ok = Some(*p) == vault_part && matches!(k, SubstateKey::Map(m) if allowed_keys.contains(m));
            if !ok {
                obs.frame.push(format!("B's own substate written: partition {p} key {k:?}"));
            }
        }
        let mut known: BTreeSet<NodeId> = BTreeSet::new();
        known.insert(*w.a.as_node_id());
        known.insert(*w.b.as_node_id());
        known.insert(*w.c.as_node_id());
        for h in pre.a_hold.values().chain(a_after.values()).chain(pre.c_hold.values()).chain(c_after.values()) {
            if let Some(v) = h.vault {
                known.insert(v);
            }
        }
        let b_vaults_allowed: BTreeSet<NodeId> = if deposited_now { all.keys().filter_map(|ra| b_after.get(ra).and_then(|h| h.vault)).collect() } else { BTreeSet::new() };
        let b_vaults_all: BTreeSet<NodeId> = pre.b_hold.values().chain(b_after.values()).filter_map(|h| h.vault).collect();
        for n in &t.nodes {
            if known.contains(n) {
                continue;
            }
            if b_vaults_all.contains(n) {
                if !b_vaults_allowed.contains(n) {
                    obs.frame.push(format!("a vault of B for a resource that was not deposited was written: {n:?}"));
                }
                continue;
            }
            if n.is_internal_vault() {
                // a vault nobody in this world accounts for (fee/validator vaults are listed informationally)
                obs.other_nodes.insert(format!("vault:{:?}", n.entity_type()));
            } else {
                obs.other_nodes.insert(format!("{:?}", n.entity_type()));
            }
        }
        obs
    }
}

fn vault_partition(sim: &Sim, acct: ComponentAddress) -> Option<u8> {
    radix_engine::system::system_db_reader::SystemDatabaseReader::new(sim.substate_db())
        .get_partition_of_collection(acct.as_node_id(), ModuleId::Main, AccountCollection::ResourceVaultKeyValue.collection_index())
        .ok()
        .map(|p| p.0)
}

fn method_label(m: Method) -> &'static str {
    match m {
        Method::RefundOne => "try_deposit_or_refund",
        Method::AbortOne => "try_deposit_or_abort",
        Method::RefundBatch => "try_deposit_batch_or_refund",
        Method::AbortBatch => "try_deposit_batch_or_abort",
        Method::PlainOne => "deposit",
        Method::PlainBatch => "deposit_batch",
    }
}

fn matches_exp(exp: Exp, kind: &Kind) -> bool {
    match exp {
        Exp::DepositedAllAllowed | Exp::DepositedByBadge => matches!(kind, Kind::DepositedAll),
        Exp::Refunded => matches!(kind, Kind::RefundedAll),
        Exp::FailBadgeNotProven | Exp::FailAbort => matches!(kind, Kind::Failed(_)),
    }
}

struct Verdict {
    nontrivial: bool,
}

impl Cfg {
    /// Judge one attempt in one state. Violations are recorded on `local`.
    fn judge(&self, model: &Model, hist: &[Op], at: &Attempt, obs: &Obs, local: &mut Local) -> Verdict {
        let batch = &self.batches[at.batch];
        let case = |exp: &str| {
            json!({
                "history": hist.iter().map(|o| format!("{o:?}")).collect::<Vec<_>>(),
                "attempt": format!("{at:?}"),
                "batch": format!("{batch:?}"),
                "model": format!("{model:?}"),
                "expected": exp,
                "observed": format!("{:?}", obs.kind),
                "failure": obs.failure,
                "returned_buckets": obs.returned_buckets,
                "rejected_deposit_events": obs.rejected_events,
                "frame": obs.frame,
            })
        };
        let ml = method_label(at.method);
        local.eval();
        if let Kind::Panicked(p) = &obs.kind {
            local.violation(format!("panic:{ml}"), format!("deposit attempt panicked: {p}"), case("no panic"));
            return Verdict { nontrivial: false };
        }
        if let Kind::Rejected(r) = &obs.kind {
            // the harness pays ample fees from A: a rejection is harness trouble, not a verdict
            mc_core::machinery_error(&format!("deposit attempt rejected (harness transaction invalid): {r}"));
        }
        for o in &obs.other_nodes {
            local.info(&format!("node written outside A/B/C: {o}"));
        }
        // plain deposits, the empty batch: statement-silent
        if matches!(at.method, Method::PlainOne | Method::PlainBatch) {
            local.class(&format!("plain-{}:{}", if at.owner { "owner" } else { "no-owner" }, obs.kind.label()));
            local.info(&format!("plain {ml} {} -> {}", if at.owner { "with owner auth" } else { "without owner auth" }, obs.kind.label()));
            if !obs.frame.is_empty() {
                local.info("plain deposit: frame remark");
            }
            return Verdict { nontrivial: false };
        }
        if batch.is_empty() {
            local.info(&format!("empty batch ({ml}) -> {}", obs.kind.label()));
            return Verdict { nontrivial: false };
        }
        let e1 = expect(model, at, batch, true);
        let e2 = expect(model, at, batch, false);
        let nontrivial = e2 != Exp::DepositedAllAllowed;
        if e1 != e2 {
            // "already holds" with an existing but empty vault: either reading is accepted
            if !obs.frame.is_empty() && (matches_exp(e1, &obs.kind) || matches_exp(e2, &obs.kind)) {
                local.violation(
                    format!("frame:{ml}"),
                    format!("something other than B's vaults of the deposited resources changed: {}", obs.frame.join("; ")),
                    case(&format!("{} or {}", e1.label(), e2.label())),
                );
            } else if matches_exp(e1, &obs.kind) {
                local.info("AllowExisting with an empty vault: engine treats the resource as held");
                local.class(&format!("{}[empty-vault-ambiguous]", e1.label()));
            } else if matches_exp(e2, &obs.kind) {
                local.info("AllowExisting with an empty vault: engine treats the resource as not held");
                local.class(&format!("{}[empty-vault-ambiguous]", e2.label()));
            } else {
                local.violation(
                    format!("{ml}:expected-{}-or-{}:observed-{}", e1.label(), e2.label(), obs.kind.label()),
                    "outcome matches neither reading of 'already holds' for an empty vault".to_string(),
                    case(&format!("{} or {}", e1.label(), e2.label())),
                );
            }
            return Verdict { nontrivial };
        }
        let exp = e1;
        if !matches_exp(exp, &obs.kind) {
            local.violation(
                format!("{ml}:expected-{}:observed-{}", exp.label(), obs.kind.label()),
                format!("decision table says {} but the engine did: {:?}", exp.label(), obs.kind),
                case(exp.label()),
            );
            return Verdict { nontrivial };
        }
        // frame condition holds in every case
        if !obs.frame.is_empty() {
            local.violation(
                format!("frame:{ml}"),
                format!("something other than B's vaults of the deposited resources changed: {}", obs.frame.join("; ")),
                case(exp.label()),
            );
            return Verdict { nontrivial };
        }
        // "return all buckets untouched": as many buckets come back as went in
        if exp == Exp::Refunded {
            if let Some(n) = obs.returned_buckets {
                if n != batch.len() {
                    local.violation(
                        format!("{ml}:refund-bucket-count"),
                        format!("{} buckets went in, {n} came back", batch.len()),
                        case(exp.label()),
                    );
                    return Verdict { nontrivial };
                }
            } else {
                local.info("refund: returned value not decodable for bucket count");
            }
        }
        if exp.deposited() {
            if let Some(n) = obs.returned_buckets {
                if n != 0 {
                    local.violation(format!("{ml}:deposit-returned-buckets"), format!("everything deposited but {n} buckets returned"), case(exp.label()));
                    return Verdict { nontrivial };
                }
            }
        }
        // events: informational
        let refused = batch.iter().filter(|b| !model.allowed(b.res(), true)).count();
        match exp {
            Exp::Refunded => {
                if obs.rejected_events == refused {
                    local.info("refund: one RejectedDepositEvent per refused bucket");
                } else {
                    local.info("refund: RejectedDepositEvent count differs from refused buckets");
                }
            }
            Exp::DepositedAllAllowed | Exp::DepositedByBadge => {
                if obs.rejected_events != 0 {
                    local.info("deposit succeeded but RejectedDepositEvent emitted");
                }
            }
            _ => {}
        }
        local.class(exp.label());
        local.sample(|| case(exp.label()));
        Verdict { nontrivial }
    }
}

// ------------------------------------------------------------------------------------------------
// driver
// ------------------------------------------------------------------------------------------------

fn parse_by_debug<T: std::fmt::Debug + Clone>(all: &[T], s: &str) -> Option<T> {
    all.iter().find(|x| format!("{x:?}") == s).cloned()
}

fn replay(ctx: Ctx, m: &Cfg, case: Value) -> ! {
    let hist: Vec<Op> = case["history"]
        .as_array()
        .map(|a| a.iter().filter_map(|s| s.as_str()).map(|s| parse_by_debug(&all_ops(), s).unwrap_or_else(|| mc_core::machinery_error(&format!("unknown op {s}")))).collect())
        .unwrap_or_default();
    let st = m.replay(&hist);
    let mut sim = st.sim;
    println!("history: {hist:?}\nmodel: {:?}", st.model);
    let mut local = Local::new();
    if let Some(a) = case["attempt"].as_str() {
        let at = parse_by_debug(&all_attempts(), a).unwrap_or_else(|| mc_core::machinery_error(&format!("unknown attempt {a}")));
        let pre = m.pre(&mut sim);
        let obs = m.run_attempt(&mut sim, &pre, &at);
        let batch = &m.batches[at.batch];
        println!("attempt: {at:?}\nbatch: {batch:?}");
        if !matches!(at.method, Method::PlainOne | Method::PlainBatch) && !batch.is_empty() {
            println!("expected: {} (empty vault counted as held) / {} (not held)", expect(&st.model, &at, batch, true).label(), expect(&st.model, &at, batch, false).label());
        }
        println!("observed: {:?}\nfailure: {}\nreturned buckets: {:?}\nrejected events: {}\nframe: {:?}", obs.kind, obs.failure, obs.returned_buckets, obs.rejected_events, obs.frame);
        m.judge(&st.model, &hist, &at, &obs, &mut local);
    }
    ctx.merge(local);
    ctx.finish(Level::ModelChecking, "replay", 0, false, Default::default(), &[])
}

pub fn run(ctx: Ctx) -> ! {
    let (root, w) = build_root();
    let m = Cfg { root, w, batches: batches(), found: Mutex::new(BTreeMap::new()) };
    if let Some(case) = ctx.read_replay_case() {
        replay(ctx, &m, case);
    }
    let attempts = all_attempts();
    // ---- layer 1: configuration states ----
    let (depth, cap_states, wall1) = if ctx.quick() { (2usize, 100_000u64, 20.0) } else { (64usize, 100_000u64, 300.0) };
    let depth = std::env::var("C39_DEPTH").ok().and_then(|s| s.parse().ok()).unwrap_or(depth);
    let mut stats = bfs(&ctx, &m, "account-config", depth, cap_states, wall1);
    if std::env::var("C39_PHASE1_ONLY").is_ok() {
        println!("phase 1: {stats:?} wall {:.1}", ctx.elapsed_s());
        std::process::exit(0);
    }
    let mut states: Vec<Vec<Op>> = vec![vec![]];
    {
        let g = m.found.lock().unwrap();
        let root_fp = m.fingerprint(&m.init());
        for (fp, h) in g.iter() {
            if *fp != root_fp {
                states.push(h.clone());
            }
        }
    }
    states.sort_by(|a, b| (a.len(), a).cmp(&(b.len(), b)));
    if states.len() as u64 != stats.states {
        mc_core::machinery_error(&format!("configuration layer: explorer counted {} states, recorder has {}", stats.states, states.len()));
    }
    // development aid only (never set by ./check): look at every k-th configuration state
    let stride: usize = std::env::var("C39_STATE_STRIDE").ok().and_then(|s| s.parse().ok()).unwrap_or(1).max(1);
    // ---- layer 2: every attempt in every state ----
    let chunk = 83usize;
    let mut items: Vec<(usize, usize)> = vec![];
    for s in (0..states.len()).rev().step_by(stride).collect::<Vec<_>>().into_iter().rev() {
        let mut i = 0;
        while i < attempts.len() {
            items.push((s, i));
            i += chunk;
        }
    }
    let wall2 = if ctx.quick() { (54.0 - ctx.elapsed_s()).max(5.0) } else { (1150.0 - ctx.elapsed_s()).max(60.0) };
    let t0 = std::time::Instant::now();
    let skipped = std::sync::atomic::AtomicU64::new(0);
    let nontrivial = std::sync::atomic::AtomicU64::new(0);
    let done = std::sync::atomic::AtomicU64::new(0);
    par_for(&ctx, &items, |(s, i0), local| {
        if t0.elapsed().as_secs_f64() > wall2 {
            skipped.fetch_add(1, std::sync::atomic::Ordering::Relaxed);
            return;
        }
        let hist = &states[*s];
        let st = m.replay(hist);
        let mut sim = st.sim;
        let snap = sim.create_snapshot();
        let pre = m.pre(&mut sim);
        for at in attempts.iter().skip(*i0).take(chunk) {
            let obs = m.run_attempt(&mut sim, &pre, at);
            let v = m.judge(&st.model, hist, at, &obs, local);
            if v.nontrivial {
                nontrivial.fetch_add(1, std::sync::atomic::Ordering::Relaxed);
            }
            done.fetch_add(1, std::sync::atomic::Ordering::Relaxed);
            sim.restore_snapshot(snap.clone());
        }
    });
    let skipped = skipped.into_inner();
    let done = done.into_inner();
    let config_transitions = stats.transitions;
    stats.transitions += done;
    let mut cov = stats.coverage();
    cov.insert("config_states".into(), json!(states.len()));
    cov.insert("config_transitions".into(), json!(config_transitions));
    cov.insert("deposit_attempts_per_state".into(), json!(attempts.len()));
    cov.insert("deposit_attempts_executed".into(), json!(done));
    cov.insert("attempt_chunks_skipped_by_wall_cap".into(), json!(skipped));
    cov.insert("config_ops".into(), json!(all_ops().iter().map(|o| format!("{o:?}")).collect::<Vec<_>>()));
    cov.insert("batches".into(), json!(m.batches.iter().map(|b| format!("{b:?}")).collect::<Vec<_>>()));
    cov.insert("fixpoint_reached".into(), json!(!stats.capped && stats.depth_completed >= depth && depth > 8));
    let exhaustive = !stats.capped && skipped == 0 && stride == 1;
    if stride != 1 {
        ctx.note(format!("development run: only every {stride}-th configuration state was given deposit attempts"));
    }
    ctx.finish(
        Level::ModelChecking,
        "breadth-first over configuration histories of a real account (states merged by raw stored configuration incl. removed entries + model configuration); in every configuration state every deposit attempt (method x batch x named badge x proof) is executed on the engine and compared with the statement's decision table evaluated on the model; non-trivial = attempts with at least one refused bucket",
        nontrivial.into_inner(),
        exhaustive,
        cov,
        &[
            "latest protocol version (refund variants return the buckets when the named badge is not listed)",
            "resources: XRD, one fungible R1, one non-fungible R2; badges: one resource badge, one non-fungible badge (#1 listed / #2 as wrong proof)",
            "only R1 has a holding history (never / held / emptied); B never holds XRD or R2",
            "RejectedDeposit events, plain deposits, the empty batch, nodes written outside the three accounts are informational",
        ],
    )
}
