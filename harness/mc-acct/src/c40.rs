//! C40 — access controller changes need two roles or an elapsed timer.
//!
//! Shape H, finite reachable state space searched to a fixpoint on the real engine.
//!
//! Subject: a real access controller holding badge X, created with roles
//! primary = sig(K0), recovery = sig(K1), confirmation = sig(K2) and timed recovery delay in {None, 2 min}.
//! Actors: the four keys K0..K3 and "nobody" (only the fee payer signs). Proposals: P1 = rules (K3,K1,K2)
//! delay Some(5); P2 = rules (K1,K0,K3) delay None; P1d = P1's rules with delay None and P1c = P1 with another
//! confirmation rule (both only ever *passed* to confirm / stop calls, never initiated, so that "the same
//! proposal" is tested on the delay alone and on a single rule alone).
//! Actions: every method of the blueprint x every actor (so every role the template allows *and* every
//! role / outsider it does not), proposal-taking methods x proposals, a direct `set_role` on the controller's
//! role assignment, and time steps of +1 / +2 minutes (consensus round updates).
//!
//! Reference (ghost state, kept by the harness from the history, never read from the engine):
//! current rules, pending recovery proposal per proposer (with `allowed_after` for the recovery role's timed
//! proposal = time of initiation + configured delay), pending badge-withdraw attempt per proposer, primary
//! locked flag, whether X is still inside, the harness clock. A pending item is created by a successful
//! initiate call of an actor holding the proposer's role, removed by a successful cancel, all pending items are
//! consumed by a confirmed recovery / withdrawal (which also unlocks primary — the documented reset);
//! `stop_timed_recovery` makes the recovery role's proposal untimed.
//!
//! Transition invariants (the property statement + the role table of DESIGN Appendix A.2):
//!  I1  the three role rules change, or X leaves the controller, ONLY on a successful
//!        * quick_confirm_<A>_recovery(P) by an actor holding a role the template allows for it (never A's own
//!          role) while A's pending proposal equals P exactly           -> afterwards rules == P.rules, X stays;
//!        * timed_confirm_recovery(P) while the recovery role's pending *timed* proposal equals P and
//!          now >= allowed_after (submitter is informational)            -> afterwards rules == P.rules, X stays;
//!        * quick_confirm_<A>_badge_withdraw by an allowed role while A's withdraw attempt is pending
//!                                                                       -> X leaves; rules unchanged or all DenyAll.
//!  I2  while primary is locked (ghost), `create_proof` never succeeds.
//!  I3  initiate_* and quick_confirm_* never succeed for an actor that holds none of the allowed roles.
//! Everything else (who may cancel/lock/stop/mint/use the fee vault, what the proposed delay does, events) is
//! informational.
use crate::util::*;
use mc_core::{bfs, BfsStats, Ctx, Level, Machine};
use mc_ledger::*;
use radix_engine::blueprints::access_controller::latest::*;
use radix_engine::object_modules::role_assignment::*;
use radix_engine::system::system_db_reader::{ObjectCollectionKey, SystemDatabaseReader};
use serde_json::json;

// ------------------------------------------------------------------------------------------------
// alphabets
// ------------------------------------------------------------------------------------------------

#[derive(Clone, Copy, Debug, PartialEq, Eq, PartialOrd, Ord, Hash)]
pub enum Actor {
    K0,
    K1,
    K2,
    K3,
    Nobody,
}
const ACTORS: [Actor; 5] = [Actor::K0, Actor::K1, Actor::K2, Actor::K3, Actor::Nobody];
impl Actor {
    fn key(&self) -> Option<u8> {
        match self {
            Actor::K0 => Some(0),
            Actor::K1 => Some(1),
            Actor::K2 => Some(2),
            Actor::K3 => Some(3),
            Actor::Nobody => None,
        }
    }
}

#[derive(Clone, Copy, Debug, PartialEq, Eq, PartialOrd, Ord, Hash)]
pub enum Prop {
    P1,
    P2,
    /// P1's rule set with another proposed delay; never initiated
    P1d,
    /// P1 with another confirmation rule only; never initiated
    P1c,
}
const INIT_PROPS: [Prop; 2] = [Prop::P1, Prop::P2];
const CONFIRM_PROPS: [Prop; 4] = [Prop::P1, Prop::P2, Prop::P1d, Prop::P1c];

/// who holds a role: a key's signature badge, or nobody (DenyAll)
#[derive(Clone, Copy, Debug, PartialEq, Eq, PartialOrd, Ord, Hash)]
pub enum H {
    Key(u8),
    Deny,
}
pub type Rules = [H; 3]; // primary, recovery, confirmation

const R0: Rules = [H::Key(0), H::Key(1), H::Key(2)];
const DENY: Rules = [H::Deny, H::Deny, H::Deny];

impl Prop {
    fn rules(&self) -> Rules {
        match self {
            Prop::P1 | Prop::P1d => [H::Key(3), H::Key(1), H::Key(2)],
            Prop::P2 => [H::Key(1), H::Key(0), H::Key(3)],
            Prop::P1c => [H::Key(3), H::Key(1), H::Key(0)],
        }
    }
    fn delay(&self) -> Option<u32> {
        match self {
            Prop::P1 | Prop::P1c => Some(5),
            Prop::P2 | Prop::P1d => None,
        }
    }
}

#[derive(Clone, Copy, Debug, PartialEq, Eq, PartialOrd, Ord, Hash)]
pub enum Who {
    Primary,
    Recovery,
}
const WHO: [Who; 2] = [Who::Primary, Who::Recovery];
impl Who {
    fn ix(&self) -> usize {
        match self {
            Who::Primary => 0,
            Who::Recovery => 1,
        }
    }
}

#[derive(Clone, Copy, Debug, PartialEq, Eq, PartialOrd, Ord, Hash)]
pub enum Call {
    CreateProof,
    InitRecovery(Who, Prop),
    InitWithdraw(Who),
    QuickConfirmRecovery(Who, Prop),
    QuickConfirmWithdraw(Who),
    TimedConfirm(Prop),
    CancelRecovery(Who),
    CancelWithdraw(Who),
    Lock,
    Unlock,
    StopTimed(Prop),
    Mint,
    LockFee,
    WithdrawFee,
    ContributeFee,
    /// `set_role("primary", allow_all)` directly on the controller's role-assignment module
    SetRoleDirect,
}

#[derive(Clone, Copy, Debug, PartialEq, Eq, PartialOrd, Ord, Hash)]
pub enum Op {
    Do(Actor, Call),
    /// consensus round update moving the clock by this many minutes
    Time(u8),
}

fn all_calls() -> Vec<Call> {
    let mut v = vec![Call::CreateProof];
    for w in WHO {
        for p in INIT_PROPS {
            v.push(Call::InitRecovery(w, p));
        }
    }
    for w in WHO {
        v.push(Call::InitWithdraw(w));
    }
    for w in WHO {
        for p in CONFIRM_PROPS {
            v.push(Call::QuickConfirmRecovery(w, p));
        }
    }
    for w in WHO {
        v.push(Call::QuickConfirmWithdraw(w));
    }
    for p in CONFIRM_PROPS {
        v.push(Call::TimedConfirm(p));
    }
    for w in WHO {
        v.push(Call::CancelRecovery(w));
    }
    for w in WHO {
        v.push(Call::CancelWithdraw(w));
    }
    v.push(Call::Lock);
    v.push(Call::Unlock);
    for p in CONFIRM_PROPS {
        v.push(Call::StopTimed(p));
    }
    v.extend([Call::Mint, Call::LockFee, Call::WithdrawFee, Call::ContributeFee, Call::SetRoleDirect]);
    v
}

fn all_ops() -> Vec<Op> {
    let mut v = vec![];
    for c in all_calls() {
        for a in ACTORS {
            v.push(Op::Do(a, c));
        }
    }
    v.push(Op::Time(1));
    v.push(Op::Time(2));
    v
}

/// Role table (DESIGN Appendix A.2, from the V2 role template): None = public. Indices into `Rules`.
fn allowed_roles(c: &Call) -> Option<&'static [usize]> {
    const P: usize = 0;
    const R: usize = 1;
    const C: usize = 2;
    match c {
        Call::CreateProof => Some(&[P]),
        Call::InitRecovery(Who::Primary, _) | Call::CancelRecovery(Who::Primary) | Call::InitWithdraw(Who::Primary) | Call::CancelWithdraw(Who::Primary) => Some(&[P]),
        Call::InitRecovery(Who::Recovery, _) | Call::CancelRecovery(Who::Recovery) | Call::InitWithdraw(Who::Recovery) | Call::CancelWithdraw(Who::Recovery) => Some(&[R]),
        Call::Lock | Call::Unlock => Some(&[R]),
        Call::QuickConfirmRecovery(Who::Primary, _) | Call::QuickConfirmWithdraw(Who::Primary) => Some(&[R, C]),
        Call::QuickConfirmRecovery(Who::Recovery, _) | Call::QuickConfirmWithdraw(Who::Recovery) => Some(&[P, C]),
        Call::Mint => Some(&[P, R]),
        Call::StopTimed(_) | Call::LockFee => Some(&[P, R, C]),
        Call::WithdrawFee => Some(&[P]),
        Call::TimedConfirm(_) | Call::ContributeFee => None,
        // role updaters are the component itself: no outside actor
        Call::SetRoleDirect => Some(&[]),
    }
}

fn call_kind(c: &Call) -> &'static str {
    match c {
        Call::CreateProof => "create_proof",
        Call::InitRecovery(Who::Primary, _) => "initiate_recovery_as_primary",
        Call::InitRecovery(Who::Recovery, _) => "initiate_recovery_as_recovery",
        Call::InitWithdraw(Who::Primary) => "initiate_badge_withdraw_as_primary",
        Call::InitWithdraw(Who::Recovery) => "initiate_badge_withdraw_as_recovery",
        Call::QuickConfirmRecovery(Who::Primary, _) => "quick_confirm_primary_recovery",
        Call::QuickConfirmRecovery(Who::Recovery, _) => "quick_confirm_recovery_recovery",
        Call::QuickConfirmWithdraw(Who::Primary) => "quick_confirm_primary_withdraw",
        Call::QuickConfirmWithdraw(Who::Recovery) => "quick_confirm_recovery_withdraw",
        Call::TimedConfirm(_) => "timed_confirm_recovery",
        Call::CancelRecovery(Who::Primary) => "cancel_primary_recovery",
        Call::CancelRecovery(Who::Recovery) => "cancel_recovery_recovery",
        Call::CancelWithdraw(Who::Primary) => "cancel_primary_withdraw",
        Call::CancelWithdraw(Who::Recovery) => "cancel_recovery_withdraw",
        Call::Lock => "lock_primary_role",
        Call::Unlock => "unlock_primary_role",
        Call::StopTimed(_) => "stop_timed_recovery",
        Call::Mint => "mint_recovery_badges",
        Call::LockFee => "lock_recovery_fee",
        Call::WithdrawFee => "withdraw_recovery_fee",
        Call::ContributeFee => "contribute_recovery_fee",
        Call::SetRoleDirect => "role_assignment.set",
    }
}

// ------------------------------------------------------------------------------------------------
// ghost state (reference)
// ------------------------------------------------------------------------------------------------

#[derive(Clone, Debug, PartialEq, Eq)]
pub struct Pending {
    pub prop: Prop,
    /// Some(t): timed, confirmable by time once clock >= t (harness minutes)
    pub allowed_after: Option<i64>,
}

#[derive(Clone, Debug, PartialEq, Eq)]
pub struct Ghost {
    pub rules: Rules,
    pub locked: bool,
    pub rec: [Option<Pending>; 2],
    pub wd: [bool; 2],
    pub held: bool,
    pub now: i64,
    pub delay: Option<u32>,
}

impl Ghost {
    fn new(delay: Option<u32>) -> Self {
        Ghost { rules: R0, locked: false, rec: [None, None], wd: [false, false], held: true, now: 0, delay }
    }
    fn holds(&self, a: Actor, role: usize) -> bool {
        match (a.key(), self.rules[role]) {
            (Some(k), H::Key(h)) => k == h,
            _ => false,
        }
    }
    fn auth_ok(&self, a: Actor, c: &Call) -> bool {
        match allowed_roles(c) {
            None => true,
            Some(rs) => rs.iter().any(|r| self.holds(a, *r)),
        }
    }
    fn consume_all(&mut self) {
        self.rec = [None, None];
        self.wd = [false, false];
        self.locked = false;
    }
    /// time-translation invariant rendering (absolute clock replaced by the timer relation)
    fn canon(&self) -> String {
        let rel = |p: &Option<Pending>| p.as_ref().map(|p| (p.prop, p.allowed_after.map(|t| (self.now - t).clamp(-64, 1))));
        format!("{:?}|{}|{:?}|{:?}|{:?}|{}|{:?}", self.rules, self.locked, rel(&self.rec[0]), rel(&self.rec[1]), self.wd, self.held, self.delay)
    }
}

// ------------------------------------------------------------------------------------------------
// world
// ------------------------------------------------------------------------------------------------

#[derive(Clone, Copy, Debug, PartialEq, Eq)]
pub enum Proto {
    Latest,
    /// pre-bottlenose: the V1 access controller code
    Anemone,
}

#[allow(dead_code)]
pub struct Ac {
    pub root: Snap,
    pub f: ComponentAddress,
    pub sig_f: NonFungibleGlobalId,
    pub sigs: Vec<NonFungibleGlobalId>,
    pub ac: ComponentAddress,
    pub x: ResourceAddress,
    pub delay: Option<u32>,
    pub proto: Proto,
}

pub struct St {
    pub sim: Sim,
    pub ghost: Ghost,
    pub view: View,
    pub fp: Vec<u8>,
}

/// The property-relevant part of the real controller, read back from the database.
#[derive(Clone, Debug, PartialEq, Eq)]
pub struct View {
    pub locked: bool,
    pub p_rec: Option<String>,
    pub p_wd: bool,
    /// (proposal, Some(now - allowed_after in minutes, clamped) if timed)
    pub r_rec: Option<(String, Option<i64>)>,
    pub r_wd: bool,
    pub delay: Option<u32>,
    pub fee_vault: bool,
    pub rules: [Option<AccessRule>; 3],
    pub held: Decimal,
}

impl Ac {
    fn rule_of(&self, h: H) -> AccessRule {
        match h {
            H::Key(k) => rule!(require(self.sigs[k as usize].clone())),
            H::Deny => AccessRule::DenyAll,
        }
    }
    fn rule_set(&self, r: Rules) -> RuleSet {
        RuleSet { primary_role: self.rule_of(r[0]), recovery_role: self.rule_of(r[1]), confirmation_role: self.rule_of(r[2]) }
    }
    fn rules_view(&self, r: Rules) -> [Option<AccessRule>; 3] {
        [Some(self.rule_of(r[0])), Some(self.rule_of(r[1])), Some(self.rule_of(r[2]))]
    }

    pub fn build(delay: Option<u32>, proto: Proto) -> Ac {
        let mut sim: Sim = match proto {
            Proto::Latest => new_sim(),
            Proto::Anemone => LedgerSimulatorBuilder::new().with_custom_protocol(|b| b.from_bootstrap_to(ProtocolVersion::Anemone)).without_kernel_trace().build(),
        };
        let (pk_f, _, f) = sim.new_account(true);
        let sig_f = NonFungibleGlobalId::from_public_key(&pk_f);
        let sigs: Vec<NonFungibleGlobalId> = (0..4).map(|_| NonFungibleGlobalId::from_public_key(&sim.new_key_pair().0)).collect();
        let x = sim.create_fungible_resource(dec!(1), 0, f);
        let rule = |i: usize| rule!(require(sigs[i].clone()));
        let m = ManifestBuilder::new()
            .lock_fee(f, dec!(50))
            .withdraw_from_account(f, x, dec!(1))
            .take_all_from_worktop(x, "asset")
            .create_access_controller("asset", rule(0), rule(1), rule(2), delay)
            .build();
        let r = sim.execute_manifest(m, vec![sig_f.clone()]);
        let ac = r.expect_commit_success().new_component_addresses()[0];
        // minute-aligned clock
        let cur = sim.get_current_proposer_timestamp_ms();
        let aligned = (cur.div_euclid(60_000) + 1) * 60_000;
        let round = sim.get_consensus_manager_state().round.number() + 1;
        sim.advance_to_round_at_timestamp(Round::of(round), aligned).expect_commit_success();
        Ac { root: sim.create_snapshot(), f, sig_f, sigs, ac, x, delay, proto }
    }

    fn view(&self, sim: &mut Sim) -> Result<View, String> {
        let now_ms = sim.get_current_proposer_timestamp_ms();
        let node = *self.ac.as_node_id();
        let (st, rules) = {
            let reader = SystemDatabaseReader::new(sim.substate_db());
            let st: AccessControllerV2Substate = reader
                .read_typed_object_field::<AccessControllerV2StateFieldPayload>(&node, ModuleId::Main, AccessControllerV2Field::State.field_index())
                .map_err(|e| format!("controller state unreadable: {e:?}"))?
                .fully_update_and_into_latest_version();
            let mut rules: [Option<AccessRule>; 3] = [None, None, None];
            for (i, name) in ["primary", "recovery", "confirmation"].iter().enumerate() {
                let key = ModuleRoleKey::new(ModuleId::Main, RoleKey::new(*name));
                let e: Option<RoleAssignmentAccessRuleEntryPayload> = reader
                    .read_object_collection_entry(&node, ModuleId::RoleAssignment, ObjectCollectionKey::KeyValue(RoleAssignmentCollection::AccessRuleKeyValue.collection_index(), &key))
                    .map_err(|e| format!("role {name} unreadable: {e:?}"))?;
                rules[i] = e.map(|p| p.fully_update_and_into_latest_version());
            }
            (st, rules)
        };
        let held = vault_holding(sim, *st.controlled_asset.0.as_node_id()).amount;
        let now_min = now_ms.div_euclid(60_000);
        let r_rec = match &st.state.3 {
            RecoveryRoleRecoveryAttemptState::NoRecoveryAttempt => None,
            RecoveryRoleRecoveryAttemptState::RecoveryAttempt(RecoveryRoleRecoveryState::UntimedRecovery(p)) => Some((format!("{p:?}"), None)),
            RecoveryRoleRecoveryAttemptState::RecoveryAttempt(RecoveryRoleRecoveryState::TimedRecovery { proposal, timed_recovery_allowed_after }) => {
                let after_min = timed_recovery_allowed_after.seconds_since_unix_epoch.div_euclid(60);
                Some((format!("{proposal:?}"), Some((now_min - after_min).clamp(-64, 1))))
            }
        };
        Ok(View {
            locked: st.state.0 == PrimaryRoleLockingState::Locked,
            p_rec: match &st.state.1 {
                PrimaryRoleRecoveryAttemptState::NoRecoveryAttempt => None,
                PrimaryRoleRecoveryAttemptState::RecoveryAttempt(p) => Some(format!("{p:?}")),
            },
            p_wd: st.state.2 == PrimaryRoleBadgeWithdrawAttemptState::BadgeWithdrawAttempt,
            r_rec,
            r_wd: st.state.4 == RecoveryRoleBadgeWithdrawAttemptState::BadgeWithdrawAttempt,
            delay: st.timed_recovery_delay_in_minutes,
            fee_vault: st.xrd_fee_vault.is_some(),
            rules,
            held,
        })
    }

    fn manifest(&self, a: Actor, c: &Call) -> (TransactionManifestV1, Vec<NonFungibleGlobalId>) {
        let ac = self.ac;
        let mut mb = ManifestBuilder::new().lock_fee(self.f, dec!(50));
        let rs = |p: &Prop| self.rule_set(p.rules());
        mb = match c {
            Call::CreateProof => mb.call_method(ac, ACCESS_CONTROLLER_CREATE_PROOF_IDENT, AccessControllerCreateProofInput {}).pop_from_auth_zone("created_proof"),
            Call::InitRecovery(Who::Primary, p) => mb.call_method(
                ac,
                ACCESS_CONTROLLER_INITIATE_RECOVERY_AS_PRIMARY_IDENT,
                AccessControllerInitiateRecoveryAsPrimaryInput { rule_set: rs(p), timed_recovery_delay_in_minutes: p.delay() },
            ),
            Call::InitRecovery(Who::Recovery, p) => mb.call_method(
                ac,
                ACCESS_CONTROLLER_INITIATE_RECOVERY_AS_RECOVERY_IDENT,
                AccessControllerInitiateRecoveryAsRecoveryInput { rule_set: rs(p), timed_recovery_delay_in_minutes: p.delay() },
            ),
            Call::InitWithdraw(Who::Primary) => mb.call_method(ac, ACCESS_CONTROLLER_INITIATE_BADGE_WITHDRAW_ATTEMPT_AS_PRIMARY_IDENT, AccessControllerInitiateBadgeWithdrawAttemptAsPrimaryInput {}),
            Call::InitWithdraw(Who::Recovery) => mb.call_method(ac, ACCESS_CONTROLLER_INITIATE_BADGE_WITHDRAW_ATTEMPT_AS_RECOVERY_IDENT, AccessControllerInitiateBadgeWithdrawAttemptAsRecoveryInput {}),
            Call::QuickConfirmRecovery(Who::Primary, p) => mb.call_method(
                ac,
                ACCESS_CONTROLLER_QUICK_CONFIRM_PRIMARY_ROLE_RECOVERY_PROPOSAL_IDENT,
                AccessControllerQuickConfirmPrimaryRoleRecoveryProposalInput { rule_set: rs(p), timed_recovery_delay_in_minutes: p.delay() },
            ),
            Call::QuickConfirmRecovery(Who::Recovery, p) => mb.call_method(
                ac,
                ACCESS_CONTROLLER_QUICK_CONFIRM_RECOVERY_ROLE_RECOVERY_PROPOSAL_IDENT,
                AccessControllerQuickConfirmRecoveryRoleRecoveryProposalInput { rule_set: rs(p), timed_recovery_delay_in_minutes: p.delay() },
            ),
            Call::QuickConfirmWithdraw(Who::Primary) => mb.call_method(ac, ACCESS_CONTROLLER_QUICK_CONFIRM_PRIMARY_ROLE_BADGE_WITHDRAW_ATTEMPT_IDENT, AccessControllerQuickConfirmPrimaryRoleBadgeWithdrawAttemptInput {}),
            Call::QuickConfirmWithdraw(Who::Recovery) => mb.call_method(ac, ACCESS_CONTROLLER_QUICK_CONFIRM_RECOVERY_ROLE_BADGE_WITHDRAW_ATTEMPT_IDENT, AccessControllerQuickConfirmRecoveryRoleBadgeWithdrawAttemptInput {}),
            Call::TimedConfirm(p) => mb.call_method(
                ac,
                ACCESS_CONTROLLER_TIMED_CONFIRM_RECOVERY_IDENT,
                AccessControllerTimedConfirmRecoveryInput { rule_set: rs(p), timed_recovery_delay_in_minutes: p.delay() },
            ),
            Call::CancelRecovery(Who::Primary) => mb.call_method(ac, ACCESS_CONTROLLER_CANCEL_PRIMARY_ROLE_RECOVERY_PROPOSAL_IDENT, AccessControllerCancelPrimaryRoleRecoveryProposalInput {}),
            Call::CancelRecovery(Who::Recovery) => mb.call_method(ac, ACCESS_CONTROLLER_CANCEL_RECOVERY_ROLE_RECOVERY_PROPOSAL_IDENT, AccessControllerCancelRecoveryRoleRecoveryProposalInput {}),
            Call::CancelWithdraw(Who::Primary) => mb.call_method(ac, ACCESS_CONTROLLER_CANCEL_PRIMARY_ROLE_BADGE_WITHDRAW_ATTEMPT_IDENT, AccessControllerCancelPrimaryRoleBadgeWithdrawAttemptInput {}),
            Call::CancelWithdraw(Who::Recovery) => mb.call_method(ac, ACCESS_CONTROLLER_CANCEL_RECOVERY_ROLE_BADGE_WITHDRAW_ATTEMPT_IDENT, AccessControllerCancelRecoveryRoleBadgeWithdrawAttemptInput {}),
            Call::Lock => mb.call_method(ac, ACCESS_CONTROLLER_LOCK_PRIMARY_ROLE_IDENT, AccessControllerLockPrimaryRoleInput {}),
            Call::Unlock => mb.call_method(ac, ACCESS_CONTROLLER_UNLOCK_PRIMARY_ROLE_IDENT, AccessControllerUnlockPrimaryRoleInput {}),
            Call::StopTimed(p) => mb.call_method(
                ac,
                ACCESS_CONTROLLER_STOP_TIMED_RECOVERY_IDENT,
                AccessControllerStopTimedRecoveryInput { rule_set: rs(p), timed_recovery_delay_in_minutes: p.delay() },
            ),
            Call::Mint => mb.call_method(
                ac,
                ACCESS_CONTROLLER_MINT_RECOVERY_BADGES_IDENT,
                AccessControllerMintRecoveryBadgesInput { non_fungible_local_ids: indexset!(NonFungibleLocalId::integer(1)) },
            ),
            Call::LockFee => mb.call_method(ac, ACCESS_CONTROLLER_LOCK_RECOVERY_FEE_IDENT, AccessControllerLockRecoveryFeeInput { amount: dec!(1) }),
            Call::WithdrawFee => mb.call_method(ac, ACCESS_CONTROLLER_WITHDRAW_RECOVERY_FEE_IDENT, AccessControllerWithdrawRecoveryFeeInput { amount: dec!(1) }),
            Call::ContributeFee => mb
                .withdraw_from_account(self.f, XRD, dec!(10))
                .take_all_from_worktop(XRD, "fee_xrd")
                .call_method_with_name_lookup(ac, ACCESS_CONTROLLER_CONTRIBUTE_RECOVERY_FEE_IDENT, |l| (l.bucket("fee_xrd"),)),
            Call::SetRoleDirect => mb.set_role(ac, ModuleId::Main, RoleKey::new("primary"), AccessRule::AllowAll),
        };
        mb = mb.try_deposit_entire_worktop_or_abort(self.f, None);
        let mut proofs = vec![self.sig_f.clone()];
        if let Some(k) = a.key() {
            proofs.push(self.sigs[k as usize].clone());
        }
        (mb.build(), proofs)
    }

    /// readable rendering of the controller view (rules shown as key names)
    fn short(&self, v: &View) -> String {
        let name = |r: &Option<AccessRule>| -> String {
            match r {
                None => "<missing>".into(),
                Some(AccessRule::DenyAll) => "DenyAll".into(),
                Some(AccessRule::AllowAll) => "AllowAll".into(),
                Some(x) => (0..4).find(|k| *x == self.rule_of(H::Key(*k as u8))).map(|k| format!("sig(K{k})")).unwrap_or_else(|| format!("{x:?}")),
            }
        };
        let prop = |s: &String| -> String {
            [Prop::P1, Prop::P2, Prop::P1d, Prop::P1c]
                .iter()
                .find(|p| format!("{:?}", RecoveryProposal { rule_set: self.rule_set(p.rules()), timed_recovery_delay_in_minutes: p.delay() }) == *s)
                .map(|p| format!("{p:?}"))
                .unwrap_or_else(|| s.clone())
        };
        format!(
            "{{rules: [{}, {}, {}], asset held: {}, locked: {}, primary's proposal: {:?}, primary's withdraw attempt: {}, recovery's proposal: {:?}, recovery's withdraw attempt: {}, delay: {:?}, fee vault: {}}}",
            name(&v.rules[0]),
            name(&v.rules[1]),
            name(&v.rules[2]),
            v.held,
            v.locked,
            v.p_rec.as_ref().map(prop),
            v.p_wd,
            v.r_rec.as_ref().map(|(p, t)| (prop(p), t.map(|t| format!("timed, now - allowed_after = {t} min")).unwrap_or("untimed".into()))),
            v.r_wd,
            v.delay,
            v.fee_vault
        )
    }

    fn compute_fp(&self, st: &St) -> Vec<u8> {
        mc_core::fp128(format!("{:?}#{}", st.view, st.ghost.canon()).as_bytes())
    }
}

fn outcome_kind(r: &TransactionReceipt) -> &'static str {
    if is_success(r) {
        return "ok";
    }
    let t = failure_text(r);
    if t.contains("Unauthorized") {
        "denied"
    } else if t.contains("AccessControllerError") {
        "refused"
    } else {
        "failed-otherwise"
    }
}

impl Machine for Ac {
    type Op = Op;
    type St = St;

    fn init(&self) -> St {
        let mut sim = sim_from(&self.root);
        let view = self.view(&mut sim).unwrap_or_else(|e| mc_core::machinery_error(&format!("root view: {e}")));
        let mut st = St { sim, ghost: Ghost::new(self.delay), view, fp: vec![] };
        st.fp = self.compute_fp(&st);
        st
    }

    fn ops(&self, _st: &St, _depth: usize) -> Vec<Op> {
        all_ops()
    }

    fn fork(&self, st: &St) -> Option<St> {
        Some(St { sim: sim_from(&st.sim.create_snapshot()), ghost: st.ghost.clone(), view: st.view.clone(), fp: st.fp.clone() })
    }

    fn fingerprint(&self, st: &St) -> Vec<u8> {
        st.fp.clone()
    }

    fn step(&self, st: &mut St, op: &Op) -> Result<String, (String, String)> {
        let pre = st.view.clone();
        let g = st.ghost.clone();
        let (a, c) = match op {
            Op::Time(k) => {
                let r = mc_core::catch(|| {
                    let cur = st.sim.get_current_proposer_timestamp_ms();
                    let round = st.sim.get_consensus_manager_state().round.number() + 1;
                    st.sim.advance_to_round_at_timestamp(Round::of(round), cur + (*k as i64) * 60_000)
                });
                let r = match r {
                    Ok(r) => r,
                    Err(p) => return Err((format!("panic@{}", mc_core::last_panic_location()), format!("round update panicked: {p}"))),
                };
                if !is_success(&r) {
                    mc_core::machinery_error(&format!("round update failed: {}", failure_text(&r)));
                }
                st.ghost.now += *k as i64;
                let post = self.view(&mut st.sim).map_err(|e| ("state-unreadable".to_string(), e))?;
                // time alone never changes rules / custody / pending items (only the timer relation)
                let mut a = pre.clone();
                let mut b = post.clone();
                if let Some((_, t)) = &mut a.r_rec {
                    *t = None;
                }
                if let Some((_, t)) = &mut b.r_rec {
                    *t = None;
                }
                if a != b {
                    return Err(("time-step-changed-controller".into(), format!("a round update changed the controller: {pre:?} -> {post:?}")));
                }
                st.view = post;
                st.fp = self.compute_fp(st);
                return Ok("time-step".into());
            }
            Op::Do(a, c) => (*a, *c),
        };
        let (m, proofs) = self.manifest(a, &c);
        let receipt = match exec(&mut st.sim, m, proofs) {
            Ok(r) => r,
            Err(p) => return Err((format!("panic@{}", mc_core::last_panic_location()), format!("{op:?} panicked: {p}"))),
        };
        if !matches!(receipt.result, TransactionResult::Commit(_)) {
            mc_core::machinery_error(&format!("harness transaction {op:?} not committed: {}", failure_text(&receipt)));
        }
        let ok = is_success(&receipt);
        let kind = call_kind(&c);
        let post = self.view(&mut st.sim).map_err(|e| ("state-unreadable".to_string(), e))?;
        let auth_ok = g.auth_ok(a, &c);
        let describe = |why: &str| {
            format!(
                "{op:?}: {why}; reference before = {g:?}; controller before = {}; after = {}; receipt = {} {}",
                self.short(&pre),
                self.short(&post),
                receipt_class(&receipt),
                mc_core::truncate(&failure_text(&receipt), 200)
            )
        };

        // ---- I1: rules / custody change only when justified ----
        let rules_changed = post.rules != pre.rules;
        let left = post.held < pre.held;
        let gained = post.held > pre.held;
        if gained {
            return Err((format!("custody-grew:{kind}"), describe("the controlled vault grew")));
        }
        let mut confirmed: Option<&'static str> = None;
        if rules_changed || left {
            let why_not: Option<String> = if !ok {
                Some("transaction failed".into())
            } else {
                match &c {
                    Call::QuickConfirmRecovery(w, p) => {
                        if !auth_ok {
                            Some("actor holds no role allowed to confirm".into())
                        } else {
                            match &g.rec[w.ix()] {
                                None => Some("no pending proposal of that proposer".into()),
                                Some(pe) if pe.prop != *p => Some(format!("pending proposal is {:?}, confirmed {:?}", pe.prop, p)),
                                Some(_) => None,
                            }
                        }
                    }
                    Call::TimedConfirm(p) => match &g.rec[1] {
                        None => Some("no pending proposal of the recovery role".into()),
                        Some(pe) if pe.prop != *p => Some(format!("pending proposal is {:?}, confirmed {:?}", pe.prop, p)),
                        Some(Pending { allowed_after: None, .. }) => Some("the recovery role's proposal is not timed (no delay configured or timer stopped)".into()),
                        Some(Pending { allowed_after: Some(t), .. }) if g.now < *t => Some(format!("delay not elapsed: now {} < allowed after {}", g.now, t)),
                        Some(_) => None,
                    },
                    Call::QuickConfirmWithdraw(w) => {
                        if !auth_ok {
                            Some("actor holds no role allowed to confirm".into())
                        } else if !g.wd[w.ix()] {
                            Some("no pending badge withdraw attempt of that proposer".into())
                        } else {
                            None
                        }
                    }
                    _ => Some("not a confirmation".into()),
                }
            };
            if let Some(w) = why_not {
                let what = if left { "asset-left" } else { "rules-changed" };
                return Err((format!("unjustified:{what}:{kind}"), describe(&format!("rules changed = {rules_changed}, asset left = {left}, but: {w}"))));
            }
            // effect must be exactly the confirmed change
            match &c {
                Call::QuickConfirmRecovery(_, p) | Call::TimedConfirm(p) => {
                    if left || post.rules != self.rules_view(p.rules()) {
                        return Err((format!("confirm-effect:{kind}"), describe("after a confirmed recovery the rules must equal the proposal and the asset must stay")));
                    }
                    confirmed = Some("recovery");
                }
                Call::QuickConfirmWithdraw(_) => {
                    if rules_changed && post.rules != self.rules_view(DENY) {
                        return Err((format!("confirm-effect:{kind}"), describe("a confirmed badge withdrawal replaced the rules by something other than DenyAll")));
                    }
                    if !left || !post.held.is_zero() {
                        return Err((format!("confirm-effect:{kind}"), describe("a confirmed badge withdrawal changed the rules without releasing the whole asset")));
                    }
                    confirmed = Some("withdraw");
                }
                _ => unreachable!(),
            }
        }
        // ---- I2: no proof while primary is locked ----
        if matches!(c, Call::CreateProof) && ok && g.locked {
            return Err(("proof-while-locked".into(), describe("create_proof succeeded while the primary role is locked")));
        }
        // ---- I3: proposals and confirmations only by holders of an allowed role ----
        if ok && !auth_ok && matches!(c, Call::InitRecovery(..) | Call::InitWithdraw(_) | Call::QuickConfirmRecovery(..) | Call::QuickConfirmWithdraw(_)) {
            return Err((format!("unauthorized-success:{kind}"), describe("succeeded although the actor holds none of the roles the template allows")));
        }

        // ---- ghost update (follows the observed outcome where the statement is silent) ----
        let gh = &mut st.ghost;
        let mut infos: Vec<String> = vec![];
        if ok && !auth_ok {
            infos.push(format!("unauthorized-success:{kind}"));
        }
        if ok {
            match &c {
                Call::InitRecovery(w, p) => {
                    if gh.rec[w.ix()].is_some() {
                        infos.push("initiate replaced a pending proposal".into());
                    }
                    let timed = if *w == Who::Recovery { gh.delay.map(|d| gh.now + d as i64) } else { None };
                    gh.rec[w.ix()] = Some(Pending { prop: *p, allowed_after: timed });
                }
                Call::InitWithdraw(w) => gh.wd[w.ix()] = true,
                Call::CancelRecovery(w) => gh.rec[w.ix()] = None,
                Call::CancelWithdraw(w) => gh.wd[w.ix()] = false,
                Call::Lock => gh.locked = true,
                Call::Unlock => gh.locked = false,
                Call::StopTimed(_) => {
                    if let Some(p) = &mut gh.rec[1] {
                        p.allowed_after = None;
                    }
                }
                Call::QuickConfirmRecovery(_, p) | Call::TimedConfirm(p) => {
                    if confirmed.is_some() {
                        gh.rules = p.rules();
                        gh.consume_all();
                    } else {
                        // succeeded without visible change (only possible when proposal == current rules)
                        let justified_pending = match &c {
                            Call::QuickConfirmRecovery(w, p) => g.rec[w.ix()].as_ref().map(|x| x.prop == *p).unwrap_or(false),
                            Call::TimedConfirm(p) => g.rec[1].as_ref().map(|x| x.prop == *p && x.allowed_after.map(|t| g.now >= t).unwrap_or(false)).unwrap_or(false),
                            _ => false,
                        };
                        if justified_pending && post.rules == self.rules_view(p.rules()) {
                            gh.rules = p.rules();
                            gh.consume_all();
                            infos.push("confirmation of a proposal equal to the current rules".into());
                        } else {
                            return Err((format!("confirm-without-effect:{kind}"), describe("a confirmation succeeded but neither changed the rules nor was it justified")));
                        }
                    }
                }
                Call::QuickConfirmWithdraw(_) => {
                    if confirmed.is_some() {
                        gh.held = false;
                        if post.rules == self.rules_view(DENY) {
                            gh.rules = DENY;
                            infos.push("badge withdrawal sets all roles to DenyAll".into());
                        } else {
                            infos.push("badge withdrawal leaves the rules".into());
                        }
                        gh.consume_all();
                    } else {
                        return Err((format!("confirm-without-effect:{kind}"), describe("a badge-withdraw confirmation succeeded but the asset did not leave")));
                    }
                }
                _ => {}
            }
        }
        if matches!(c, Call::TimedConfirm(_)) && confirmed.is_some() {
            infos.push(format!("timed confirmation submitted by {}", match a {
                Actor::Nobody => "an outsider",
                _ if g.holds(a, 1) => "the recovery role",
                _ if g.holds(a, 0) || g.holds(a, 2) => "another role",
                _ => "a key without role",
            }));
        }
        // ghost / controller agreement (expected to be silent; informational because the statement does not
        // define the controller's internal bookkeeping)
        let g2 = &st.ghost;
        if g2.locked != post.locked {
            infos.push("ghost/controller differ: locked".into());
        }
        if g2.rec[0].is_some() != post.p_rec.is_some() || g2.rec[1].is_some() != post.r_rec.is_some() {
            infos.push("ghost/controller differ: pending recovery".into());
        }
        if g2.wd != [post.p_wd, post.r_wd] {
            infos.push("ghost/controller differ: pending withdraw".into());
        }
        if self.rules_view(g2.rules) != post.rules {
            return Err(("ghost-rules-diverged".into(), describe("harness ghost rules differ from the controller's rules without a flagged transition")));
        }
        if post.delay != pre.delay {
            infos.push("configured delay changed".into());
        }
        st.view = post;
        st.fp = self.compute_fp(st);
        let authl = if allowed_roles(&c).is_none() {
            "public"
        } else if auth_ok {
            "role-ok"
        } else {
            "no-role"
        };
        let mut class = format!("{kind}:{authl}:{}", outcome_kind(&receipt));
        if let Some(cf) = confirmed {
            class.push_str(&format!(":confirmed-{cf}"));
        }
        for i in infos {
            INFOS.with(|v| v.borrow_mut().push(i));
        }
        Ok(class)
    }
}

thread_local! {
    static INFOS: std::cell::RefCell<Vec<String>> = std::cell::RefCell::new(vec![]);
}

/// Wrapper that forwards to `Ac` and collects the informational notes of every step. The explorer replays
/// histories to rebuild states, so notes are de-duplicated by (state fingerprint before the step, op): the
/// reported number is the number of distinct explored transitions carrying the note.
struct WithInfos<'a> {
    m: &'a Ac,
    infos: std::sync::Mutex<std::collections::BTreeMap<String, std::collections::HashSet<(Vec<u8>, Op)>>>,
}

impl<'a> Machine for WithInfos<'a> {
    type Op = Op;
    type St = St;
    fn init(&self) -> St {
        self.m.init()
    }
    fn ops(&self, st: &St, depth: usize) -> Vec<Op> {
        self.m.ops(st, depth)
    }
    fn fork(&self, st: &St) -> Option<St> {
        self.m.fork(st)
    }
    fn fingerprint(&self, st: &St) -> Vec<u8> {
        self.m.fingerprint(st)
    }
    fn step(&self, st: &mut St, op: &Op) -> Result<String, (String, String)> {
        INFOS.with(|v| v.borrow_mut().clear());
        let before = st.fp.clone();
        let r = self.m.step(st, op);
        let notes: Vec<String> = INFOS.with(|v| v.borrow_mut().drain(..).collect());
        if !notes.is_empty() {
            let mut g = self.infos.lock().unwrap();
            for n in notes {
                g.entry(n).or_default().insert((before.clone(), *op));
            }
        }
        r
    }
}

fn explore(ctx: &Ctx, m: &Ac, tag: &str, depth: usize, wall: f64) -> BfsStats {
    let wi = WithInfos { m, infos: std::sync::Mutex::new(Default::default()) };
    let stats = bfs(ctx, &wi, tag, depth, 1_000_000, wall);
    for (k, set) in wi.infos.into_inner().unwrap() {
        ctx.info(&format!("[{tag}] {k}"), set.len() as u64);
    }
    stats
}

fn parse_op(s: &str) -> Op {
    all_ops().into_iter().find(|o| format!("{o:?}") == s).unwrap_or_else(|| mc_core::machinery_error(&format!("unknown op {s}")))
}

pub fn run(ctx: Ctx) -> ! {
    if let Some(case) = ctx.read_replay_case() {
        let base = case["base"].as_str().unwrap_or("v2-delay2").to_string();
        let (delay, proto) = match base.as_str() {
            "v2-delay2" => (Some(2), Proto::Latest),
            "v2-nodelay" => (None, Proto::Latest),
            "v1-delay2" => (Some(2), Proto::Anemone),
            other => mc_core::machinery_error(&format!("unknown base {other}")),
        };
        let m = Ac::build(delay, proto);
        let mut st = m.init();
        println!("base {base}: controller {}", m.short(&st.view));
        let hist: Vec<Op> = case["history"].as_array().map(|a| a.iter().filter_map(|s| s.as_str()).map(parse_op).collect()).unwrap_or_default();
        for op in &hist {
            match m.step(&mut st, op) {
                Ok(class) => println!("{op:?} -> {class}\n    controller: {}\n    reference:  {:?}", m.short(&st.view), st.ghost),
                Err((k, w)) => {
                    println!("{op:?} -> VIOLATION {k}: {w}");
                    ctx.violation(k, w, case.clone());
                    break;
                }
            }
        }
        ctx.finish(Level::ModelChecking, "replay", 0, false, Default::default(), &[]);
    }
    let quick = ctx.quick();
    // (tag, delay, protocol, max depth, wall cap)
    let plan: Vec<(&str, Option<u32>, Proto, usize, f64)> = if quick {
        vec![("v2-delay2", Some(2), Proto::Latest, 5, 45.0), ("v2-nodelay", None, Proto::Latest, 3, 10.0)]
    } else {
        vec![("v2-delay2", Some(2), Proto::Latest, 64, 600.0), ("v2-nodelay", None, Proto::Latest, 64, 250.0), ("v1-delay2", Some(2), Proto::Anemone, 64, 350.0)]
    };
    let mut total = BfsStats::default();
    let mut per = vec![];
    let mut fix_all = true;
    for (tag, delay, proto, depth, wall) in plan {
        let m = Ac::build(delay, proto);
        let s = explore(&ctx, &m, tag, depth, wall);
        let fix = !s.capped && s.per_depth_states.last() == Some(&0);
        fix_all &= fix;
        per.push(json!({"base": tag, "states": s.states, "transitions": s.transitions, "max_depth": s.max_depth, "fixpoint": fix, "capped": s.capped, "per_depth_new_states": s.per_depth_states}));
        total.add(&s);
    }
    let mut cov = total.coverage();
    cov.insert("explorations".into(), json!(per));
    cov.insert("fixpoint_reached_everywhere".into(), json!(fix_all));
    cov.insert("actions_per_state".into(), json!(all_ops().len()));
    let exhaustive = !total.capped;
    ctx.finish(
        Level::ModelChecking,
        "breadth-first over all histories of access-controller calls (every method x every actor incl. roles the template does not allow and outsiders, proposal arguments from a 4-element alphabet, +1/+2 minute round updates) on the real engine; states merged by decoded controller substate + role rules + custody + clamped timer relation + harness ghost state; thorough tier runs until no new state appears; transition invariants I1-I3 checked on every transition; non-trivial = distinct states",
        total.states,
        exhaustive,
        cov,
        &[
            "roles are single signature badges of four keys; proposals from {P1, P2} (+P1d, P1c as confirm arguments only)",
            "clock moves in whole minutes from a minute-aligned start (the blueprint compares at minute precision)",
            "recovery-badge supply and fee-vault balance are not part of the state fingerprint: the controller never reads them (only mint's duplicate-id check / the fee methods' own amount checks do)",
            "quick tier is depth-bounded (not a fixpoint)",
        ],
    )
}
