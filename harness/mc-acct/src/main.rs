//! mc-acct: serves C39 C40 (one module per property).
use mc_core::Ctx;

mod c39;
mod util;
mod c40;

fn main() {
    let ctx = Ctx::from_args();
    match ctx.id.as_str() {
        "C39" => c39::run(ctx),
        "C40" => c40::run(ctx),
        other => mc_core::machinery_error(&format!("mc-acct does not serve {other}")),
    }
}
