//! Small helpers shared by C39 and C40: simulator construction from a snapshot, raw reads of key-value
//! collections of a component (including removed entries), account holdings, touched-node summaries.
use mc_ledger::*;
use radix_engine::system::system_db_reader::SystemDatabaseReader;
use radix_engine::system::system_substates::KeyValueEntrySubstate;
use std::collections::{BTreeMap, BTreeSet};

pub fn sim_from(snap: &Snap) -> Sim {
    LedgerSimulatorBuilder::new().without_kernel_trace().build_from_snapshot(snap.clone())
}

/// All entries of a key-value collection of a global object, raw: map key bytes -> entry substate bytes.
/// Entries whose value was removed are still listed (the engine keeps an entry substate with value = None).
pub fn collection_raw(sim: &Sim, node: &NodeId, collection_index: u8) -> BTreeMap<Vec<u8>, Vec<u8>> {
    let reader = SystemDatabaseReader::new(sim.substate_db());
    let mut out = BTreeMap::new();
    if let Ok(part) = reader.get_partition_of_collection(node, ModuleId::Main, collection_index) {
        for (k, v) in sim.substate_db().list_map_raw_values(node, part, None::<SubstateKey>) {
            out.insert(k, v);
        }
    }
    out
}

/// Decode a raw key-value entry substate: None = entry present but value removed.
pub fn kv_value<V: ScryptoDecode>(raw: &[u8]) -> Result<Option<V>, String> {
    let e: KeyValueEntrySubstate<V> = scrypto_decode(raw).map_err(|e| format!("kv entry undecodable: {e:?}"))?;
    Ok(e.into_value())
}

#[derive(Clone, Debug, PartialEq, Eq, Default)]
pub struct Holding {
    pub amount: Decimal,
    pub ids: BTreeSet<NonFungibleLocalId>,
    pub vault: Option<NodeId>,
}

/// What a vault holds (fungible amount or non-fungible ids), read from the database.
pub fn vault_holding(sim: &mut Sim, vault: NodeId) -> Holding {
    let mut h = Holding { amount: Decimal::ZERO, ids: BTreeSet::new(), vault: Some(vault) };
    if vault.is_internal_fungible_vault() {
        h.amount = sim.inspect_fungible_vault(vault).unwrap_or(Decimal::ZERO);
    } else if let Some((amt, it)) = sim.inspect_non_fungible_vault(vault) {
        h.amount = amt;
        h.ids = it.collect();
    }
    h
}

/// Nodes (and for one distinguished node: partitions + keys) written by a committed transaction.
pub struct Touched {
    pub nodes: BTreeSet<NodeId>,
    /// (partition, substate key) pairs written under `focus`
    pub focus: BTreeSet<(u8, SubstateKey)>,
    /// a whole-partition reset happened under `focus`
    pub focus_reset: bool,
}

pub fn touched(c: &CommitResult, focus: &NodeId) -> Touched {
    let mut t = Touched { nodes: BTreeSet::new(), focus: BTreeSet::new(), focus_reset: false };
    for (node, upd) in &c.state_updates.by_node {
        let NodeStateUpdates::Delta { by_partition } = upd;
        let mut any = false;
        for (p, pu) in by_partition {
            match pu {
                PartitionStateUpdates::Delta { by_substate } => {
                    for (k, _) in by_substate {
                        any = true;
                        if node == focus {
                            t.focus.insert((p.0, k.clone()));
                        }
                    }
                }
                PartitionStateUpdates::Batch(_) => {
                    any = true;
                    if node == focus {
                        t.focus_reset = true;
                    }
                }
            }
        }
        if any {
            t.nodes.insert(*node);
        }
    }
    t
}

/// Number of owned nodes (buckets / proofs) inside an SBOR-encoded scrypto value.
pub fn count_owned(bytes: &[u8]) -> Result<usize, String> {
    let v = IndexedScryptoValue::from_slice(bytes).map_err(|e| format!("{e:?}"))?;
    Ok(v.owned_nodes().len())
}
