//! C45 — WASM package validation is total and enforces the sandbox rules.
//!
//! Inputs (all enumerated exhaustively within the stated bounds, no sampling):
//!  (a) structural modules from a 12-dimensional feature lattice (wasmgen.rs), built with wasm-encoder:
//!      every pair of dimensions in full product with all other dimensions at their neutral value (so that a
//!      single broken rule is never masked by another one), the full product of the first six dimensions
//!      (quick: five, the function-count dimension neutral), and (thorough) every triple of the eleven small
//!      dimensions;
//!  (b) totality: every byte string of <= 5 (thorough 6) bytes over {00,01,03,05,07,0A,0B,60,7F,FF} after the
//!      8-byte header, every headerless string <= 3 over a 13-byte alphabet, every single-point mutation of three
//!      valid modules (quick: 12 structural byte values per position, thorough: all 256), and deep-nesting /
//!      huge-count modules.
//!
//! Oracle (from the statement): `ScryptoV1WasmValidator::validate` never panics (nor kills the process: every
//! evaluation happens in a child process, re-exec of this binary); whenever it accepts, the *input* — parsed
//! independently with wasmparser 0.244 — breaks none of the rules the statement names (no float, no start, one
//! exported memory within the limit, bounded tables/functions/params/locals/globals, only permitted host
//! imports with their signatures), and the *output* re-parses as: valid without floats, no start, one memory
//! with a maximum <= limit exported as `memory`, imports = input imports + `env.gas:(i64)->()`, exactly one
//! injected mutable i32 global, and every original function body = input body + injected code only, with a
//! non-zero metering call at every function entry and loop entry and the stack-height check around every call of
//! a function that declares locals (exports with locals go through a thunk).
//! For lattice points the generator's own verdict (wasmgen::verdict) is cross-checked against the parsed facts.
//! Restrictions the engine documents but the statement does not name (br_table size, blueprint export
//! presence, post-MVP proposals, conforming modules being rejected) are informational.
use crate::reparse::{self, Facts, Limits};
use crate::wasmgen::{self, Lattice, NDIM};
use mc_core::{catch, Ctx, Level, Local};
use radix_engine::vm::wasm::*;
use radix_engine::vm::ScryptoVmVersion;
use radix_engine_interface::blueprints::package::PackageDefinition;
use serde_json::{json, Map, Value};
use std::collections::BTreeSet;
use std::os::unix::fs::FileExt;

const BYTE_ALPHA: [u8; 10] = [0x00, 0x01, 0x03, 0x05, 0x07, 0x0A, 0x0B, 0x60, 0x7F, 0xFF];
const RAW_ALPHA: [u8; 13] = [0x00, 0x01, 0x03, 0x05, 0x07, 0x0A, 0x0B, 0x60, 0x7F, 0xFF, 0x61, 0x73, 0x6D];
const MUT_ALPHA_QUICK: [u8; 12] = [0x00, 0x01, 0x02, 0x03, 0x05, 0x07, 0x0A, 0x0B, 0x40, 0x60, 0x7F, 0xFF];
const HEADER: [u8; 8] = [0x00, 0x61, 0x73, 0x6D, 0x01, 0x00, 0x00, 0x00];

#[derive(Clone, Debug)]
enum Desc {
    Lattice([usize; NDIM]),
    Bytes(u64),
    Raw(u64),
    Mut(usize, usize),
    Extreme(usize),
}

struct Space {
    lat: Lattice,
    descs: Vec<Desc>,
    n_lattice: usize,
    n_bytes: usize,
    n_raw: usize,
    n_mut: usize,
    n_extreme: usize,
    mut_bases: Vec<Vec<u8>>,
    mut_counts: Vec<usize>,
    thorough: bool,
}

fn limits(v: &ScryptoV1WasmValidator) -> Limits {
    Limits {
        memory_pages: v.max_memory_size_in_pages as u64,
        table_initial: v.max_initial_table_size as u64,
        br_table_targets: v.max_number_of_br_table_targets,
        functions: v.max_number_of_functions as u64,
        params: v.max_number_of_function_params as usize,
        locals: v.max_number_of_function_locals as u64,
        globals: v.max_number_of_globals as u64,
        stack: v.instrumenter_config.max_stack_size() as i32,
    }
}

fn mutations_of(base: &[u8], thorough: bool) -> Vec<Vec<u8>> {
    let mut out = vec![];
    if thorough {
        mc_core::gen::mutations(base, &mc_core::gen::ALL_BYTES, |m| out.push(m.to_vec()));
    } else {
        mc_core::gen::mutations(base, &MUT_ALPHA_QUICK, |m| out.push(m.to_vec()));
    }
    out
}

const N_EXTREME: usize = 14;

fn extreme(k: usize, thorough: bool) -> (String, Vec<u8>) {
    use wasm_encoder::*;
    let deep = if thorough { 100_000 } else { 10_000 };
    let (name, locals, body): (String, Vec<(u32, ValType)>, Vec<Instruction<'static>>) = match k {
        0..=5 => {
            let depth = [100usize, 1000, deep][k % 3];
            let looped = k >= 3;
            let mut b = vec![];
            for _ in 0..depth {
                b.push(if looped { Instruction::Loop(BlockType::Empty) } else { Instruction::Block(BlockType::Empty) });
            }
            for _ in 0..depth {
                b.push(Instruction::End);
            }
            (format!("{} nested {}", depth, if looped { "loops" } else { "blocks" }), vec![], b)
        }
        6..=8 => {
            let depth = [100usize, 1000, deep][k - 6];
            let mut b = vec![];
            for _ in 0..depth {
                b.push(Instruction::I32Const(1));
                b.push(Instruction::If(BlockType::Empty));
            }
            for _ in 0..depth {
                b.push(Instruction::End);
            }
            (format!("{depth} nested ifs"), vec![], b)
        }
        9 => ("50000 locals".into(), vec![(50_000, ValType::I32)], vec![]),
        10 => ("50001 locals".into(), vec![(50_001, ValType::I32)], vec![]),
        11 => ("2^32-1 locals".into(), vec![(u32::MAX, ValType::I32)], vec![]),
        12 => ("2^32-1 + 1 locals (two groups)".into(), vec![(u32::MAX, ValType::I32), (1, ValType::I64)], vec![]),
        _ => {
            // long straight-line body: operand stack height grows to `deep`
            let mut b = vec![];
            for _ in 0..deep {
                b.push(Instruction::I32Const(1));
            }
            for _ in 0..deep {
                b.push(Instruction::Drop);
            }
            (format!("operand stack {deep} deep"), vec![], b)
        }
    };
    let mut m = Module::new();
    let mut t = TypeSection::new();
    t.ty().function(vec![ValType::I64], vec![ValType::I64]);
    m.section(&t);
    let mut f = FunctionSection::new();
    f.function(0);
    m.section(&f);
    let mut ms = MemorySection::new();
    ms.memory(MemoryType { minimum: 1, maximum: None, memory64: false, shared: false, page_size_log2: None });
    m.section(&ms);
    let mut e = ExportSection::new();
    e.export("memory", ExportKind::Memory, 0);
    e.export("Test_f", ExportKind::Func, 0);
    m.section(&e);
    let mut c = CodeSection::new();
    let mut func = Function::new(locals);
    for i in &body {
        func.instruction(i);
    }
    func.instruction(&Instruction::LocalGet(0));
    func.instruction(&Instruction::End);
    c.function(&func);
    m.section(&c);
    (name, m.finish())
}

impl Space {
    fn new(thorough: bool, lim: &Limits) -> Space {
        let lat = Lattice::new(thorough);
        let mut set: BTreeSet<[usize; NDIM]> = BTreeSet::new();
        // every pair of dimensions, full product, others neutral
        for i in 0..NDIM {
            for j in (i + 1)..NDIM {
                for vi in 0..lat.sizes[i] {
                    for vj in 0..lat.sizes[j] {
                        // quick tier only: an accepted module with 8192 functions costs seconds in the
                        // instrumenter, so the (function-count, import) pair keeps 3 of the 49 host functions
                        if !thorough && i == wasmgen::D_FUNCS && j == wasmgen::D_IMPORT && vi != 0 {
                            if let wasmgen::Imp::Host(p, _) = lat.imp(vj) {
                                if p != 0 && p != 24 && p != 48 {
                                    continue;
                                }
                            }
                        }
                        let mut d = [0usize; NDIM];
                        d[i] = vi;
                        d[j] = vj;
                        set.insert(d);
                    }
                }
            }
        }
        // full product of the first six dimensions (quick: the function-count dimension stays neutral in this
        // product — a module with 8192 functions costs ~0.3 s in the instrumenter — and is covered by the pairs)
        let mut d = [0usize; NDIM];
        loop {
            set.insert(d);
            let mut k = 0;
            loop {
                if k == 6 {
                    break;
                }
                if k == wasmgen::D_FUNCS && !thorough {
                    k += 1;
                    continue;
                }
                d[k] += 1;
                if d[k] < lat.sizes[k] {
                    break;
                }
                d[k] = 0;
                k += 1;
            }
            if k == 6 {
                break;
            }
        }
        if thorough {
            // every triple of the small dimensions (all but the import dimension)
            let small: Vec<usize> = (0..NDIM).filter(|x| *x != wasmgen::D_IMPORT).collect();
            for a in 0..small.len() {
                for b in (a + 1)..small.len() {
                    for c in (b + 1)..small.len() {
                        let (i, j, k) = (small[a], small[b], small[c]);
                        for vi in 1..lat.sizes[i] {
                            for vj in 1..lat.sizes[j] {
                                for vk in 1..lat.sizes[k] {
                                    let mut d = [0usize; NDIM];
                                    d[i] = vi;
                                    d[j] = vj;
                                    d[k] = vk;
                                    set.insert(d);
                                }
                            }
                        }
                    }
                }
            }
        }
        let mut descs: Vec<Desc> = set.into_iter().map(Desc::Lattice).collect();
        let n_lattice = descs.len();
        let n_bytes = mc_core::gen::count_upto(BYTE_ALPHA.len() as u64, if thorough { 6 } else { 5 }) as usize;
        for i in 0..n_bytes {
            descs.push(Desc::Bytes(i as u64));
        }
        let n_raw = mc_core::gen::count_upto(RAW_ALPHA.len() as u64, 3) as usize;
        for i in 0..n_raw {
            descs.push(Desc::Raw(i as u64));
        }
        // mutation bases: a minimal valid package, the neutral lattice module, a richer accepted lattice module
        let minimal = crate::c47::compile_checked(
            r#"(module (memory (export "memory") 1) (func (export "Test_f") (param i64) (result i64) (local.get 0)))"#,
        );
        let neutral = wasmgen::build(&lat, &[0; NDIM], lim);
        let mut rich = [0usize; NDIM];
        rich[wasmgen::D_TABLE] = 2;
        rich[wasmgen::D_FEATURE] = 1;
        rich[wasmgen::D_MEM] = 1;
        rich[wasmgen::D_IMPORT] = 1 + 8 * lat.sig_variants; // object_call, right signature
        let rich = wasmgen::build(&lat, &rich, lim);
        let mut_bases = vec![minimal, neutral, rich];
        let mut mut_counts = vec![];
        let mut n_mut = 0;
        for (b, base) in mut_bases.iter().enumerate() {
            let n = mutations_of(base, thorough).len();
            mut_counts.push(n);
            for o in 0..n {
                descs.push(Desc::Mut(b, o));
            }
            n_mut += n;
        }
        for k in 0..N_EXTREME {
            descs.push(Desc::Extreme(k));
        }
        Space { lat, descs, n_lattice, n_bytes, n_raw, n_mut, n_extreme: N_EXTREME, mut_bases, mut_counts, thorough }
    }

    fn describe(&self, d: &Desc, bytes: Option<&[u8]>) -> Value {
        let mut v = match d {
            Desc::Lattice(dims) => json!({"family": "lattice", "dims": dims.to_vec(), "non_neutral": self.lat.describe(dims)}),
            Desc::Bytes(i) => json!({"family": "header+bytes", "index": i}),
            Desc::Raw(i) => json!({"family": "raw-bytes", "index": i}),
            Desc::Mut(b, o) => {
                let base = ["minimal", "neutral-lattice", "rich-lattice"][*b];
                json!({"family": "mutation", "base": base, "ordinal": o})
            }
            Desc::Extreme(k) => json!({"family": "extreme", "k": k, "what": extreme(*k, self.thorough).0}),
        };
        if let Some(b) = bytes {
            if b.len() <= 2048 {
                v["input_hex"] = json!(mc_core::hex(b));
            }
            v["input_len"] = json!(b.len());
        }
        v
    }
}

fn err_class(e: &PrepareError) -> String {
    match e {
        PrepareError::InvalidImport(i) => format!(
            "InvalidImport::{}",
            match i {
                InvalidImport::ImportNotAllowed(_) => "ImportNotAllowed",
                InvalidImport::ProtocolVersionMismatch { .. } => "ProtocolVersionMismatch",
                InvalidImport::InvalidFunctionType(_) => "InvalidFunctionType",
            }
        ),
        PrepareError::InvalidMemory(m) => format!("InvalidMemory::{m:?}"),
        PrepareError::InvalidTable(t) => format!("InvalidTable::{t:?}"),
        other => {
            let s = format!("{other:?}");
            s.split(|c: char| c == '(' || c == '{' || c == ' ').next().unwrap_or("").to_string()
        }
    }
}

#[derive(Default)]
struct Cn {
    structurally_valid: u64,
    accepted: u64,
    accepted_output_checked: u64,
    rule_breaking_valid_rejected: u64,
    conforming_rejected: u64,
    /// cpu microseconds: lattice small, lattice with ~8192 functions, byte strings, mutations, extreme
    cpu_us: [u64; 5],
}

struct Evaluator {
    validator: ScryptoV1WasmValidator,
    pkg: PackageDefinition,
    lim: Limits,
}

impl Evaluator {
    fn new() -> Evaluator {
        let validator = ScryptoV1WasmValidator::new(ScryptoVmVersion::latest());
        let lim = limits(&validator);
        Evaluator { validator, pkg: PackageDefinition::new_single_function_test_definition("Test", "f"), lim }
    }

    fn eval(&self, space: &Space, d: &Desc, bytes: &[u8], l: &mut Local, cn: &mut Cn) {
        l.eval();
        let r = catch(|| self.validator.validate(bytes, self.pkg.blueprints.values()));
        let case = || space.describe(d, Some(bytes));
        let r = match r {
            Err(p) => {
                let loc = mc_core::last_panic_location();
                let site = loc.rsplit('/').next().unwrap_or("").to_string();
                crate::util::violation(l, format!("panic@{site}"), format!("validate panicked: {p} at {loc}"), case());
                l.class("panicked");
                return;
            }
            Ok(r) => r,
        };
        let mut facts: Result<Facts, String> = reparse::facts(bytes);
        // The engine's parser (wasmparser 0.107) reads the header's 4-byte version field as (kind:u16 high,
        // version:u16 low) and radix-wasm-instrument never looks at the low half, so `\0asm 07 00 00 00` is
        // taken as a module. The statement says nothing about the header: judge such inputs by their content
        // (same bytes with the standard version field) and count the leniency as informational.
        let mut normalised: Option<Vec<u8>> = None;
        if facts.is_err() && r.is_ok() && bytes.len() >= 8 && bytes[..4] == HEADER[..4] && bytes[6..8] == [0, 0] && bytes[4..6] != [1, 0] {
            let mut b = bytes.to_vec();
            b[4..8].copy_from_slice(&HEADER[4..8]);
            facts = reparse::facts(&b);
            normalised = Some(b);
            l.info("accepted input with a non-standard version field in the header (engine ignores it; statement-silent)");
        }
        let bytes_orig = bytes;
        let bytes: &[u8] = normalised.as_deref().unwrap_or(bytes);
        let case = || space.describe(d, Some(bytes_orig));
        let valid_any = facts.is_ok() && reparse::validates(bytes, wasmparser::WasmFeatures::all()).is_ok();
        if valid_any {
            cn.structurally_valid += 1;
        }
        let lattice_verdict = if let Desc::Lattice(dims) = d { Some(wasmgen::verdict(&space.lat, dims, &self.lim)) } else { None };
        // generator self-check: the lattice verdict and the independently parsed facts must tell the same story
        if let (Some(v), Ok(f)) = (&lattice_verdict, &facts) {
            let mut a: Vec<&str> = v.must_reject.clone();
            let mut b: Vec<&str> = reparse::rule_breaks(f, &self.lim);
            a.sort();
            a.dedup();
            b.sort();
            b.dedup();
            if a != b {
                mc_core::machinery_error(&format!("C45 generator self-check failed: lattice verdict {a:?} but parsed facts say {b:?} for {}", case()));
            }
        } else if lattice_verdict.is_some() {
            mc_core::machinery_error(&format!("C45 generator self-check failed: lattice module is not parseable: {:?} {}", facts.as_ref().err(), case()));
        }
        match r {
            Err(e) => {
                let c = err_class(&e);
                l.class(&format!("rejected: {c}"));
                if let Ok(f) = &facts {
                    let breaks = reparse::rule_breaks(f, &self.lim);
                    let silent_l = lattice_verdict.as_ref().map(|v| v.silent.clone()).unwrap_or_default();
                    let silent = reparse::silent_breaks(f, &self.lim);
                    if valid_any && !breaks.is_empty() {
                        cn.rule_breaking_valid_rejected += 1;
                    }
                    if breaks.is_empty() && silent.is_empty() && silent_l.is_empty() && reparse::validates(bytes, reparse::strict_features()).is_ok() {
                        // conforming by everything this harness knows; the statement does not demand acceptance
                        if lattice_verdict.is_some() {
                            cn.conforming_rejected += 1;
                            l.info(&format!("conforming lattice module rejected ({c}) — statement-silent"));
                            l.sample(|| json!({"conforming_rejected": case(), "error": format!("{e:?}")}));
                        } else {
                            l.info(&format!("rule-conforming input rejected ({c}) — statement-silent"));
                        }
                    }
                }
            }
            Ok((out, _exports)) => {
                cn.accepted += 1;
                l.class("accepted");
                let f = match &facts {
                    Ok(f) => f,
                    Err(e) => {
                        crate::util::violation(l, "accepted:unparseable", format!("accepted input that the independent parser rejects: {e}"), case());
                        return;
                    }
                };
                let breaks = reparse::rule_breaks(f, &self.lim);
                for b in &breaks {
                    crate::util::violation(l, format!("accepted:{b}"), format!("validate accepted a module that breaks the rule `{b}` (all broken rules: {breaks:?})"), case());
                }
                if let Some(v) = &lattice_verdict {
                    for s in &v.silent {
                        l.info(&format!("accepted although `{s}` (statement-silent)"));
                    }
                }
                for s in reparse::silent_breaks(f, &self.lim) {
                    l.info(&format!("accepted although `{s}` (statement-silent)"));
                }
                if reparse::validates(bytes, reparse::strict_features()).is_err() {
                    l.info("accepted input is not valid under MVP+mutable-global+sign-extension (statement-silent)");
                }
                if !breaks.is_empty() {
                    return;
                }
                let bad = reparse::check_output(f, &out, &self.lim);
                if bad.is_empty() {
                    cn.accepted_output_checked += 1;
                    l.sample(|| json!({"accepted": case(), "output_len": out.len()}));
                }
                for (k, dsc) in bad {
                    let mut c = case();
                    if out.len() <= 4096 {
                        c["output_hex"] = json!(mc_core::hex(&out));
                    }
                    crate::util::violation(l, k, dsc, c);
                }
            }
        }
    }
}

fn materialize(space: &Space, d: &Desc, lim: &Limits, muts: &mut Vec<Option<Vec<Vec<u8>>>>) -> Vec<u8> {
    match d {
        Desc::Lattice(dims) => wasmgen::build(&space.lat, dims, lim),
        Desc::Bytes(i) => {
            let mut tail = vec![];
            mc_core::gen::nth_string(&BYTE_ALPHA, *i, &mut tail);
            let mut v = HEADER.to_vec();
            v.extend(tail);
            v
        }
        Desc::Raw(i) => {
            let mut v = vec![];
            mc_core::gen::nth_string(&RAW_ALPHA, *i, &mut v);
            v
        }
        Desc::Mut(b, o) => {
            if muts[*b].is_none() {
                muts[*b] = Some(mutations_of(&space.mut_bases[*b], space.thorough));
            }
            muts[*b].as_ref().unwrap()[*o].clone()
        }
        Desc::Extreme(k) => extreme(*k, space.thorough).1,
    }
}

fn local_to_json(l: &Local, cn: &Cn) -> Value {
    json!({
        "evals": l.evals,
        "classes": l.classes,
        "infos": l.infos,
        "violations": l.violations.iter().map(|v| json!({"key": v.key, "what": v.what, "case": v.case})).collect::<Vec<_>>(),
        "samples": l.samples,
        "cn": [cn.structurally_valid, cn.accepted, cn.accepted_output_checked, cn.rule_breaking_valid_rejected, cn.conforming_rejected, cn.cpu_us[0], cn.cpu_us[1], cn.cpu_us[2], cn.cpu_us[3], cn.cpu_us[4]],
    })
}

fn json_to_local(v: &Value, cn: &mut Cn, seen_keys: &mut BTreeSet<String>) -> Local {
    let mut l = Local::new();
    l.evals = v["evals"].as_u64().unwrap_or(0);
    if let Some(m) = v["classes"].as_object() {
        for (k, n) in m {
            l.classes.insert(k.clone(), n.as_u64().unwrap_or(0));
        }
    }
    if let Some(m) = v["infos"].as_object() {
        for (k, n) in m {
            l.infos.insert(k.clone(), n.as_u64().unwrap_or(0));
        }
    }
    if let Some(a) = v["violations"].as_array() {
        for x in a {
            // one recorded instance per key over all children (the per-key totals are in the classes), so that
            // neither the violation list nor known-finding hit counts depend on the number of child processes
            let key = x["key"].as_str().unwrap_or("").to_string();
            if seen_keys.insert(key.clone()) {
                l.violation(key, x["what"].as_str().unwrap_or(""), x["case"].clone());
            }
        }
    }
    if let Some(a) = v["samples"].as_array() {
        for s in a.iter().take(3) {
            let s = s.clone();
            l.sample(|| s);
        }
    }
    if let Some(a) = v["cn"].as_array() {
        let g = |i: usize| a.get(i).and_then(|x| x.as_u64()).unwrap_or(0);
        cn.structurally_valid += g(0);
        cn.accepted += g(1);
        cn.accepted_output_checked += g(2);
        cn.rule_breaking_valid_rejected += g(3);
        cn.conforming_rejected += g(4);
        for k in 0..5 {
            cn.cpu_us[k] += g(5 + k);
        }
    }
    l
}

/// child: evaluate the indexes i ≡ k (mod t), skipping `skip`, writing the current index before each evaluation
fn child_main(ctx: &Ctx, spec: &str) -> ! {
    let parts: Vec<&str> = spec.split('/').collect();
    let k: usize = parts[0].parse().unwrap_or(0);
    let t: usize = parts[1].parse().unwrap_or(1);
    let skip: BTreeSet<usize> = parts.get(2).map(|s| s.split(',').filter_map(|x| x.parse().ok()).collect()).unwrap_or_default();
    let prefix = std::env::var("MC_C45_OUT").unwrap_or_else(|_| mc_core::machinery_error("child without MC_C45_OUT"));
    let ev = Evaluator::new();
    let space = Space::new(!ctx.quick(), &ev.lim);
    let progress = std::fs::OpenOptions::new().create(true).write(true).truncate(true).open(format!("{prefix}.progress")).unwrap_or_else(|e| mc_core::machinery_error(&format!("progress file: {e}")));
    let mut l = Local::new();
    let mut cn = Cn::default();
    let mut muts: Vec<Option<Vec<Vec<u8>>>> = vec![None; space.mut_bases.len()];
    let mut i = k;
    while i < space.descs.len() {
        if !skip.contains(&i) {
            let _ = progress.write_at(format!("{i:>20}").as_bytes(), 0);
            let d = &space.descs[i];
            let t0 = std::time::Instant::now();
            let bytes = materialize(&space, d, &ev.lim, &mut muts);
            ev.eval(&space, d, &bytes, &mut l, &mut cn);
            let fam = match d {
                Desc::Lattice(dims) => (dims[wasmgen::D_FUNCS] != 0) as usize,
                Desc::Bytes(_) | Desc::Raw(_) => 2,
                Desc::Mut(..) => 3,
                Desc::Extreme(_) => 4,
            };
            cn.cpu_us[fam] += t0.elapsed().as_micros() as u64;
        }
        i += t;
    }
    let _ = progress.write_at(format!("{:>20}", "done").as_bytes(), 0);
    std::fs::write(format!("{prefix}.result"), serde_json::to_string(&local_to_json(&l, &cn)).unwrap()).unwrap_or_else(|e| mc_core::machinery_error(&format!("result file: {e}")));
    std::process::exit(0)
}

pub fn run(ctx: Ctx) -> ! {
    if let Ok(spec) = std::env::var("MC_C45_CHILD") {
        child_main(&ctx, &spec);
    }
    let ev = Evaluator::new();
    let space = Space::new(!ctx.quick(), &ev.lim);
    let mut cn = Cn::default();

    if let Some(case) = ctx.read_replay_case() {
        // replay in-process: the input is either carried as hex or rebuilt from the lattice point
        let bytes = if let Some(h) = case["input_hex"].as_str() {
            mc_core::unhex(h)
        } else if let Some(d) = case["dims"].as_array() {
            let mut dims = [0usize; NDIM];
            for (i, x) in d.iter().enumerate().take(NDIM) {
                dims[i] = x.as_u64().unwrap_or(0) as usize;
            }
            wasmgen::build(&space.lat, &dims, &ev.lim)
        } else if case["family"] == "extreme" {
            extreme(case["k"].as_u64().unwrap_or(0) as usize, !ctx.quick()).1
        } else {
            mc_core::machinery_error("replay case carries neither input_hex nor dims")
        };
        let d = if let Some(d) = case["dims"].as_array() {
            let mut dims = [0usize; NDIM];
            for (i, x) in d.iter().enumerate().take(NDIM) {
                dims[i] = x.as_u64().unwrap_or(0) as usize;
            }
            Desc::Lattice(dims)
        } else {
            Desc::Raw(0)
        };
        let mut l = Local::new();
        if std::env::var("MC_C45_TIMING").is_ok() {
            let t = std::time::Instant::now();
            let r = ev.validator.validate(&bytes, ev.pkg.blueprints.values());
            println!("TIMING validate: {:?} ok={}", t.elapsed(), r.is_ok());
            let t = std::time::Instant::now();
            let f = reparse::facts(&bytes);
            println!("TIMING facts: {:?}", t.elapsed());
            let t = std::time::Instant::now();
            let _ = reparse::validates(&bytes, wasmparser::WasmFeatures::all());
            println!("TIMING validates: {:?}", t.elapsed());
            if let (Ok((out, _)), Ok(f)) = (r, f) {
                let t = std::time::Instant::now();
                let bad = reparse::check_output(&f, &out, &ev.lim);
                println!("TIMING check_output: {:?} bad={}", t.elapsed(), bad.len());
            }
        }
        ev.eval(&space, &d, &bytes, &mut l, &mut cn);
        for v in &l.violations {
            println!("REPLAY: {} :: {}", v.key, v.what);
        }
        if l.violations.is_empty() {
            println!("REPLAY: no violation reproduced; classes {:?}", l.classes);
        }
        ctx.merge(l);
        ctx.finish(Level::Exploration, "replay", 0, false, Map::new(), &[]);
    }

    // parent: T single-threaded children, each in its own process so that a stack overflow / abort inside the
    // validator is an observation, not the end of the harness
    let t = ctx.threads.max(1);
    let exe = std::env::current_exe().unwrap_or_else(|e| mc_core::machinery_error(&format!("current_exe: {e}")));
    let dir = ctx.scratch_dir("children");
    let tier = if ctx.quick() { "quick" } else { "thorough" };
    let mut exhaustive = true;
    let mut killed = 0u64;
    let results: Vec<(Vec<usize>, Option<Value>, bool)> = std::thread::scope(|s| {
        let hs: Vec<_> = (0..t)
            .map(|k| {
                let exe = exe.clone();
                let prefix = dir.join(format!("child{k}")).to_string_lossy().to_string();
                s.spawn(move || {
                    let mut skip: Vec<usize> = vec![];
                    loop {
                        let _ = std::fs::remove_file(format!("{prefix}.result"));
                        let spec = format!("{k}/{t}/{}", skip.iter().map(|x| x.to_string()).collect::<Vec<_>>().join(","));
                        let st = std::process::Command::new(&exe)
                            .args(["C45", tier])
                            .env("MC_C45_CHILD", &spec)
                            .env("MC_C45_OUT", &prefix)
                            .stdout(std::process::Stdio::null())
                            .stderr(std::process::Stdio::piped())
                            .output();
                        let ok = matches!(&st, Ok(o) if o.status.success());
                        if ok {
                            let txt = std::fs::read_to_string(format!("{prefix}.result")).unwrap_or_default();
                            return (skip, serde_json::from_str::<Value>(&txt).ok(), true);
                        }
                        // exit code 2 of a child = harness trouble inside the child: propagate as machinery error
                        if let Ok(o) = &st {
                            if o.status.code() == Some(2) {
                                let e = String::from_utf8_lossy(&o.stderr).to_string();
                                mc_core::machinery_error(&format!("C45 child {k} reported a machinery error: {}", mc_core::truncate(&e, 1500)));
                            }
                        }
                        let p = std::fs::read_to_string(format!("{prefix}.progress")).unwrap_or_default();
                        match p.trim().parse::<usize>() {
                            Ok(i) if skip.len() < 3 => skip.push(i),
                            _ => return (skip, None, false),
                        }
                    }
                })
            })
            .collect();
        hs.into_iter().map(|h| h.join().unwrap_or_else(|_| mc_core::machinery_error("supervisor thread panicked"))).collect()
    });
    let mut seen_keys: BTreeSet<String> = BTreeSet::new();
    for (skip, res, complete) in results {
        for i in skip {
            killed += 1;
            let d = &space.descs[i];
            let mut muts: Vec<Option<Vec<Vec<u8>>>> = vec![None; space.mut_bases.len()];
            let bytes = materialize(&space, d, &ev.lim, &mut muts);
            ctx.violation("process-killed", "the process evaluating this input died (stack overflow / abort / signal) instead of returning", space.describe(d, Some(&bytes)));
            ctx.class("process killed", 1);
        }
        match res {
            Some(v) => ctx.merge(json_to_local(&v, &mut cn, &mut seen_keys)),
            None => exhaustive = false,
        }
        if !complete {
            exhaustive = false;
            ctx.note("a child process could not complete its shard (more than 3 process-killing inputs or unreadable result)");
        }
    }
    let mut cov = Map::new();
    cov.insert("lattice_modules".into(), json!(space.n_lattice));
    cov.insert("lattice_dimension_sizes".into(), json!(space.lat.sizes.iter().zip(wasmgen::DIM_NAMES.iter()).map(|(s, n)| format!("{n}={s}")).collect::<Vec<_>>()));
    cov.insert("header_plus_byte_strings".into(), json!(space.n_bytes));
    cov.insert("raw_byte_strings".into(), json!(space.n_raw));
    cov.insert("single_point_mutations".into(), json!(space.n_mut));
    cov.insert("mutation_bases_len".into(), json!(space.mut_bases.iter().map(|b| b.len()).collect::<Vec<_>>()));
    cov.insert("mutations_per_base".into(), json!(space.mut_counts));
    cov.insert("extreme_modules".into(), json!(space.n_extreme));
    cov.insert("accepted".into(), json!(cn.accepted));
    cov.insert("accepted_and_output_structurally_verified".into(), json!(cn.accepted_output_checked));
    cov.insert("rule_breaking_but_valid_wasm_rejected".into(), json!(cn.rule_breaking_valid_rejected));
    cov.insert("conforming_lattice_modules_rejected".into(), json!(cn.conforming_rejected));
    cov.insert("processes_killed".into(), json!(killed));
    cov.insert("cpu_seconds_by_family".into(), json!({"lattice_small": cn.cpu_us[0] as f64 / 1e6, "lattice_many_functions": cn.cpu_us[1] as f64 / 1e6, "byte_strings": cn.cpu_us[2] as f64 / 1e6, "mutations": cn.cpu_us[3] as f64 / 1e6, "extreme": cn.cpu_us[4] as f64 / 1e6}));
    cov.insert("child_processes".into(), json!(t));
    ctx.finish(
        Level::Exploration,
        "inputs that are structurally valid WASM for the independent parser (got past deserialization/validation and reached the sandbox rules)",
        cn.structurally_valid,
        exhaustive,
        cov,
        &[
            "limits are read from the validator's public configuration fields; the list of permitted host imports and their signatures is written from scrypto/src/engine/wasm_api.rs",
            "the statement demands nothing about rejecting/accepting conforming modules, br_table size, blueprint exports or post-MVP proposals: informational",
            "metering is checked at function and loop entries only (placement elsewhere is the instrumenter's choice); zero-weight first instructions (end/else/unreachable/return) need no charge",
            "ScryptoVmVersion::latest() only",
        ],
    )
}
