//! C46 — WASM instrumentation preserves program meaning.
//!
//! Programs: every well-typed expression tree of <= N nodes (quick 4, thorough 5) of a harness mini-language
//! (i32/i64 constants {0,1,-1,MAX}, locals get/tee, add sub mul div_s rem_u shl shr_u, eq lt_s gt_u eqz,
//! wrap/extend, select, if/else, block+br_if, one bounded loop per function, one call of a second function whose
//! body is part of the tree, load/store at {0, 4, last page - 4, out of bounds}, unreachable, br_table),
//! compiled to a two-function WASM module by the harness (wasm-encoder; validated with wasmparser 0.244).
//!
//! Each program is run for all 16 argument vectors over {0,1,-1,MAX}^2 by
//!   R  a reference interpreter of the mini-language (value or trap kind, branch-decision trace);
//!   U  the uninstrumented module in wasmi 0.39.1 directly;
//!   I  the output of the real `ScryptoV1WasmValidator::validate` in wasmi directly, with a harness `env.gas`
//!      host function accumulating the metered units (unlimited budget);
//!   E  the same instrumented code through the engine's own `WasmiEngine::instantiate` + `invoke_export`
//!      with the recording mock `WasmRuntime` (cold instance and cache-warm instance of the same engine).
//! Oracle: R = U = I = E on results and trap kinds; metered cost identical between two runs, between cold and
//! warm engine instances, and identical for any two argument vectors with the same R trace (decisions + trap
//! position). The trace comes from the independent interpreter.
use crate::mock::new_runtime;
use mc_core::{catch, par_range, Ctx, Level, Local};
use radix_common::crypto::Hash;
use radix_engine::vm::wasm::{ScryptoV1WasmValidator, WasmEngine, WasmInstance, WasmiEngine};
use radix_engine::vm::ScryptoVmVersion;
use radix_engine_interface::blueprints::package::{BlueprintDefinitionInit, CodeHash};
use radix_engine_interface::types::Buffer;
use serde_json::{json, Map};
use std::cell::RefCell;
use std::collections::BTreeMap;
use std::sync::atomic::{AtomicU64, Ordering};
use std::sync::Arc;

#[derive(Clone, Copy, PartialEq, Eq, Debug, PartialOrd, Ord)]
pub enum Ty {
    I32,
    I64,
}

#[derive(Clone, Copy, PartialEq, Eq, Debug)]
pub enum BinOp {
    Add,
    Sub,
    Mul,
    DivS,
    RemU,
    Shl,
    ShrU,
}
const BINOPS: [BinOp; 7] = [BinOp::Add, BinOp::Sub, BinOp::Mul, BinOp::DivS, BinOp::RemU, BinOp::Shl, BinOp::ShrU];

#[derive(Clone, Copy, PartialEq, Eq, Debug)]
pub enum CmpOp {
    Eq,
    LtS,
    GtU,
}
const CMPOPS: [CmpOp; 3] = [CmpOp::Eq, CmpOp::LtS, CmpOp::GtU];

const ADDRS: [u32; 4] = [0, 4, 65536 - 4, 65536];
const CONSTS64: [i64; 4] = [0, 1, -1, i64::MAX];
const CONSTS32: [i32; 4] = [0, 1, -1, i32::MAX];
const ARGS: [i64; 4] = [0, 1, -1, i64::MAX];
const RESULT_ADDR: u32 = 1024;

#[derive(Debug)]
pub enum E {
    C32(i32),
    C64(i64),
    /// local.get: 0,1 = i64 parameters, 2 = i32 scratch, 3 = i64 scratch
    L(u8),
    /// local.tee of the scratch local of the value's type
    Tee(Ty, N),
    Bin(Ty, BinOp, N, N),
    Cmp(Ty, CmpOp, N, N),
    Eqz(N),
    Wrap(N),
    Ext(N),
    Sel(Ty, N, N, N),
    If(Ty, N, N, N),
    /// block (result T) v c br_if 0 drop rest end
    Brif(Ty, N, N, N),
    Load(Ty, u8),
    /// store v at address; then `rest` is the value
    Store(Ty, u8, N, N),
    /// call g(arg, local 1); the callee body is the second child
    Call(N, N),
    Unr(Ty),
    /// acc = 0; repeat (n & 3) times: acc = acc*3 + body; value acc
    Loop(N, N),
    /// value [10,20,30][min(idx,2)] through br_table
    BrT(N),
}

#[derive(Debug)]
pub struct Node {
    pub e: E,
    pub ty: Ty,
    pub size: u8,
    pub has_loop: bool,
    pub has_call: bool,
}
pub type N = Arc<Node>;

fn mk(e: E, ty: Ty, kids: &[&N], loop_here: bool, call_here: bool, loop_from: &[&N]) -> N {
    let size = 1 + kids.iter().map(|k| k.size as u32).sum::<u32>();
    Arc::new(Node {
        e,
        ty,
        size: size as u8,
        has_loop: loop_here || loop_from.iter().any(|k| k.has_loop),
        has_call: call_here || kids.iter().any(|k| k.has_call),
    })
}

/// All programs by (type, size). memo[ty][size] (size index 0 unused).
pub struct Sets {
    pub s32: Vec<Vec<N>>,
    pub s64: Vec<Vec<N>>,
}

impl Sets {
    fn get(&self, t: Ty, n: usize) -> &Vec<N> {
        match t {
            Ty::I32 => &self.s32[n],
            Ty::I64 => &self.s64[n],
        }
    }
}

fn compatible(kids: &[&N]) -> bool {
    // one loop and one call per function
    kids.iter().filter(|k| k.has_loop).count() <= 1 && kids.iter().filter(|k| k.has_call).count() <= 1
}

pub fn enumerate(max: usize) -> Sets {
    let mut sets = Sets { s32: vec![vec![]; max + 1], s64: vec![vec![]; max + 1] };
    for n in 1..=max {
        for t in [Ty::I32, Ty::I64] {
            let mut out: Vec<N> = vec![];
            if n == max && t == Ty::I32 && max > 1 {
                continue; // programs are i64-valued: the largest i32 set is never used
            }
            if n == 1 {
                match t {
                    Ty::I32 => {
                        for c in CONSTS32 {
                            out.push(mk(E::C32(c), t, &[], false, false, &[]));
                        }
                        out.push(mk(E::L(2), t, &[], false, false, &[]));
                    }
                    Ty::I64 => {
                        for c in CONSTS64 {
                            out.push(mk(E::C64(c), t, &[], false, false, &[]));
                        }
                        for k in [0u8, 1, 3] {
                            out.push(mk(E::L(k), t, &[], false, false, &[]));
                        }
                    }
                }
                for a in 0..ADDRS.len() as u8 {
                    out.push(mk(E::Load(t, a), t, &[], false, false, &[]));
                }
                out.push(mk(E::Unr(t), t, &[], false, false, &[]));
            } else {
                // unary
                let m = n - 1;
                for x in sets.get(t, m) {
                    out.push(mk(E::Tee(t, x.clone()), t, &[x], false, false, &[x]));
                }
                match t {
                    Ty::I32 => {
                        for x in sets.get(Ty::I32, m) {
                            out.push(mk(E::Eqz(x.clone()), t, &[x], false, false, &[x]));
                        }
                        for x in sets.get(Ty::I64, m) {
                            out.push(mk(E::Wrap(x.clone()), t, &[x], false, false, &[x]));
                        }
                    }
                    Ty::I64 => {
                        for x in sets.get(Ty::I32, m) {
                            out.push(mk(E::Ext(x.clone()), t, &[x], false, false, &[x]));
                            out.push(mk(E::BrT(x.clone()), t, &[x], false, false, &[x]));
                        }
                    }
                }
                // binary shapes
                for a_sz in 1..n.saturating_sub(1) {
                    let b_sz = n - 1 - a_sz;
                    if b_sz == 0 {
                        continue;
                    }
                    for a in sets.get(t, a_sz) {
                        for b in sets.get(t, b_sz) {
                            if !compatible(&[a, b]) {
                                continue;
                            }
                            for op in BINOPS {
                                out.push(mk(E::Bin(t, op, a.clone(), b.clone()), t, &[a, b], false, false, &[a, b]));
                            }
                        }
                    }
                    if t == Ty::I32 {
                        for ot in [Ty::I32, Ty::I64] {
                            for a in sets.get(ot, a_sz) {
                                for b in sets.get(ot, b_sz) {
                                    if !compatible(&[a, b]) {
                                        continue;
                                    }
                                    for op in CMPOPS {
                                        out.push(mk(E::Cmp(ot, op, a.clone(), b.clone()), t, &[a, b], false, false, &[a, b]));
                                    }
                                }
                            }
                        }
                    }
                    // store v then rest (rest has the node's type)
                    for vt in [Ty::I32, Ty::I64] {
                        for v in sets.get(vt, a_sz) {
                            for rest in sets.get(t, b_sz) {
                                if !compatible(&[v, rest]) {
                                    continue;
                                }
                                for ad in 0..ADDRS.len() as u8 {
                                    out.push(mk(E::Store(vt, ad, v.clone(), rest.clone()), t, &[v, rest], false, false, &[v, rest]));
                                }
                            }
                        }
                    }
                    if t == Ty::I64 {
                        // call: arg (caller frame), body (callee frame: its loop does not count for the caller)
                        for arg in sets.get(Ty::I64, a_sz) {
                            if arg.has_call {
                                continue;
                            }
                            for body in sets.get(Ty::I64, b_sz) {
                                if body.has_call {
                                    continue;
                                }
                                out.push(mk(E::Call(arg.clone(), body.clone()), t, &[arg, body], false, true, &[arg]));
                            }
                        }
                        // loop: count (i32), body (i64)
                        for cnt in sets.get(Ty::I32, a_sz) {
                            if cnt.has_loop {
                                continue;
                            }
                            for body in sets.get(Ty::I64, b_sz) {
                                if body.has_loop || !compatible(&[cnt, body]) {
                                    continue;
                                }
                                out.push(mk(E::Loop(cnt.clone(), body.clone()), t, &[cnt, body], true, false, &[]));
                            }
                        }
                    }
                }
                // ternary shapes: select / if / block+br_if: (a: T, b: T, c: i32)
                if n >= 4 {
                    for a_sz in 1..=(n - 3) {
                        for b_sz in 1..=(n - 2 - a_sz) {
                            let c_sz = n - 1 - a_sz - b_sz;
                            if c_sz == 0 {
                                continue;
                            }
                            for a in sets.get(t, a_sz) {
                                for b in sets.get(t, b_sz) {
                                    for c in sets.get(Ty::I32, c_sz) {
                                        if !compatible(&[a, b, c]) {
                                            continue;
                                        }
                                        out.push(mk(E::Sel(t, a.clone(), b.clone(), c.clone()), t, &[a, b, c], false, false, &[a, b, c]));
                                        out.push(mk(E::If(t, c.clone(), a.clone(), b.clone()), t, &[a, b, c], false, false, &[a, b, c]));
                                        out.push(mk(E::Brif(t, a.clone(), c.clone(), b.clone()), t, &[a, b, c], false, false, &[a, b, c]));
                                    }
                                }
                            }
                        }
                    }
                }
            }
            match t {
                Ty::I32 => sets.s32[n] = out,
                Ty::I64 => sets.s64[n] = out,
            }
        }
    }
    sets
}

pub fn show(n: &Node) -> String {
    let t = |t: &Ty| if *t == Ty::I32 { "i32" } else { "i64" };
    match &n.e {
        E::C32(c) => format!("{c}"),
        E::C64(c) => format!("{c}L"),
        E::L(k) => format!("l{k}"),
        E::Tee(_, x) => format!("tee({})", show(x)),
        E::Bin(ty, op, a, b) => format!("{}.{:?}({}, {})", t(ty), op, show(a), show(b)),
        E::Cmp(ty, op, a, b) => format!("{}.{:?}({}, {})", t(ty), op, show(a), show(b)),
        E::Eqz(x) => format!("eqz({})", show(x)),
        E::Wrap(x) => format!("wrap({})", show(x)),
        E::Ext(x) => format!("ext({})", show(x)),
        E::Sel(_, a, b, c) => format!("select({}, {}, {})", show(a), show(b), show(c)),
        E::If(_, c, a, b) => format!("if({}) {{{}}} else {{{}}}", show(c), show(a), show(b)),
        E::Brif(_, v, c, r) => format!("block{{{}; br_if({}); {}}}", show(v), show(c), show(r)),
        E::Load(ty, a) => format!("{}.load[{}]", t(ty), ADDRS[*a as usize]),
        E::Store(ty, a, v, r) => format!("{}.store[{}]({}); {}", t(ty), ADDRS[*a as usize], show(v), show(r)),
        E::Call(a, b) => format!("g({}) where g = {{{}}}", show(a), show(b)),
        E::Unr(_) => "unreachable".into(),
        E::Loop(c, b) => format!("loop({})&3 {{acc*3 + {}}}", show(c), show(b)),
        E::BrT(x) => format!("br_table({})", show(x)),
    }
}

// ------------------------------------------------------------------------------------------------
// reference interpreter
// ------------------------------------------------------------------------------------------------

#[derive(Clone, Copy, PartialEq, Eq, Debug, PartialOrd, Ord)]
pub enum Trap {
    Unreachable,
    DivZero,
    IntOverflow,
    MemOob,
}

struct Frame {
    l: [i64; 4],
}

struct Interp<'a> {
    mem: &'a mut Vec<u8>,
    trace: Vec<u8>,
    steps: u32,
}

impl<'a> Interp<'a> {
    fn load(&self, t: Ty, a: u8) -> Result<i64, Trap> {
        let addr = ADDRS[a as usize] as usize;
        let w = if t == Ty::I32 { 4 } else { 8 };
        if addr + w > self.mem.len() {
            return Err(Trap::MemOob);
        }
        let mut b = [0u8; 8];
        b[..w].copy_from_slice(&self.mem[addr..addr + w]);
        Ok(if t == Ty::I32 { i32::from_le_bytes([b[0], b[1], b[2], b[3]]) as i64 } else { i64::from_le_bytes(b) })
    }
    fn store(&mut self, t: Ty, a: u8, v: i64) -> Result<(), Trap> {
        let addr = ADDRS[a as usize] as usize;
        let w = if t == Ty::I32 { 4 } else { 8 };
        if addr + w > self.mem.len() {
            return Err(Trap::MemOob);
        }
        if t == Ty::I32 {
            self.mem[addr..addr + 4].copy_from_slice(&(v as i32).to_le_bytes());
        } else {
            self.mem[addr..addr + 8].copy_from_slice(&v.to_le_bytes());
        }
        Ok(())
    }
    /// i32 values are kept sign-extended in an i64
    fn ev(&mut self, n: &Node, f: &mut Frame) -> Result<i64, Trap> {
        self.steps += 1;
        match &n.e {
            E::C32(c) => Ok(*c as i64),
            E::C64(c) => Ok(*c),
            E::L(k) => Ok(f.l[*k as usize]),
            E::Tee(t, x) => {
                let v = self.ev(x, f)?;
                f.l[if *t == Ty::I32 { 2 } else { 3 }] = v;
                Ok(v)
            }
            E::Bin(t, op, a, b) => {
                let x = self.ev(a, f)?;
                let y = self.ev(b, f)?;
                if *t == Ty::I32 {
                    let (x, y) = (x as i32, y as i32);
                    let r: i32 = match op {
                        BinOp::Add => x.wrapping_add(y),
                        BinOp::Sub => x.wrapping_sub(y),
                        BinOp::Mul => x.wrapping_mul(y),
                        BinOp::DivS => {
                            if y == 0 {
                                return self.trap(Trap::DivZero);
                            }
                            if x == i32::MIN && y == -1 {
                                return self.trap(Trap::IntOverflow);
                            }
                            x / y
                        }
                        BinOp::RemU => {
                            if y == 0 {
                                return self.trap(Trap::DivZero);
                            }
                            ((x as u32) % (y as u32)) as i32
                        }
                        BinOp::Shl => x.wrapping_shl((y as u32) & 31),
                        BinOp::ShrU => ((x as u32) >> ((y as u32) & 31)) as i32,
                    };
                    Ok(r as i64)
                } else {
                    let r: i64 = match op {
                        BinOp::Add => x.wrapping_add(y),
                        BinOp::Sub => x.wrapping_sub(y),
                        BinOp::Mul => x.wrapping_mul(y),
                        BinOp::DivS => {
                            if y == 0 {
                                return self.trap(Trap::DivZero);
                            }
                            if x == i64::MIN && y == -1 {
                                return self.trap(Trap::IntOverflow);
                            }
                            x / y
                        }
                        BinOp::RemU => {
                            if y == 0 {
                                return self.trap(Trap::DivZero);
                            }
                            ((x as u64) % (y as u64)) as i64
                        }
                        BinOp::Shl => x.wrapping_shl((y as u64 & 63) as u32),
                        BinOp::ShrU => ((x as u64) >> (y as u64 & 63)) as i64,
                    };
                    Ok(r)
                }
            }
            E::Cmp(t, op, a, b) => {
                let x = self.ev(a, f)?;
                let y = self.ev(b, f)?;
                let r = match (t, op) {
                    (_, CmpOp::Eq) => x == y,
                    (_, CmpOp::LtS) => x < y,
                    (Ty::I32, CmpOp::GtU) => (x as i32 as u32) > (y as i32 as u32),
                    (Ty::I64, CmpOp::GtU) => (x as u64) > (y as u64),
                };
                Ok(r as i64)
            }
            E::Eqz(x) => Ok((self.ev(x, f)? as i32 == 0) as i64),
            E::Wrap(x) => Ok(self.ev(x, f)? as i32 as i64),
            E::Ext(x) => Ok(self.ev(x, f)? as i32 as i64),
            E::Sel(_, a, b, c) => {
                let x = self.ev(a, f)?;
                let y = self.ev(b, f)?;
                let z = self.ev(c, f)?;
                Ok(if z as i32 != 0 { x } else { y })
            }
            E::If(_, c, a, b) => {
                let z = self.ev(c, f)?;
                if z as i32 != 0 {
                    self.trace.push(1);
                    self.ev(a, f)
                } else {
                    self.trace.push(0);
                    self.ev(b, f)
                }
            }
            E::Brif(_, v, c, rest) => {
                let x = self.ev(v, f)?;
                let z = self.ev(c, f)?;
                if z as i32 != 0 {
                    self.trace.push(3);
                    Ok(x)
                } else {
                    self.trace.push(2);
                    self.ev(rest, f)
                }
            }
            E::Load(t, a) => match self.load(*t, *a) {
                Ok(v) => Ok(v),
                Err(e) => self.trap(e),
            },
            E::Store(t, a, v, rest) => {
                let x = self.ev(v, f)?;
                if let Err(e) = self.store(*t, *a, x) {
                    return self.trap(e);
                }
                self.ev(rest, f)
            }
            E::Call(arg, body) => {
                let x = self.ev(arg, f)?;
                let mut g = Frame { l: [x, f.l[1], 0, 0] };
                self.trace.push(9);
                let r = self.ev(body, &mut g)?;
                self.trace.push(10);
                Ok(r)
            }
            E::Unr(_) => self.trap(Trap::Unreachable),
            E::Loop(cnt, body) => {
                let c = self.ev(cnt, f)?;
                let mut i = (c as i32) & 3;
                let mut acc: i64 = 0;
                loop {
                    if i == 0 {
                        self.trace.push(5);
                        break;
                    }
                    self.trace.push(4);
                    let b = self.ev(body, f)?;
                    acc = acc.wrapping_mul(3).wrapping_add(b);
                    i -= 1;
                }
                Ok(acc)
            }
            E::BrT(idx) => {
                let i = self.ev(idx, f)? as i32 as u32;
                let arm = i.min(2);
                self.trace.push(6 + arm as u8);
                Ok([10i64, 20, 30][arm as usize])
            }
        }
    }
    fn trap(&mut self, t: Trap) -> Result<i64, Trap> {
        // the position of the trap is part of the executed code path
        self.trace.push(0xF0 + t as u8);
        self.trace.extend_from_slice(&self.steps.to_le_bytes());
        Err(t)
    }
}

pub fn interpret(p: &Node, a: i64, b: i64, mem: &mut Vec<u8>) -> (Result<i64, Trap>, Vec<u8>) {
    let mut it = Interp { mem, trace: vec![], steps: 0 };
    let mut f = Frame { l: [a, b, 0, 0] };
    let r = it.ev(p, &mut f);
    (r, it.trace)
}

// ------------------------------------------------------------------------------------------------
// compiler to WASM
// ------------------------------------------------------------------------------------------------

fn vt(t: Ty) -> wasm_encoder::ValType {
    if t == Ty::I32 {
        wasm_encoder::ValType::I32
    } else {
        wasm_encoder::ValType::I64
    }
}

fn emit(n: &Node, f: &mut wasm_encoder::Function, callee: &mut Option<N>) {
    use wasm_encoder::{BlockType, Instruction as I, MemArg};
    let m32 = MemArg { offset: 0, align: 2, memory_index: 0 };
    let m64 = MemArg { offset: 0, align: 3, memory_index: 0 };
    match &n.e {
        E::C32(c) => {
            f.instruction(&I::I32Const(*c));
        }
        E::C64(c) => {
            f.instruction(&I::I64Const(*c));
        }
        E::L(k) => {
            f.instruction(&I::LocalGet(*k as u32));
        }
        E::Tee(t, x) => {
            emit(x, f, callee);
            f.instruction(&I::LocalTee(if *t == Ty::I32 { 2 } else { 3 }));
        }
        E::Bin(t, op, a, b) => {
            emit(a, f, callee);
            emit(b, f, callee);
            f.instruction(&match (t, op) {
                (Ty::I32, BinOp::Add) => I::I32Add,
                (Ty::I32, BinOp::Sub) => I::I32Sub,
                (Ty::I32, BinOp::Mul) => I::I32Mul,
                (Ty::I32, BinOp::DivS) => I::I32DivS,
                (Ty::I32, BinOp::RemU) => I::I32RemU,
                (Ty::I32, BinOp::Shl) => I::I32Shl,
                (Ty::I32, BinOp::ShrU) => I::I32ShrU,
                (Ty::I64, BinOp::Add) => I::I64Add,
                (Ty::I64, BinOp::Sub) => I::I64Sub,
                (Ty::I64, BinOp::Mul) => I::I64Mul,
                (Ty::I64, BinOp::DivS) => I::I64DivS,
                (Ty::I64, BinOp::RemU) => I::I64RemU,
                (Ty::I64, BinOp::Shl) => I::I64Shl,
                (Ty::I64, BinOp::ShrU) => I::I64ShrU,
            });
        }
        E::Cmp(t, op, a, b) => {
            emit(a, f, callee);
            emit(b, f, callee);
            f.instruction(&match (t, op) {
                (Ty::I32, CmpOp::Eq) => I::I32Eq,
                (Ty::I32, CmpOp::LtS) => I::I32LtS,
                (Ty::I32, CmpOp::GtU) => I::I32GtU,
                (Ty::I64, CmpOp::Eq) => I::I64Eq,
                (Ty::I64, CmpOp::LtS) => I::I64LtS,
                (Ty::I64, CmpOp::GtU) => I::I64GtU,
            });
        }
        E::Eqz(x) => {
            emit(x, f, callee);
            f.instruction(&I::I32Eqz);
        }
        E::Wrap(x) => {
            emit(x, f, callee);
            f.instruction(&I::I32WrapI64);
        }
        E::Ext(x) => {
            emit(x, f, callee);
            f.instruction(&I::I64ExtendI32S);
        }
        E::Sel(_, a, b, c) => {
            emit(a, f, callee);
            emit(b, f, callee);
            emit(c, f, callee);
            f.instruction(&I::Select);
        }
        E::If(t, c, a, b) => {
            emit(c, f, callee);
            f.instruction(&I::If(BlockType::Result(vt(*t))));
            emit(a, f, callee);
            f.instruction(&I::Else);
            emit(b, f, callee);
            f.instruction(&I::End);
        }
        E::Brif(t, v, c, rest) => {
            f.instruction(&I::Block(BlockType::Result(vt(*t))));
            emit(v, f, callee);
            emit(c, f, callee);
            f.instruction(&I::BrIf(0));
            f.instruction(&I::Drop);
            emit(rest, f, callee);
            f.instruction(&I::End);
        }
        E::Load(t, a) => {
            f.instruction(&I::I32Const(ADDRS[*a as usize] as i32));
            f.instruction(&if *t == Ty::I32 { I::I32Load(m32) } else { I::I64Load(m64) });
        }
        E::Store(t, a, v, rest) => {
            f.instruction(&I::I32Const(ADDRS[*a as usize] as i32));
            emit(v, f, callee);
            f.instruction(&if *t == Ty::I32 { I::I32Store(m32) } else { I::I64Store(m64) });
            emit(rest, f, callee);
        }
        E::Call(arg, body) => {
            emit(arg, f, callee);
            f.instruction(&I::LocalGet(1));
            f.instruction(&I::Call(1)); // function index of g
            *callee = Some(body.clone());
        }
        E::Unr(_) => {
            f.instruction(&I::Unreachable);
        }
        E::Loop(cnt, body) => {
            emit(cnt, f, callee);
            f.instruction(&I::I32Const(3));
            f.instruction(&I::I32And);
            f.instruction(&I::LocalSet(4));
            f.instruction(&I::I64Const(0));
            f.instruction(&I::LocalSet(5));
            f.instruction(&I::Block(BlockType::Empty));
            f.instruction(&I::Loop(BlockType::Empty));
            f.instruction(&I::LocalGet(4));
            f.instruction(&I::I32Eqz);
            f.instruction(&I::BrIf(1));
            f.instruction(&I::LocalGet(5));
            f.instruction(&I::I64Const(3));
            f.instruction(&I::I64Mul);
            emit(body, f, callee);
            f.instruction(&I::I64Add);
            f.instruction(&I::LocalSet(5));
            f.instruction(&I::LocalGet(4));
            f.instruction(&I::I32Const(1));
            f.instruction(&I::I32Sub);
            f.instruction(&I::LocalSet(4));
            f.instruction(&I::Br(0));
            f.instruction(&I::End);
            f.instruction(&I::End);
            f.instruction(&I::LocalGet(5));
        }
        E::BrT(idx) => {
            f.instruction(&I::Block(BlockType::Result(wasm_encoder::ValType::I64)));
            f.instruction(&I::Block(BlockType::Empty));
            f.instruction(&I::Block(BlockType::Empty));
            f.instruction(&I::Block(BlockType::Empty));
            emit(idx, f, callee);
            f.instruction(&I::BrTable(std::borrow::Cow::Borrowed(&[0, 1]), 2));
            f.instruction(&I::End);
            f.instruction(&I::I64Const(10));
            f.instruction(&I::Br(2));
            f.instruction(&I::End);
            f.instruction(&I::I64Const(20));
            f.instruction(&I::Br(1));
            f.instruction(&I::End);
            f.instruction(&I::I64Const(30));
            f.instruction(&I::End);
        }
    }
}

/// module: func 0 = main(i64,i64)->i64 (export "main"), func 1 = g(i64,i64)->i64, func 2 = Test_f (export):
/// stores main's result at RESULT_ADDR and returns the slice (RESULT_ADDR, 8); memory 1 page exported.
pub fn compile(p: &Node) -> Vec<u8> {
    use wasm_encoder::*;
    let i64t = ValType::I64;
    let mut m = Module::new();
    let mut types = TypeSection::new();
    types.ty().function(vec![i64t, i64t], vec![i64t]);
    m.section(&types);
    let mut fs = FunctionSection::new();
    fs.function(0);
    fs.function(0);
    fs.function(0);
    m.section(&fs);
    let mut ms = MemorySection::new();
    ms.memory(MemoryType { minimum: 1, maximum: None, memory64: false, shared: false, page_size_log2: None });
    m.section(&ms);
    let mut es = ExportSection::new();
    es.export("memory", ExportKind::Memory, 0);
    es.export("main", ExportKind::Func, 0);
    es.export("Test_f", ExportKind::Func, 2);
    m.section(&es);
    let locals = vec![(1, ValType::I32), (1, i64t), (1, ValType::I32), (1, i64t)];
    let mut cs = CodeSection::new();
    let mut callee: Option<N> = None;
    let mut f0 = Function::new(locals.clone());
    emit(p, &mut f0, &mut callee);
    f0.instruction(&Instruction::End);
    cs.function(&f0);
    let mut f1 = Function::new(locals.clone());
    match &callee {
        Some(b) => {
            let mut none = None;
            emit(b, &mut f1, &mut none);
        }
        None => {
            f1.instruction(&Instruction::LocalGet(0));
        }
    }
    f1.instruction(&Instruction::End);
    cs.function(&f1);
    let mut f2 = Function::new(vec![]);
    f2.instruction(&Instruction::I32Const(RESULT_ADDR as i32));
    f2.instruction(&Instruction::LocalGet(0));
    f2.instruction(&Instruction::LocalGet(1));
    f2.instruction(&Instruction::Call(0));
    f2.instruction(&Instruction::I64Store(MemArg { offset: 0, align: 3, memory_index: 0 }));
    f2.instruction(&Instruction::I64Const(((RESULT_ADDR as i64) << 32) | 8));
    f2.instruction(&Instruction::End);
    cs.function(&f2);
    m.section(&cs);
    m.finish()
}

// ------------------------------------------------------------------------------------------------
// runners
// ------------------------------------------------------------------------------------------------

type Outcome = Result<i64, String>; // Err(trap kind name)

fn trap_name(t: Trap) -> &'static str {
    match t {
        Trap::Unreachable => "UnreachableCodeReached",
        Trap::DivZero => "IntegerDivisionByZero",
        Trap::IntOverflow => "IntegerOverflow",
        Trap::MemOob => "MemoryOutOfBounds",
    }
}

struct Raw {
    store: wasmi::Store<u128>,
    main: wasmi::TypedFunc<(i64, i64), i64>,
}

fn raw_instance(engine: &wasmi::Engine, module: &wasmi::Module) -> Result<Raw, String> {
    let mut store = wasmi::Store::new(engine, 0u128);
    let mut linker = <wasmi::Linker<u128>>::new(engine);
    linker
        .func_wrap("env", "gas", |mut caller: wasmi::Caller<'_, u128>, n: i64| {
            *caller.data_mut() += n as u64 as u128;
        })
        .map_err(|e| e.to_string())?;
    let inst = linker.instantiate(&mut store, module).map_err(|e| e.to_string())?.ensure_no_start(&mut store).map_err(|e| e.to_string())?;
    let main = inst.get_typed_func::<(i64, i64), i64>(&store, "main").map_err(|e| e.to_string())?;
    Ok(Raw { store, main })
}

impl Raw {
    fn run(&mut self, a: i64, b: i64) -> (Outcome, u128) {
        let before = *self.store.data();
        let r = self.main.call(&mut self.store, (a, b));
        let cost = *self.store.data() - before;
        (
            match r {
                Ok(v) => Ok(v),
                Err(e) => Err(match e.as_trap_code() {
                    Some(c) => format!("{c:?}"),
                    None => format!("other:{e}"),
                }),
            },
            cost,
        )
    }
}

struct Eng {
    inst: radix_engine::vm::wasm::WasmiInstance,
    rt: Box<dyn radix_engine::vm::wasm::WasmRuntime>,
    st: crate::mock::Shared,
}

impl Eng {
    fn new(engine: &WasmiEngine, hash: CodeHash, code: &[u8]) -> Eng {
        let inst = engine.instantiate(hash, code);
        let (rt, st) = new_runtime();
        Eng { inst, rt, st }
    }
    fn run(&mut self, a: i64, b: i64) -> (Outcome, u128) {
        let before = self.st.borrow().gas_total;
        let r = self.inst.invoke_export("Test_f", vec![Buffer(a as u64), Buffer(b as u64)], &mut self.rt);
        let cost = self.st.borrow().gas_total - before;
        (
            match r {
                Ok(bytes) if bytes.len() == 8 => Ok(i64::from_le_bytes(bytes.try_into().unwrap())),
                Ok(bytes) => Err(format!("other:returned {} bytes", bytes.len())),
                Err(e) => {
                    let s = format!("{e:?}");
                    let k = ["UnreachableCodeReached", "IntegerDivisionByZero", "IntegerOverflow", "MemoryOutOfBounds", "StackOverflow"].iter().find(|k| s.contains(*k));
                    Err(match k {
                        Some(k) => k.to_string(),
                        None => format!("other:{}", mc_core::truncate(&s, 160)),
                    })
                }
            },
            cost,
        )
    }
}

struct Worker {
    raw_engine: wasmi::Engine,
    rx_engine: WasmiEngine,
    validator: ScryptoV1WasmValidator,
    hash_ctr: u64,
    wid: u64,
}

thread_local! {
    static WORKER: RefCell<Option<Worker>> = const { RefCell::new(None) };
}
static WORKER_IDS: AtomicU64 = AtomicU64::new(1);
static REJECTED_EXAMPLES: std::sync::Mutex<Vec<String>> = std::sync::Mutex::new(Vec::new());

struct Stats {
    t_compile: AtomicU64,
    t_validate: AtomicU64,
    t_inst: AtomicU64,
    t_runs: AtomicU64,
    nontrivial: AtomicU64,
    runs: AtomicU64,
    cost_groups: AtomicU64,
    multi_member_groups: AtomicU64,
}

fn check_program(p: &Node, w: &mut Worker, l: &mut Local, st: &Stats) {
    l.eval();
    let t0 = std::time::Instant::now();
    let code = compile(p);
    let case = |extra: serde_json::Value| json!({"program": show(p), "nodes": p.size, "wasm_hex": mc_core::hex(&code), "detail": extra});
    if let Err(e) = crate::reparse::validates(&code, crate::reparse::strict_features()) {
        mc_core::machinery_error(&format!("C46 compiler produced an invalid module for {}: {e}", show(p)));
    }
    st.t_compile.fetch_add(t0.elapsed().as_micros() as u64, Ordering::Relaxed);
    let t0 = std::time::Instant::now();
    // instrument through the real validator (no blueprint list: the export constraints are not this property)
    let none: Vec<BlueprintDefinitionInit> = vec![];
    let instrumented = match catch(|| w.validator.validate(&code, none.iter())) {
        Err(pn) => {
            crate::util::violation(l, "validate-panic", format!("validate panicked: {pn}"), case(json!(null)));
            return;
        }
        Ok(Err(e)) => {
            // an accepted module is the property's domain; a rejected one is outside it
            l.info(&format!("program rejected by validate: {}", mc_core::truncate(&format!("{e:?}"), 60)));
            l.class("rejected by validate (outside the domain)");
            let mut ex = REJECTED_EXAMPLES.lock().unwrap();
            // keep the 4 smallest by text: the same ones whatever the thread schedule
            ex.push(format!("{} => {:?} (wasm {})", show(p), e, mc_core::hex(&code)));
            ex.sort();
            ex.truncate(4);
            return;
        }
        Ok(Ok((c, _))) => c,
    };
    st.t_validate.fetch_add(t0.elapsed().as_micros() as u64, Ordering::Relaxed);
    let t0 = std::time::Instant::now();
    let m_u = match wasmi::Module::new(&w.raw_engine, &code[..]) {
        Ok(m) => m,
        Err(e) => mc_core::machinery_error(&format!("wasmi rejects the uninstrumented module of {}: {e}", show(p))),
    };
    let m_i = match wasmi::Module::new(&w.raw_engine, &instrumented[..]) {
        Ok(m) => m,
        Err(e) => {
            crate::util::violation(l, "instrumented-module-invalid", format!("wasmi (validating) rejects the instrumented module: {e}"), case(json!(null)));
            return;
        }
    };
    w.hash_ctr += 1;
    let mut h = [0u8; 32];
    h[..8].copy_from_slice(&w.hash_ctr.to_le_bytes());
    h[8..16].copy_from_slice(&w.wid.to_le_bytes());
    let hash = CodeHash(Hash(h));

    let mk_raw = |m: &wasmi::Module| raw_instance(&w.raw_engine, m).unwrap_or_else(|e| mc_core::machinery_error(&format!("raw wasmi instantiation failed: {e}")));
    let mut u = mk_raw(&m_u);
    let mut i1 = mk_raw(&m_i);
    let mut i2 = mk_raw(&m_i);
    let mut cold = Eng::new(&w.rx_engine, hash, &instrumented);
    let mut warm = Eng::new(&w.rx_engine, hash, &instrumented);
    let mut mem = vec![0u8; 65536];
    st.t_inst.fetch_add(t0.elapsed().as_micros() as u64, Ordering::Relaxed);
    let t0 = std::time::Instant::now();
    // cost per trace: (trace) -> (cost_I, cost_E, first args)
    let mut by_trace: BTreeMap<Vec<u8>, (u128, u128, (i64, i64), u32)> = BTreeMap::new();
    let mut outcomes: std::collections::BTreeSet<String> = Default::default();
    let mut bad = false;
    let mut traps_since_fresh = 0u32;
    'args: for a in ARGS {
        for b in ARGS {
            st.runs.fetch_add(1, Ordering::Relaxed);
            let (r, trace) = interpret(p, a, b, &mut mem);
            let want: Outcome = r.map_err(|t| trap_name(t).to_string());
            let (ru, _) = u.run(a, b);
            let (ri1, c1) = i1.run(a, b);
            let (ri2, c2) = i2.run(a, b);
            let (rc, cc) = cold.run(a, b);
            let (rw, cw) = warm.run(a, b);
            let d = |x: &Outcome| match x {
                Ok(v) => format!("value {v}"),
                Err(e) => format!("trap {e}"),
            };
            let detail = || json!({"args": [a, b], "reference": d(&want), "uninstrumented": d(&ru), "instrumented": d(&ri1), "engine_cold": d(&rc), "engine_warm": d(&rw), "cost_instrumented": [c1.to_string(), c2.to_string()], "cost_engine": [cc.to_string(), cw.to_string()]});
            if ru != want {
                // the uninstrumented module disagreeing with the reference is a harness (compiler/interpreter) defect
                mc_core::machinery_error(&format!("C46 reference interpreter and uninstrumented wasmi disagree on {} args ({a},{b}): {} vs {}", show(p), d(&want), d(&ru)));
            }
            if ri1 != want || ri2 != want {
                crate::util::violation(l, "result-differs:instrumented", format!("instrumented code gives {} / {}, original gives {}", d(&ri1), d(&ri2), d(&want)), case(detail()));
                bad = true;
                break 'args;
            }
            if rc != want || rw != want {
                crate::util::violation(l, "result-differs:engine", format!("instrumented code through the engine gives {} (cold) / {} (warm), original gives {}", d(&rc), d(&rw), d(&want)), case(detail()));
                bad = true;
                break 'args;
            }
            if c1 != c2 {
                crate::util::violation(l, "cost-differs:repeat", format!("two fresh instances charged {c1} and {c2}"), case(detail()));
                bad = true;
                break 'args;
            }
            if cc != cw {
                crate::util::violation(l, "cost-differs:cold-warm", format!("cold engine instance charged {cc}, cache-warm instance {cw}"), case(detail()));
                bad = true;
                break 'args;
            }
            if c1 == 0 || cc == 0 {
                crate::util::violation(l, "cost-zero", "an execution was charged nothing".to_string(), case(detail()));
                bad = true;
                break 'args;
            }
            match by_trace.get_mut(&trace) {
                None => {
                    by_trace.insert(trace, (c1, cc, (a, b), 1));
                }
                Some((k1, kc, first, n)) => {
                    *n += 1;
                    if *k1 != c1 || *kc != cc {
                        crate::util::violation(l, 
                            "cost-differs:same-path",
                            format!("args {:?} and ({a},{b}) take the same code path (reference trace) but were charged {}/{} vs {}/{}", first, k1, kc, c1, cc),
                            case(detail()),
                        );
                        bad = true;
                        break 'args;
                    }
                }
            }
            outcomes.insert(d(&want));
            if want.is_err() {
                traps_since_fresh += 1;
            }
            if want.is_err() && traps_since_fresh >= 8 {
                // A trap leaves the stack-height counter of the instrumented code raised (by at most ~30 units per
                // trap here, against a limit of 1024; the engine itself never reuses an instance after a trap).
                // Memory effects before a trap persist identically in the reference. Every 8th trap all
                // instances and the reference memory are replaced by fresh ones.
                traps_since_fresh = 0;
                u = mk_raw(&m_u);
                i1 = mk_raw(&m_i);
                i2 = mk_raw(&m_i);
                cold = Eng::new(&w.rx_engine, hash, &instrumented);
                warm = Eng::new(&w.rx_engine, hash, &instrumented);
                mem.iter_mut().for_each(|x| *x = 0);
            }
            match &want {
                Err(t) => l.class(&format!("trap {t}")),
                Ok(_) => l.class("value"),
            }
        }
    }
    st.t_runs.fetch_add(t0.elapsed().as_micros() as u64, Ordering::Relaxed);
    if bad {
        return;
    }
    st.cost_groups.fetch_add(by_trace.len() as u64, Ordering::Relaxed);
    st.multi_member_groups.fetch_add(by_trace.values().filter(|v| v.3 > 1).count() as u64, Ordering::Relaxed);
    if outcomes.len() > 1 || by_trace.len() > 1 {
        st.nontrivial.fetch_add(1, Ordering::Relaxed);
    }
    l.sample(|| json!({"program": show(p), "distinct_outcomes": outcomes.len(), "distinct_paths": by_trace.len(), "instrumented_bytes": instrumented.len()}));
}

pub fn run(ctx: Ctx) -> ! {
    let max = match std::env::var("MC_C46_NODES").ok().and_then(|s| s.parse::<usize>().ok()) {
        Some(n) => n,
        None => ctx.pick(4, 5),
    };
    let sets = enumerate(max);
    if std::env::var("MC_C46_COUNT").is_ok() {
        for n in 1..=max {
            println!("size {n}: i32 {} i64 {}", sets.s32[n].len(), sets.s64[n].len());
        }
        std::process::exit(0);
    }
    let mut programs: Vec<N> = vec![];
    let mut per_size = vec![];
    for n in 1..=max {
        per_size.push(sets.s64[n].len());
        programs.extend(sets.s64[n].iter().cloned());
    }
    let st = Stats { t_compile: AtomicU64::new(0), t_validate: AtomicU64::new(0), t_inst: AtomicU64::new(0), t_runs: AtomicU64::new(0), nontrivial: AtomicU64::new(0), runs: AtomicU64::new(0), cost_groups: AtomicU64::new(0), multi_member_groups: AtomicU64::new(0) };
    let with_worker = |f: &mut dyn FnMut(&mut Worker)| {
        WORKER.with(|w| {
            let mut w = w.borrow_mut();
            if w.is_none() {
                let mut cfg = wasmi::Config::default();
                cfg.compilation_mode(wasmi::CompilationMode::Eager);
                *w = Some(Worker {
                    raw_engine: wasmi::Engine::new(&cfg),
                    rx_engine: WasmiEngine::default(),
                    validator: ScryptoV1WasmValidator::new(ScryptoVmVersion::latest()),
                    hash_ctr: 0,
                    wid: WORKER_IDS.fetch_add(1, Ordering::Relaxed),
                });
            }
            f(w.as_mut().unwrap())
        })
    };
    if let Some(case) = ctx.read_replay_case() {
        let want = case["program"].as_str().unwrap_or("").to_string();
        let mut l = Local::new();
        match programs.iter().find(|p| show(p) == want) {
            Some(p) => with_worker(&mut |w| check_program(p, w, &mut l, &st)),
            None => mc_core::machinery_error("replay: program text not found in the enumeration of this tier (try MC_C46_NODES)"),
        }
        for v in &l.violations {
            println!("REPLAY: {} :: {}", v.key, v.what);
        }
        if l.violations.is_empty() {
            println!("REPLAY: no violation reproduced; classes {:?}", l.classes);
        }
        ctx.merge(l);
        ctx.finish(Level::Exploration, "replay", 0, false, Map::new(), &[]);
    }
    let block = (programs.len() as u64 / (ctx.threads as u64 * 64)).clamp(1, 512);
    par_range(&ctx, programs.len() as u64, block, |i, l| {
        let p = &programs[i as usize];
        with_worker(&mut |w| check_program(p, w, l, &st));
    });
    let mut cov = Map::new();
    cov.insert("programs".into(), json!(programs.len()));
    cov.insert("max_nodes".into(), json!(max));
    cov.insert("programs_per_size".into(), json!(per_size));
    cov.insert("argument_vectors_per_program".into(), json!(16));
    cov.insert("executions_compared".into(), json!(st.runs.load(Ordering::Relaxed)));
    cov.insert("distinct_code_paths".into(), json!(st.cost_groups.load(Ordering::Relaxed)));
    cov.insert("code_paths_taken_by_several_argument_vectors".into(), json!(st.multi_member_groups.load(Ordering::Relaxed)));
    cov.insert("cpu_seconds".into(), json!({"compile+check": st.t_compile.load(Ordering::Relaxed) as f64 / 1e6, "validate(instrument)": st.t_validate.load(Ordering::Relaxed) as f64 / 1e6, "instantiate": st.t_inst.load(Ordering::Relaxed) as f64 / 1e6, "runs": st.t_runs.load(Ordering::Relaxed) as f64 / 1e6}));
    {
        let mut ex = REJECTED_EXAMPLES.lock().unwrap().clone();
        ex.sort();
        for e in ex {
            ctx.note(format!("valid program rejected by validate (outside the property's domain, informational): {e}"));
        }
    }
    let nontrivial = st.nontrivial.load(Ordering::Relaxed);
    ctx.finish(
        Level::Exploration,
        "programs whose 16 argument vectors produce at least two different outcomes or code paths",
        nontrivial,
        true,
        cov,
        &[
            "wasmi 0.39.1 executing the uninstrumented module is trusted only after it agreed with the independent reference interpreter on every run (disagreement = harness error)",
            "instances are reused across the argument vectors of one program (memory carried over identically in the reference, also across traps) and replaced after every 8th trap, because a trap leaves the injected stack-height counter raised (<= ~30 units per trap against a limit of 1024)",
            "stack-limit traps cannot occur legitimately: call depth <= 3 with small frames against a limit of 1024",
            "validate is called without blueprint definitions (export constraints are C45's subject)",
        ],
    )
}
