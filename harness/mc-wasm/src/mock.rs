//! Harness mock of the engine's `WasmRuntime`: records exactly what every host call delivers
//! (byte vectors and scalar arguments, in parameter order) and returns canned values.
//! Shared by C47 (bounds of host memory access) and C46 (metering host function).
use radix_engine::errors::InvokeError;
use radix_engine::vm::wasm::*;
use radix_engine_interface::api::actor_api::EventFlags;
use radix_engine_interface::api::ActorRefHandle;
use radix_engine_interface::types::{Buffer, BufferId};
use std::cell::RefCell;
use std::collections::BTreeMap;
use std::rc::Rc;

#[derive(Clone, Debug, PartialEq, Eq)]
pub struct Call {
    pub method: &'static str,
    pub bufs: Vec<Vec<u8>>,
    pub scalars: Vec<u64>,
}

#[derive(Default)]
pub struct MockState {
    pub calls: Vec<Call>,
    /// canned buffers served by `buffer_consume` (unknown id => BufferNotFound)
    pub canned: BTreeMap<u32, Vec<u8>>,
    /// units delivered through the injected `gas` import, in delivery order
    pub gas_total: u128,
    pub gas_calls: u64,
    pub gas_zero_calls: u64,
    /// when Some(limit): the metering call fails once the total exceeds the limit
    pub gas_limit: Option<u128>,
}

pub type Shared = Rc<RefCell<MockState>>;

pub struct MockRuntime {
    pub st: Shared,
}

pub fn new_runtime<'a>() -> (Box<dyn WasmRuntime + 'a>, Shared) {
    let st: Shared = Rc::new(RefCell::new(MockState::default()));
    (Box::new(MockRuntime { st: st.clone() }), st)
}

type R<T> = Result<T, InvokeError<WasmRuntimeError>>;

impl MockRuntime {
    fn rec(&mut self, method: &'static str, bufs: Vec<Vec<u8>>, scalars: Vec<u64>) {
        self.st.borrow_mut().calls.push(Call { method, bufs, scalars });
    }
    fn buf(&mut self, method: &'static str, bufs: Vec<Vec<u8>>, scalars: Vec<u64>) -> R<Buffer> {
        self.rec(method, bufs, scalars);
        Ok(Buffer::new(7, 3))
    }
    fn num(&mut self, method: &'static str, bufs: Vec<Vec<u8>>, scalars: Vec<u64>) -> R<u32> {
        self.rec(method, bufs, scalars);
        Ok(0)
    }
    fn unit(&mut self, method: &'static str, bufs: Vec<Vec<u8>>, scalars: Vec<u64>) -> R<()> {
        self.rec(method, bufs, scalars);
        Ok(())
    }
}

impl WasmRuntime for MockRuntime {
    fn allocate_buffer(&mut self, buffer: Vec<u8>) -> R<Buffer> {
        self.buf("allocate_buffer", vec![buffer], vec![])
    }
    fn buffer_consume(&mut self, buffer_id: BufferId) -> R<Vec<u8>> {
        self.rec("buffer_consume", vec![], vec![buffer_id as u64]);
        match self.st.borrow().canned.get(&buffer_id) {
            Some(v) => Ok(v.clone()),
            None => Err(InvokeError::SelfError(WasmRuntimeError::BufferNotFound(buffer_id))),
        }
    }
    fn object_call(&mut self, receiver: Vec<u8>, ident: Vec<u8>, args: Vec<u8>) -> R<Buffer> {
        self.buf("object_call", vec![receiver, ident, args], vec![])
    }
    fn object_call_module(&mut self, receiver: Vec<u8>, module_id: u32, ident: Vec<u8>, args: Vec<u8>) -> R<Buffer> {
        self.buf("object_call_module", vec![receiver, ident, args], vec![module_id as u64])
    }
    fn object_call_direct(&mut self, receiver: Vec<u8>, ident: Vec<u8>, args: Vec<u8>) -> R<Buffer> {
        self.buf("object_call_direct", vec![receiver, ident, args], vec![])
    }
    fn blueprint_call(&mut self, package_address: Vec<u8>, blueprint_name: Vec<u8>, ident: Vec<u8>, args: Vec<u8>) -> R<Buffer> {
        self.buf("blueprint_call", vec![package_address, blueprint_name, ident, args], vec![])
    }
    fn object_new(&mut self, blueprint_name: Vec<u8>, object_states: Vec<u8>) -> R<Buffer> {
        self.buf("object_new", vec![blueprint_name, object_states], vec![])
    }
    fn address_allocate(&mut self, package_address: Vec<u8>, blueprint_name: Vec<u8>) -> R<Buffer> {
        self.buf("address_allocate", vec![package_address, blueprint_name], vec![])
    }
    fn address_get_reservation_address(&mut self, node_id: Vec<u8>) -> R<Buffer> {
        self.buf("address_get_reservation_address", vec![node_id], vec![])
    }
    fn globalize_object(&mut self, node_id: Vec<u8>, modules: Vec<u8>, address: Vec<u8>) -> R<Buffer> {
        self.buf("globalize_object", vec![node_id, modules, address], vec![])
    }
    fn key_value_store_new(&mut self, schema: Vec<u8>) -> R<Buffer> {
        self.buf("key_value_store_new", vec![schema], vec![])
    }
    fn key_value_store_open_entry(&mut self, node_id: Vec<u8>, key: Vec<u8>, flags: u32) -> R<SubstateHandleT> {
        self.num("key_value_store_open_entry", vec![node_id, key], vec![flags as u64])
    }
    fn key_value_entry_get(&mut self, handle: u32) -> R<Buffer> {
        self.buf("key_value_entry_get", vec![], vec![handle as u64])
    }
    fn key_value_entry_set(&mut self, handle: u32, data: Vec<u8>) -> R<()> {
        self.unit("key_value_entry_set", vec![data], vec![handle as u64])
    }
    fn key_value_entry_remove(&mut self, handle: u32) -> R<Buffer> {
        self.buf("key_value_entry_remove", vec![], vec![handle as u64])
    }
    fn key_value_entry_close(&mut self, handle: u32) -> R<()> {
        self.unit("key_value_entry_close", vec![], vec![handle as u64])
    }
    fn key_value_store_remove_entry(&mut self, node_id: Vec<u8>, key: Vec<u8>) -> R<Buffer> {
        self.buf("key_value_store_remove_entry", vec![node_id, key], vec![])
    }
    fn instance_of(&mut self, object_id: Vec<u8>, package_address: Vec<u8>, blueprint_name: Vec<u8>) -> R<u32> {
        self.num("instance_of", vec![object_id, package_address, blueprint_name], vec![])
    }
    fn blueprint_id(&mut self, object_id: Vec<u8>) -> R<Buffer> {
        self.buf("blueprint_id", vec![object_id], vec![])
    }
    fn get_outer_object(&mut self, component_id: Vec<u8>) -> R<Buffer> {
        self.buf("get_outer_object", vec![component_id], vec![])
    }
    fn actor_open_field(&mut self, object_handle: u32, field: u8, flags: u32) -> R<SubstateHandleT> {
        self.num("actor_open_field", vec![], vec![object_handle as u64, field as u64, flags as u64])
    }
    fn field_entry_read(&mut self, handle: SubstateHandleT) -> R<Buffer> {
        self.buf("field_entry_read", vec![], vec![handle as u64])
    }
    fn field_entry_write(&mut self, handle: SubstateHandleT, data: Vec<u8>) -> R<()> {
        self.unit("field_entry_write", vec![data], vec![handle as u64])
    }
    fn field_entry_close(&mut self, handle: SubstateHandleT) -> R<()> {
        self.unit("field_entry_close", vec![], vec![handle as u64])
    }
    fn actor_get_node_id(&mut self, actor_ref_handle: ActorRefHandle) -> R<Buffer> {
        self.buf("actor_get_node_id", vec![], vec![actor_ref_handle as u64])
    }
    fn actor_get_package_address(&mut self) -> R<Buffer> {
        self.buf("actor_get_package_address", vec![], vec![])
    }
    fn actor_get_blueprint_name(&mut self) -> R<Buffer> {
        self.buf("actor_get_blueprint_name", vec![], vec![])
    }
    fn consume_wasm_execution_units(&mut self, n: u32) -> R<()> {
        let mut st = self.st.borrow_mut();
        st.gas_total += n as u128;
        st.gas_calls += 1;
        if n == 0 {
            st.gas_zero_calls += 1;
        }
        if let Some(lim) = st.gas_limit {
            if st.gas_total > lim {
                return Err(InvokeError::SelfError(WasmRuntimeError::NotImplemented));
            }
        }
        Ok(())
    }
    fn costing_get_execution_cost_unit_limit(&mut self) -> R<u32> {
        self.num("costing_get_execution_cost_unit_limit", vec![], vec![])
    }
    fn costing_get_execution_cost_unit_price(&mut self) -> R<Buffer> {
        self.buf("costing_get_execution_cost_unit_price", vec![], vec![])
    }
    fn costing_get_finalization_cost_unit_limit(&mut self) -> R<u32> {
        self.num("costing_get_finalization_cost_unit_limit", vec![], vec![])
    }
    fn costing_get_finalization_cost_unit_price(&mut self) -> R<Buffer> {
        self.buf("costing_get_finalization_cost_unit_price", vec![], vec![])
    }
    fn costing_get_usd_price(&mut self) -> R<Buffer> {
        self.buf("costing_get_usd_price", vec![], vec![])
    }
    fn costing_get_tip_percentage(&mut self) -> R<u32> {
        self.num("costing_get_tip_percentage", vec![], vec![])
    }
    fn costing_get_fee_balance(&mut self) -> R<Buffer> {
        self.buf("costing_get_fee_balance", vec![], vec![])
    }
    fn actor_emit_event(&mut self, event_name: Vec<u8>, event_payload: Vec<u8>, event_flags: EventFlags) -> R<()> {
        self.unit("actor_emit_event", vec![event_name, event_payload], vec![event_flags.bits() as u64])
    }
    fn sys_log(&mut self, level: Vec<u8>, message: Vec<u8>) -> R<()> {
        self.unit("sys_log", vec![level, message], vec![])
    }
    fn sys_bech32_encode_address(&mut self, address: Vec<u8>) -> R<Buffer> {
        self.buf("sys_bech32_encode_address", vec![address], vec![])
    }
    fn sys_get_transaction_hash(&mut self) -> R<Buffer> {
        self.buf("sys_get_transaction_hash", vec![], vec![])
    }
    fn sys_generate_ruid(&mut self) -> R<Buffer> {
        self.buf("sys_generate_ruid", vec![], vec![])
    }
    fn sys_panic(&mut self, message: Vec<u8>) -> R<()> {
        self.unit("sys_panic", vec![message], vec![])
    }
    fn crypto_utils_bls12381_v1_verify(&mut self, message: Vec<u8>, public_key: Vec<u8>, signature: Vec<u8>) -> R<u32> {
        self.num("crypto_utils_bls12381_v1_verify", vec![message, public_key, signature], vec![])
    }
    fn crypto_utils_bls12381_v1_aggregate_verify(&mut self, pub_keys_and_msgs: Vec<u8>, signatures: Vec<u8>) -> R<u32> {
        self.num("crypto_utils_bls12381_v1_aggregate_verify", vec![pub_keys_and_msgs, signatures], vec![])
    }
    fn crypto_utils_bls12381_v1_fast_aggregate_verify(&mut self, message: Vec<u8>, public_keys: Vec<u8>, signatures: Vec<u8>) -> R<u32> {
        self.num("crypto_utils_bls12381_v1_fast_aggregate_verify", vec![message, public_keys, signatures], vec![])
    }
    fn crypto_utils_bls12381_g2_signature_aggregate(&mut self, signatures: Vec<u8>) -> R<Buffer> {
        self.buf("crypto_utils_bls12381_g2_signature_aggregate", vec![signatures], vec![])
    }
    fn crypto_utils_keccak256_hash(&mut self, data: Vec<u8>) -> R<Buffer> {
        self.buf("crypto_utils_keccak256_hash", vec![data], vec![])
    }
    fn crypto_utils_blake2b_256_hash(&mut self, data: Vec<u8>) -> R<Buffer> {
        self.buf("crypto_utils_blake2b_256_hash", vec![data], vec![])
    }
    fn crypto_utils_ed25519_verify(&mut self, message: Vec<u8>, public_key: Vec<u8>, signature: Vec<u8>) -> R<u32> {
        self.num("crypto_utils_ed25519_verify", vec![message, public_key, signature], vec![])
    }
    fn crypto_utils_secp256k1_ecdsa_verify(&mut self, message: Vec<u8>, public_key: Vec<u8>, signature: Vec<u8>) -> R<u32> {
        self.num("crypto_utils_secp256k1_ecdsa_verify", vec![message, public_key, signature], vec![])
    }
    fn crypto_utils_secp256k1_ecdsa_verify_and_key_recover(&mut self, message: Vec<u8>, signature: Vec<u8>) -> R<Buffer> {
        self.buf("crypto_utils_secp256k1_ecdsa_verify_and_key_recover", vec![message, signature], vec![])
    }
    fn crypto_utils_secp256k1_ecdsa_verify_and_key_recover_uncompressed(&mut self, message: Vec<u8>, signature: Vec<u8>) -> R<Buffer> {
        self.buf("crypto_utils_secp256k1_ecdsa_verify_and_key_recover_uncompressed", vec![message, signature], vec![])
    }
}

/// `SubstateHandle` of the engine is a plain u32.
pub type SubstateHandleT = u32;
