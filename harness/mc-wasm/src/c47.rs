//! C47 — host memory access from WASM is always bounds-checked.
//!
//! Direct seam: the real `WasmiEngine` + `WasmiInstance::invoke_export` with the harness mock
//! `WasmRuntime` (mock.rs) that records exactly the byte vectors every host call delivers.
//! A generated WAT stub module imports every host function that takes a buffer and exports one
//! forwarding function per import; linear memory is filled with a position dependent pattern.
//!
//! Enumerated exhaustively (no sampling):
//!  * every buffer-taking host import × every (ptr,len) parameter pair of it × (ptr,len) ∈ G×G, the other
//!    pairs valid; G = {0,1,4,size−4,size−1,size,size+1,2^31,2^32−1} (thorough: 21 values);
//!  * for every host import with ≥ 2 pairs: the full product of 5 boundary ranges over all its pairs;
//!  * the write paths: `buffer_consume` (destination pointer × length of the host-side buffer), the test-only
//!    `test_host_write_memory`, with the memory dumped and diffed after each call;
//!  * the return slice of `invoke_export`;
//!  * all of it again after `memory.grow` (and for a module that starts with 2 pages).
//!
//! Oracle (written from the statement): with size = current byte length of the linear memory,
//!   ptr+len ≤ size (computed in u64) ⇒ the call succeeds and the mock received exactly
//!   pattern[ptr..ptr+len] for every pair (write: exactly [ptr,ptr+len) changed);
//!   otherwise ⇒ the export fails with an error, the mock's method for that import was never entered and the
//!   memory is unchanged; never a panic.
//!   Empty ranges that start beyond the end (len = 0, ptr > size) are statement-silent: either outcome is
//!   accepted and counted as informational.
use crate::mock::{new_runtime, Call, Shared};
use mc_core::{catch, par_for, Ctx, Level, Local};
use radix_common::crypto::Hash;
use radix_engine::errors::InvokeError;
use radix_engine::vm::wasm::*;
use radix_engine_interface::blueprints::package::CodeHash;
use radix_engine_interface::types::Buffer;
use serde_json::{json, Map};
use std::collections::BTreeSet;
use std::sync::atomic::{AtomicU64, Ordering};

const PAGE: u64 = 65536;

/// (import name, parameter kinds: P ptr, L len, S scalar; result: v none / i i32 / l i64; mock method)
pub const HOST_FNS: &[(&str, &str, char, &str)] = &[
    ("object_call", "PLPLPL", 'l', "object_call"),
    ("object_call_module", "PLSPLPL", 'l', "object_call_module"),
    ("object_call_direct", "PLPLPL", 'l', "object_call_direct"),
    ("blueprint_call", "PLPLPLPL", 'l', "blueprint_call"),
    ("object_new", "PLPL", 'l', "object_new"),
    ("kv_store_new", "PL", 'l', "key_value_store_new"),
    ("address_allocate", "PLPL", 'l', "address_allocate"),
    ("address_get_reservation_address", "PL", 'l', "address_get_reservation_address"),
    ("object_globalize", "PLPLPL", 'l', "globalize_object"),
    ("object_instance_of", "PLPLPL", 'i', "instance_of"),
    ("object_get_blueprint_id", "PL", 'l', "blueprint_id"),
    ("object_get_outer_object", "PL", 'l', "get_outer_object"),
    ("kv_store_open_entry", "PLPLS", 'i', "key_value_store_open_entry"),
    ("kv_entry_write", "SPL", 'v', "key_value_entry_set"),
    ("kv_store_remove_entry", "PLPL", 'l', "key_value_store_remove_entry"),
    ("field_entry_write", "SPL", 'v', "field_entry_write"),
    ("actor_emit_event", "PLPLS", 'v', "actor_emit_event"),
    ("sys_log", "PLPL", 'v', "sys_log"),
    ("sys_bech32_encode_address", "PL", 'l', "sys_bech32_encode_address"),
    ("sys_panic", "PL", 'v', "sys_panic"),
    ("crypto_utils_bls12381_v1_verify", "PLPLPL", 'i', "crypto_utils_bls12381_v1_verify"),
    ("crypto_utils_bls12381_v1_aggregate_verify", "PLPL", 'i', "crypto_utils_bls12381_v1_aggregate_verify"),
    ("crypto_utils_bls12381_v1_fast_aggregate_verify", "PLPLPL", 'i', "crypto_utils_bls12381_v1_fast_aggregate_verify"),
    ("crypto_utils_bls12381_g2_signature_aggregate", "PL", 'l', "crypto_utils_bls12381_g2_signature_aggregate"),
    ("crypto_utils_keccak256_hash", "PL", 'l', "crypto_utils_keccak256_hash"),
    ("crypto_utils_blake2b_256_hash", "PL", 'l', "crypto_utils_blake2b_256_hash"),
    ("crypto_utils_ed25519_verify", "PLPLPL", 'i', "crypto_utils_ed25519_verify"),
    ("crypto_utils_secp256k1_ecdsa_verify", "PLPLPL", 'i', "crypto_utils_secp256k1_ecdsa_verify"),
    ("crypto_utils_secp256k1_ecdsa_verify_and_key_recover", "PLPL", 'l', "crypto_utils_secp256k1_ecdsa_verify_and_key_recover"),
    ("crypto_utils_secp256k1_ecdsa_verify_and_key_recover_uncompressed", "PLPL", 'l', "crypto_utils_secp256k1_ecdsa_verify_and_key_recover_uncompressed"),
    // test-only host function of the engine (feature radix_engine_tests): reads without calling the runtime
    ("test_host_read_memory", "PL", 'v', ""),
];

#[inline]
fn pat(i: u32) -> u8 {
    (i.wrapping_mul(131).wrapping_add((i >> 8).wrapping_mul(17)).wrapping_add(7)) as u8
}

fn stub_wat(initial_pages: u32) -> String {
    let mut s = String::from("(module\n");
    for (name, kinds, ret, _) in HOST_FNS {
        let params: String = kinds.chars().map(|_| " i32").collect();
        let res = match ret {
            'i' => " (result i32)",
            'l' => " (result i64)",
            _ => "",
        };
        s += &format!("  (import \"env\" \"{name}\" (func ${name} (param{params}){res}))\n");
    }
    s += "  (import \"env\" \"buffer_consume\" (func $buffer_consume (param i32 i32)))\n";
    s += "  (import \"env\" \"test_host_write_memory\" (func $test_host_write_memory (param i32 i32)))\n";
    s += &format!("  (memory $m {initial_pages})\n  (export \"memory\" (memory $m))\n");
    for (name, kinds, ret, _) in HOST_FNS {
        let n = kinds.len();
        let params: String = (0..n).map(|_| " i64").collect();
        s += &format!("  (func (export \"T_{name}\") (param{params}) (result i64)\n");
        for i in 0..n {
            s += &format!("    (i32.wrap_i64 (local.get {i}))\n");
        }
        s += &format!("    (call ${name})\n");
        if *ret != 'v' {
            s += "    drop\n";
        }
        s += "    (i64.const 0))\n";
    }
    s += r#"
  (func (export "T_buffer_consume") (param i64 i64) (result i64)
    (call $buffer_consume (i32.wrap_i64 (local.get 0)) (i32.wrap_i64 (local.get 1)))
    (i64.const 0))
  (func (export "T_test_host_write_memory") (param i64 i64) (result i64)
    (call $test_host_write_memory (i32.wrap_i64 (local.get 0)) (i32.wrap_i64 (local.get 1)))
    (i64.const 0))
  ;; return slice (ptr,len) as given
  (func (export "T_ret") (param i64 i64) (result i64)
    (i64.or (i64.shl (i64.and (local.get 0) (i64.const 0xffffffff)) (i64.const 32)) (i64.and (local.get 1) (i64.const 0xffffffff))))
  ;; memory.grow by n pages; returns the slice (0, previous size in pages or 0xffffffff)
  (func (export "T_grow") (param i64) (result i64)
    (drop (memory.grow (i32.wrap_i64 (local.get 0))))
    (i64.const 0))
  ;; slice (0, memory.size): the length of the returned vector is the size in pages
  (func (export "T_pages") (result i64)
    (i64.extend_i32_u (memory.size)))
  ;; fill the whole memory with the position dependent pattern
  (func (export "T_fill") (result i64) (local $i i32) (local $end i32)
    (local.set $end (i32.mul (memory.size) (i32.const 65536)))
    (block $done
      (loop $l
        (br_if $done (i32.ge_u (local.get $i) (local.get $end)))
        (i32.store8 (local.get $i)
          (i32.add (i32.add (i32.mul (local.get $i) (i32.const 131))
                            (i32.mul (i32.shr_u (local.get $i) (i32.const 8)) (i32.const 17)))
                   (i32.const 7)))
        (local.set $i (i32.add (local.get $i) (i32.const 1)))
        (br $l)))
    (i64.const 0))
)
"#;
    s
}

pub fn compile_checked(wat_text: &str) -> Vec<u8> {
    let code = wat::parse_str(wat_text).unwrap_or_else(|e| mc_core::machinery_error(&format!("harness WAT does not parse: {e}")));
    // the engine instantiates without validation (Module::new_unchecked): validate independently first
    let mut v = wasmparser::Validator::new_with_features(wasmparser::WasmFeatures::WASM2);
    if let Err(e) = v.validate_all(&code) {
        mc_core::machinery_error(&format!("harness WAT is not a valid module: {e}"));
    }
    code
}

#[derive(Clone, Debug)]
struct MemCfg {
    initial: u32,
    grow: u32,
}

#[derive(Clone, Debug)]
enum Work {
    /// single-pair sweeps + all-pairs boundary product for one host import
    Reads(usize),
    BufferConsume,
    TestWrite,
    RetSlice,
}

struct Inst {
    inst: WasmiInstance,
    rt: Box<dyn WasmRuntime>,
    st: Shared,
    size: u64,
    pattern: Vec<u8>,
}

static HASH_CTR: AtomicU64 = AtomicU64::new(1);

impl Inst {
    fn new(code: &[u8], cfg: &MemCfg) -> Inst {
        let engine = WasmiEngine::default();
        let mut h = [0u8; 32];
        h[..8].copy_from_slice(&HASH_CTR.fetch_add(1, Ordering::Relaxed).to_le_bytes());
        let inst = engine.instantiate(CodeHash(Hash(h)), code);
        let (rt, st) = new_runtime();
        let mut me = Inst { inst, rt, st, size: 0, pattern: vec![] };
        if cfg.grow > 0 {
            me.call("T_grow", &[cfg.grow as u64]).unwrap_or_else(|e| mc_core::machinery_error(&format!("grow failed: {e}")));
        }
        let pages = me.call("T_pages", &[]).unwrap_or_else(|e| mc_core::machinery_error(&format!("pages failed: {e}"))).len() as u64;
        if pages != (cfg.initial + cfg.grow) as u64 {
            mc_core::machinery_error(&format!("stub memory has {pages} pages, expected {}", cfg.initial + cfg.grow));
        }
        me.size = pages * PAGE;
        me.pattern = (0..me.size as u32).map(pat).collect();
        me.fill();
        me
    }
    fn fill(&mut self) {
        self.call("T_fill", &[]).unwrap_or_else(|e| mc_core::machinery_error(&format!("fill failed: {e}")));
    }
    fn call(&mut self, export: &str, args: &[u64]) -> Result<Vec<u8>, String> {
        let a: Vec<Buffer> = args.iter().map(|x| Buffer(*x)).collect();
        self.inst.invoke_export(export, a, &mut self.rt).map_err(|e| format!("{e:?}"))
    }
    /// Ok(Ok(bytes)) | Ok(Err((is_memory_access_error, text))) | Err(panic)
    fn call_caught(&mut self, export: &str, args: &[u64]) -> Result<Result<Vec<u8>, (bool, String)>, String> {
        let a: Vec<Buffer> = args.iter().map(|x| Buffer(*x)).collect();
        let inst = &mut self.inst;
        let rt = &mut self.rt;
        catch(move || inst.invoke_export(export, a, rt)).map(|r| {
            r.map_err(|e| {
                let mem = matches!(e, InvokeError::SelfError(WasmRuntimeError::MemoryAccessError));
                (mem, format!("{e:?}"))
            })
        })
    }
    fn take_calls(&mut self) -> Vec<Call> {
        std::mem::take(&mut self.st.borrow_mut().calls)
    }
    /// whole memory through the return-slice path (itself compared with the independent pattern)
    fn dump(&mut self) -> Result<Vec<u8>, String> {
        let size = self.size;
        self.call("T_ret", &[0, size])
    }
}

fn grid(size: u64, thorough: bool) -> Vec<u64> {
    let mut g: BTreeSet<u64> = [0, 1, 4, size - 4, size - 1, size, size + 1, 1 << 31, (1u64 << 32) - 1].into_iter().collect();
    if thorough {
        for x in [2, 3, 255, 256, size / 2, size - 2, size + 4, (1 << 31) - 1, (1 << 31) + 1, (1u64 << 32) - size, (1u64 << 32) - 4, (1u64 << 32) - 2] {
            g.insert(x);
        }
    }
    g.into_iter().collect()
}

#[derive(PartialEq)]
enum Expect {
    InRange,
    OutOfRange,
    /// len == 0 and ptr > size: statement-silent
    EmptyBeyond,
}

fn classify(ptr: u64, len: u64, size: u64) -> Expect {
    if len == 0 && ptr > size {
        Expect::EmptyBeyond
    } else if ptr + len <= size {
        Expect::InRange
    } else {
        Expect::OutOfRange
    }
}

fn first_diff(a: &[u8], b: &[u8]) -> Option<usize> {
    if a.len() != b.len() {
        return Some(a.len().min(b.len()));
    }
    a.iter().zip(b.iter()).position(|(x, y)| x != y)
}

struct Counters {
    nontrivial: AtomicU64,
    pairs: AtomicU64,
}

/// One read-path case: `pairs[k] = (ptr,len)` for every pair of the import.
#[allow(clippy::too_many_arguments)]
fn read_case(it: &mut Inst, code: &[u8], cfg: &MemCfg, fi: usize, pairs: &[(u64, u64)], check_dump: bool, sweep: &str, l: &mut Local, cn: &Counters) {
    let (name, kinds, _ret, method) = HOST_FNS[fi];
    let size = it.size;
    // build the argument vector
    let mut args = vec![];
    let mut scalars = vec![];
    let mut pi = 0;
    let mut chars = kinds.chars().peekable();
    while let Some(c) = chars.next() {
        match c {
            'P' => {
                args.push(pairs[pi].0);
                args.push(pairs[pi].1);
                chars.next(); // the L
                pi += 1;
            }
            _ => {
                // scalar: handle / module id / flags — 1 is valid for all of them (EventFlags::FORCE_WRITE)
                args.push(1);
                scalars.push(1u64);
            }
        }
    }
    let classes: Vec<Expect> = pairs.iter().map(|(p, n)| classify(*p, *n, size)).collect();
    let any_out = classes.iter().any(|c| *c == Expect::OutOfRange);
    let any_silent = classes.iter().any(|c| *c == Expect::EmptyBeyond);
    l.eval();
    let export = format!("T_{name}");
    let case = || json!({"sweep": sweep, "import": name, "pairs": pairs, "memory_bytes": size, "initial_pages": cfg.initial, "grown_pages": cfg.grow});
    let r = it.call_caught(&export, &args);
    let calls = it.take_calls();
    let mine: Vec<&Call> = calls.iter().filter(|c| !method.is_empty() && c.method == method).collect();
    let foreign = calls.iter().filter(|c| method.is_empty() || c.method != method).count();
    match r {
        Err(p) => {
            crate::util::violation(l, format!("{name}:panic"), format!("host call panicked: {p} at {}", mc_core::last_panic_location()), case());
            *it = Inst::new(code, cfg);
            return;
        }
        Ok(Ok(_)) => {
            if any_out {
                crate::util::violation(l, 
                    format!("{name}:out-of-range-accepted"),
                    format!("a range outside the {size}-byte memory was accepted; mock calls: {:?}", summarize(&calls)),
                    case(),
                );
                return;
            }
            if any_silent {
                l.info("empty range starting beyond the end accepted (statement-silent)");
            }
            // exact delivery
            if foreign > 0 {
                l.info("host import delivered to a differently named runtime method");
            }
            if !method.is_empty() {
                if mine.len() != 1 {
                    crate::util::violation(l, format!("{name}:delivery-count"), format!("runtime method {method} entered {} times", mine.len()), case());
                    return;
                }
                let got = &mine[0].bufs;
                let want: Vec<Vec<u8>> = pairs
                    .iter()
                    .map(|(p, n)| if *n == 0 { vec![] } else { it.pattern[*p as usize..(*p + *n) as usize].to_vec() })
                    .collect();
                if got != &want {
                    let k = (0..want.len()).find(|k| got.get(*k) != Some(&want[*k])).unwrap_or(0);
                    crate::util::violation(l, 
                        format!("{name}:wrong-bytes"),
                        format!(
                            "pair {k}: runtime received {} bytes (head {}), expected exactly memory[{}..+{}] (head {})",
                            got.get(k).map(|b| b.len()).unwrap_or(0),
                            mc_core::hex(&got.get(k).map(|b| b[..b.len().min(8)].to_vec()).unwrap_or_default()),
                            pairs[k].0,
                            pairs[k].1,
                            mc_core::hex(&want[k][..want[k].len().min(8)])
                        ),
                        case(),
                    );
                    return;
                }
                if mine[0].scalars != scalars {
                    l.info("scalar arguments differ from the ones passed");
                }
            }
            cn.nontrivial.fetch_add(1, Ordering::Relaxed);
            l.class(if any_silent { "read: accepted, empty range beyond end" } else { "read: in range, exact bytes delivered" });
        }
        Ok(Err((is_mem, text))) => {
            if !any_out && !any_silent {
                crate::util::violation(l, format!("{name}:in-range-rejected"), format!("an in-range call failed: {text}"), case());
                return;
            }
            if !mine.is_empty() || foreign > 0 {
                crate::util::violation(l, 
                    format!("{name}:runtime-entered-on-failure"),
                    format!("the call failed ({text}) but the runtime had already been entered: {:?}", summarize(&calls)),
                    case(),
                );
                return;
            }
            if !is_mem {
                l.info("out-of-range call failed with an error other than MemoryAccessError");
            }
            if any_out {
                l.class("read: out of range, rejected with MemoryAccessError, runtime not entered");
            } else {
                l.class("read: rejected, empty range beyond end");
                l.info("empty range starting beyond the end rejected (statement-silent)");
            }
        }
    }
    if check_dump {
        match it.dump() {
            Ok(d) => {
                if let Some(i) = first_diff(&d, &it.pattern) {
                    crate::util::violation(l, format!("{name}:read-modified-memory"), format!("memory differs from the pattern at byte {i} after a read-path call"), case());
                    it.fill();
                }
            }
            Err(e) => crate::util::violation(l, format!("{name}:dump-failed"), format!("whole-memory return slice failed: {e}"), case()),
        }
    }
}

fn summarize(calls: &[Call]) -> Vec<String> {
    calls.iter().map(|c| format!("{}({:?} bytes)", c.method, c.bufs.iter().map(|b| b.len()).collect::<Vec<_>>())).collect()
}

fn valid_pair(j: usize) -> (u64, u64) {
    (64 * (j as u64 + 1), 5 + j as u64)
}

fn run_reads(ctx: &Ctx, code: &[u8], cfg: &MemCfg, fi: usize, l: &mut Local, cn: &Counters) {
    let mut it = Inst::new(code, cfg);
    let size = it.size;
    let kinds = HOST_FNS[fi].1;
    let npairs = kinds.chars().filter(|c| *c == 'P').count();
    let g = grid(size, !ctx.quick());
    let check_dump = size <= 2 * PAGE;
    cn.pairs.fetch_add(npairs as u64, Ordering::Relaxed);
    // (1) single-pair sweeps
    for k in 0..npairs {
        for &p in &g {
            for &n in &g {
                let mut pairs: Vec<(u64, u64)> = (0..npairs).map(valid_pair).collect();
                pairs[k] = (p, n);
                read_case(&mut it, code, cfg, fi, &pairs, check_dump, "single-pair", l, cn);
            }
        }
    }
    // (2) all pairs at once over 5 boundary ranges
    if npairs >= 2 {
        let b: [(u64, u64); 5] = [(0, 4), (size - 1, 1), (size, 0), (size, 1), (1, (1u64 << 32) - 1)];
        mc_core::gen::seqs_exact(5, npairs, &mut |ix| {
            let pairs: Vec<(u64, u64)> = ix.iter().map(|i| b[*i]).collect();
            read_case(&mut it, code, cfg, fi, &pairs, false, "all-pairs", l, cn);
        });
    }
    l.sample(|| json!({"import": HOST_FNS[fi].0, "pairs": npairs, "grid": g, "memory_bytes": size}));
}

fn run_ret(ctx: &Ctx, code: &[u8], cfg: &MemCfg, l: &mut Local, cn: &Counters) {
    let mut it = Inst::new(code, cfg);
    let size = it.size;
    let g = grid(size, !ctx.quick());
    cn.pairs.fetch_add(1, Ordering::Relaxed);
    for &p in &g {
        for &n in &g {
            l.eval();
            let case = || json!({"sweep": "return-slice", "ptr": p, "len": n, "memory_bytes": size, "initial_pages": cfg.initial, "grown_pages": cfg.grow});
            let e = classify(p, n, size);
            match it.call_caught("T_ret", &[p, n]) {
                Err(pn) => {
                    crate::util::violation(l, "return-slice:panic", format!("panicked: {pn} at {}", mc_core::last_panic_location()), case());
                    it = Inst::new(code, cfg);
                }
                Ok(Ok(bytes)) => match e {
                    Expect::OutOfRange => crate::util::violation(l, "return-slice:out-of-range-accepted", format!("returned {} bytes", bytes.len()), case()),
                    Expect::EmptyBeyond => {
                        l.info("empty range starting beyond the end accepted (statement-silent)");
                        l.class("return slice: accepted, empty range beyond end");
                    }
                    Expect::InRange => {
                        if bytes[..] != it.pattern[p as usize..(p + n) as usize] {
                            crate::util::violation(l, "return-slice:wrong-bytes", format!("returned {} bytes that are not memory[{p}..+{n}]", bytes.len()), case());
                        } else {
                            cn.nontrivial.fetch_add(1, Ordering::Relaxed);
                            l.class("return slice: in range, exact bytes");
                        }
                    }
                },
                Ok(Err((is_mem, text))) => match e {
                    Expect::InRange => crate::util::violation(l, "return-slice:in-range-rejected", text, case()),
                    _ => {
                        if !is_mem {
                            l.info("out-of-range call failed with an error other than MemoryAccessError");
                        }
                        l.class("return slice: out of range, rejected");
                    }
                },
            }
            let _ = it.take_calls();
        }
    }
}

/// write path. `via_buffer`: buffer_consume(id, ptr) with a canned host buffer of `len` bytes;
/// otherwise test_host_write_memory(ptr,len) which writes zeros.
fn run_writes(ctx: &Ctx, code: &[u8], cfg: &MemCfg, via_buffer: bool, l: &mut Local, cn: &Counters) {
    let mut it = Inst::new(code, cfg);
    let size = it.size;
    let name = if via_buffer { "buffer_consume" } else { "test_host_write_memory" };
    let g = grid(size, !ctx.quick());
    // lengths: the host-side buffer is really allocated, so lengths stay below 2^31
    let lens: Vec<u64> = g.iter().copied().filter(|x| *x <= size + PAGE).collect();
    cn.pairs.fetch_add(1, Ordering::Relaxed);
    for &p in &g {
        for &n in &lens {
            l.eval();
            let case = || json!({"sweep": "write", "import": name, "ptr": p, "len": n, "memory_bytes": size, "initial_pages": cfg.initial, "grown_pages": cfg.grow});
            let content: Vec<u8> = if via_buffer { (0..n as u32).map(|i| 0xA5 ^ pat(i.wrapping_mul(3))).collect() } else { vec![0u8; n as usize] };
            let r = if via_buffer {
                it.st.borrow_mut().canned.insert(9, content.clone());
                it.call_caught("T_buffer_consume", &[9, p])
            } else {
                it.call_caught("T_test_host_write_memory", &[p, n])
            };
            let _ = it.take_calls();
            let e = classify(p, n, size);
            let mut dirty = false;
            match r {
                Err(pn) => {
                    crate::util::violation(l, format!("{name}:panic"), format!("panicked: {pn} at {}", mc_core::last_panic_location()), case());
                    it = Inst::new(code, cfg);
                    continue;
                }
                Ok(Ok(_)) => {
                    if e == Expect::OutOfRange {
                        crate::util::violation(l, format!("{name}:out-of-range-accepted"), "a write outside the memory was accepted".to_string(), case());
                        it.fill();
                        continue;
                    }
                    dirty = n > 0 && e == Expect::InRange;
                    let mut want = it.pattern.clone();
                    if e == Expect::InRange {
                        want[p as usize..(p + n) as usize].copy_from_slice(&content);
                    } else {
                        l.info("empty range starting beyond the end accepted (statement-silent)");
                    }
                    match it.dump() {
                        Ok(d) => {
                            if let Some(i) = first_diff(&d, &want) {
                                crate::util::violation(l, 
                                    format!("{name}:wrong-range-written"),
                                    format!("after writing {n} bytes at {p} memory byte {i} is {:#x}, expected {:#x}", d.get(i).copied().unwrap_or(0), want.get(i).copied().unwrap_or(0)),
                                    case(),
                                );
                                dirty = true;
                            } else {
                                cn.nontrivial.fetch_add(1, Ordering::Relaxed);
                                l.class("write: in range, exactly [ptr,ptr+len) changed");
                            }
                        }
                        Err(er) => crate::util::violation(l, format!("{name}:dump-failed"), er, case()),
                    }
                }
                Ok(Err((is_mem, text))) => {
                    if e == Expect::InRange {
                        crate::util::violation(l, format!("{name}:in-range-rejected"), text, case());
                        continue;
                    }
                    if !is_mem {
                        l.info("out-of-range call failed with an error other than MemoryAccessError");
                    }
                    match it.dump() {
                        Ok(d) => {
                            if let Some(i) = first_diff(&d, &it.pattern) {
                                crate::util::violation(l, format!("{name}:partial-write"), format!("the write failed but memory byte {i} changed"), case());
                                dirty = true;
                            } else {
                                l.class("write: out of range, rejected, memory unchanged");
                            }
                        }
                        Err(er) => crate::util::violation(l, format!("{name}:dump-failed"), er, case()),
                    }
                }
            }
            if dirty {
                it.fill();
            }
        }
    }
    if via_buffer {
        // unknown buffer ids: the runtime's error must surface, memory untouched
        for id in [0u64, 1, 8, 10, u32::MAX as u64] {
            for &p in &g {
                l.eval();
                let case = || json!({"sweep": "write", "import": name, "buffer_id": id, "ptr": p, "memory_bytes": size});
                match it.call_caught("T_buffer_consume", &[id, p]) {
                    Err(pn) => {
                        crate::util::violation(l, "buffer_consume:panic", format!("panicked: {pn}"), case());
                        it = Inst::new(code, cfg);
                    }
                    Ok(Ok(_)) => crate::util::violation(l, "buffer_consume:unknown-id-accepted", "buffer_consume succeeded for an id the runtime does not know".to_string(), case()),
                    Ok(Err(_)) => match it.dump() {
                        Ok(d) if first_diff(&d, &it.pattern).is_none() => l.class("write: unknown buffer id, rejected, memory unchanged"),
                        _ => crate::util::violation(l, "buffer_consume:unknown-id-wrote", "memory changed although the buffer id is unknown".to_string(), case()),
                    },
                }
                let _ = it.take_calls();
            }
        }
    }
}

pub fn run(ctx: Ctx) -> ! {
    let mut cfgs = vec![MemCfg { initial: 1, grow: 0 }, MemCfg { initial: 1, grow: 1 }];
    if !ctx.quick() {
        cfgs.push(MemCfg { initial: 2, grow: 0 });
        cfgs.push(MemCfg { initial: 1, grow: 2 });
        cfgs.push(MemCfg { initial: 1, grow: 63 }); // the engine's 64-page limit
    }
    let codes: Vec<(u32, Vec<u8>)> = [1u32, 2].iter().map(|p| (*p, compile_checked(&stub_wat(*p)))).collect();
    let mut items: Vec<(MemCfg, Work)> = vec![];
    for c in &cfgs {
        for fi in 0..HOST_FNS.len() {
            items.push((c.clone(), Work::Reads(fi)));
        }
        items.push((c.clone(), Work::BufferConsume));
        items.push((c.clone(), Work::TestWrite));
        items.push((c.clone(), Work::RetSlice));
    }
    // big jobs first
    items.sort_by_key(|(c, w)| {
        let pages = (c.initial + c.grow) as i64;
        let wgt = match w {
            Work::Reads(fi) => HOST_FNS[*fi].1.len() as i64,
            _ => 20,
        };
        -(pages * wgt)
    });
    let cn = Counters { nontrivial: AtomicU64::new(0), pairs: AtomicU64::new(0) };
    if let Some(case) = ctx.read_replay_case() {
        replay(&ctx, &codes, &case, &cn);
    } else {
        par_for(&ctx, &items, |(cfg, w), l| {
            let code = &codes.iter().find(|(p, _)| *p == cfg.initial).unwrap().1;
            match w {
                Work::Reads(fi) => run_reads(&ctx, code, cfg, *fi, l, &cn),
                Work::BufferConsume => run_writes(&ctx, code, cfg, true, l, &cn),
                Work::TestWrite => run_writes(&ctx, code, cfg, false, l, &cn),
                Work::RetSlice => run_ret(&ctx, code, cfg, l, &cn),
            }
        });
    }
    let mut cov = Map::new();
    cov.insert("host_imports_with_buffers".into(), json!(HOST_FNS.len() + 2));
    cov.insert("pointer_length_pairs_swept".into(), json!(cn.pairs.load(Ordering::Relaxed)));
    cov.insert("memory_configurations".into(), json!(cfgs.iter().map(|c| format!("{} page(s) + grow {}", c.initial, c.grow)).collect::<Vec<_>>()));
    cov.insert("grid_per_dimension".into(), json!(grid(PAGE, !ctx.quick()).len()));
    let nontrivial = cn.nontrivial.load(Ordering::Relaxed);
    ctx.finish(
        Level::Exploration,
        "calls whose ranges were all inside the memory and whose delivered bytes / written range were compared byte for byte",
        nontrivial,
        true,
        cov,
        &[
            "the mock WasmRuntime stands in for ScryptoRuntime: what the real runtime does with the delivered bytes is out of scope",
            "the WAT stub is validated with wasmparser 0.244 before the engine (which instantiates unchecked) sees it",
            "host-side buffer lengths for the write path stay <= memory size + 1 page (they are really allocated)",
            "64-bit host (usize = u64), as on every supported node platform",
        ],
    )
}

fn replay(ctx: &Ctx, codes: &[(u32, Vec<u8>)], case: &serde_json::Value, cn: &Counters) {
    let cfg = MemCfg { initial: case["initial_pages"].as_u64().unwrap_or(1) as u32, grow: case["grown_pages"].as_u64().unwrap_or(0) as u32 };
    let code = &codes.iter().find(|(p, _)| *p == cfg.initial).unwrap_or(&codes[0]).1;
    let mut l = Local::new();
    let sweep = case["sweep"].as_str().unwrap_or("");
    match sweep {
        "single-pair" | "all-pairs" => {
            let name = case["import"].as_str().unwrap_or("");
            let Some(fi) = HOST_FNS.iter().position(|f| f.0 == name) else { mc_core::machinery_error("replay: unknown import") };
            let pairs: Vec<(u64, u64)> = case["pairs"].as_array().map(|a| a.iter().map(|p| (p[0].as_u64().unwrap_or(0), p[1].as_u64().unwrap_or(0))).collect()).unwrap_or_default();
            let mut it = Inst::new(code, &cfg);
            read_case(&mut it, code, &cfg, fi, &pairs, true, sweep, &mut l, cn);
        }
        "return-slice" => run_ret(ctx, code, &cfg, &mut l, cn),
        _ => {
            let via = case["import"].as_str() == Some("buffer_consume");
            run_writes(ctx, code, &cfg, via, &mut l, cn)
        }
    }
    for v in &l.violations {
        println!("REPLAY: {} :: {}", v.key, v.what);
    }
    if l.violations.is_empty() {
        println!("REPLAY: no violation reproduced");
    }
    ctx.merge(l);
}
