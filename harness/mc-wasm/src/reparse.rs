//! Independent re-parser (wasmparser 0.244; the engine uses 0.107 through radix-wasm-instrument):
//!  * `facts(bytes)`       – what a module contains, extracted without any engine code;
//!  * `rule_breaks(facts)` – the sandbox rules of the C45 statement evaluated on those facts;
//!  * `check_output(..)`   – structural check of an accepted (instrumented) output against its input.
use std::collections::BTreeSet;
use wasmparser::{ExternalKind, Operator, Parser, Payload, TypeRef, ValType, WasmFeatures};

#[derive(Clone, Copy, Debug, PartialEq, Eq)]
pub enum VT {
    I32,
    I64,
    F32,
    F64,
    V128,
    Ref,
}

fn vt(v: ValType) -> VT {
    match v {
        ValType::I32 => VT::I32,
        ValType::I64 => VT::I64,
        ValType::F32 => VT::F32,
        ValType::F64 => VT::F64,
        ValType::V128 => VT::V128,
        ValType::Ref(_) => VT::Ref,
    }
}

#[derive(Clone, Debug, PartialEq, Eq)]
pub enum Op {
    Call(u32),
    I64Const(i64),
    I32Const(i32),
    GlobalGet(u32),
    GlobalSet(u32),
    I32Add,
    I32Sub,
    I32GtU,
    IfEmpty,
    Unreachable,
    End,
    Else,
    Return,
    Loop(String),
    LocalGet(u32),
    /// anything else, by its Debug rendering (indices included)
    Other(String),
}

#[derive(Clone, Debug, PartialEq, Eq)]
pub enum ImpKind {
    Func(u32),
    Table,
    Memory,
    Global,
    Tag,
}

#[derive(Clone, Debug)]
pub struct Body {
    pub locals: Vec<(u32, VT)>,
    pub ops: Vec<Op>,
}

impl Body {
    pub fn local_count(&self) -> u64 {
        self.locals.iter().map(|(n, _)| *n as u64).sum()
    }
}

#[derive(Clone, Debug, Default)]
pub struct Facts {
    pub types: Vec<(Vec<VT>, Vec<VT>)>,
    pub imports: Vec<(String, String, ImpKind)>,
    pub func_types: Vec<u32>,
    pub tables: Vec<(u64, Option<u64>)>,
    pub memories: Vec<(u64, Option<u64>)>,
    pub globals: Vec<(VT, bool)>,
    pub exports: Vec<(String, char, u32)>, // kind: f t m g x
    pub start: Option<u32>,
    pub elem_funcs: Vec<u32>,
    pub bodies: Vec<Body>,
    pub uses_float: bool,
    pub max_br_table: u32,
}

impl Facts {
    pub fn n_imported_funcs(&self) -> u32 {
        self.imports.iter().filter(|i| matches!(i.2, ImpKind::Func(_))).count() as u32
    }
}

fn op_of(o: &Operator) -> Op {
    match o {
        Operator::Call { function_index } => Op::Call(*function_index),
        Operator::I64Const { value } => Op::I64Const(*value),
        Operator::I32Const { value } => Op::I32Const(*value),
        Operator::GlobalGet { global_index } => Op::GlobalGet(*global_index),
        Operator::GlobalSet { global_index } => Op::GlobalSet(*global_index),
        Operator::I32Add => Op::I32Add,
        Operator::I32Sub => Op::I32Sub,
        Operator::I32GtU => Op::I32GtU,
        Operator::If { blockty: wasmparser::BlockType::Empty } => Op::IfEmpty,
        Operator::Unreachable => Op::Unreachable,
        Operator::End => Op::End,
        Operator::Else => Op::Else,
        Operator::Return => Op::Return,
        Operator::Loop { blockty } => Op::Loop(format!("{blockty:?}")),
        Operator::LocalGet { local_index } => Op::LocalGet(*local_index),
        other => Op::Other(format!("{other:?}")),
    }
}

/// Parse `bytes` structurally (no validation). Err = the independent parser cannot read it.
pub fn facts(bytes: &[u8]) -> Result<Facts, String> {
    let mut f = Facts::default();
    let e = |x: wasmparser::BinaryReaderError| x.to_string();
    for payload in Parser::new(0).parse_all(bytes) {
        match payload.map_err(e)? {
            Payload::TypeSection(r) => {
                for t in r.into_iter_err_on_gc_types() {
                    let t = t.map_err(e)?;
                    let p: Vec<VT> = t.params().iter().map(|v| vt(*v)).collect();
                    let q: Vec<VT> = t.results().iter().map(|v| vt(*v)).collect();
                    if p.iter().chain(q.iter()).any(|v| matches!(v, VT::F32 | VT::F64)) {
                        f.uses_float = true;
                    }
                    f.types.push((p, q));
                }
            }
            Payload::ImportSection(r) => {
                for i in r.into_imports() {
                    let i = i.map_err(e)?;
                    let k = match i.ty {
                        TypeRef::Func(t) | TypeRef::FuncExact(t) => ImpKind::Func(t),
                        TypeRef::Table(_) => ImpKind::Table,
                        TypeRef::Memory(_) => ImpKind::Memory,
                        TypeRef::Global(g) => {
                            if matches!(vt(g.content_type), VT::F32 | VT::F64) {
                                f.uses_float = true;
                            }
                            ImpKind::Global
                        }
                        TypeRef::Tag(_) => ImpKind::Tag,
                    };
                    f.imports.push((i.module.to_string(), i.name.to_string(), k));
                }
            }
            Payload::FunctionSection(r) => {
                for t in r {
                    f.func_types.push(t.map_err(e)?);
                }
            }
            Payload::TableSection(r) => {
                for t in r {
                    let t = t.map_err(e)?;
                    f.tables.push((t.ty.initial, t.ty.maximum));
                }
            }
            Payload::MemorySection(r) => {
                for m in r {
                    let m = m.map_err(e)?;
                    f.memories.push((m.initial, m.maximum));
                }
            }
            Payload::GlobalSection(r) => {
                for g in r {
                    let g = g.map_err(e)?;
                    let t = vt(g.ty.content_type);
                    if matches!(t, VT::F32 | VT::F64) {
                        f.uses_float = true;
                    }
                    for op in g.init_expr.get_operators_reader() {
                        let s = format!("{:?}", op.map_err(e)?);
                        if s.contains("F32") || s.contains("F64") {
                            f.uses_float = true;
                        }
                    }
                    f.globals.push((t, g.ty.mutable));
                }
            }
            Payload::ExportSection(r) => {
                for x in r {
                    let x = x.map_err(e)?;
                    let k = match x.kind {
                        ExternalKind::Func | ExternalKind::FuncExact => 'f',
                        ExternalKind::Table => 't',
                        ExternalKind::Memory => 'm',
                        ExternalKind::Global => 'g',
                        ExternalKind::Tag => 'x',
                    };
                    f.exports.push((x.name.to_string(), k, x.index));
                }
            }
            Payload::StartSection { func, .. } => f.start = Some(func),
            Payload::ElementSection(r) => {
                for el in r {
                    let el = el.map_err(e)?;
                    if let wasmparser::ElementItems::Functions(fs) = el.items {
                        for x in fs {
                            f.elem_funcs.push(x.map_err(e)?);
                        }
                    }
                }
            }
            Payload::CodeSectionEntry(b) => {
                let mut body = Body { locals: vec![], ops: vec![] };
                for l in b.get_locals_reader().map_err(e)? {
                    let (n, t) = l.map_err(e)?;
                    let t = vt(t);
                    if matches!(t, VT::F32 | VT::F64) {
                        f.uses_float = true;
                    }
                    body.locals.push((n, t));
                }
                for op in b.get_operators_reader().map_err(e)? {
                    let op = op.map_err(e)?;
                    if let Operator::BrTable { targets } = &op {
                        f.max_br_table = f.max_br_table.max(targets.len());
                    }
                    let o = op_of(&op);
                    if let Op::Other(s) | Op::Loop(s) = &o {
                        if s.contains("F32") || s.contains("F64") {
                            f.uses_float = true;
                        }
                    }
                    body.ops.push(o);
                }
                f.bodies.push(body);
            }
            _ => {}
        }
    }
    Ok(f)
}

/// features the engine documents: MVP without floats + mutable-global + sign-extension
pub fn strict_features() -> WasmFeatures {
    WasmFeatures::MUTABLE_GLOBAL | WasmFeatures::SIGN_EXTENSION | WasmFeatures::GC_TYPES
}

pub fn validates(bytes: &[u8], features: WasmFeatures) -> Result<(), String> {
    wasmparser::Validator::new_with_features(features).validate_all(bytes).map(|_| ()).map_err(|e| e.to_string())
}

/// every proposal this parser knows, floats off: "valid apart from floating point"
pub fn everything_but_floats() -> WasmFeatures {
    let mut f = WasmFeatures::all();
    f.remove(WasmFeatures::FLOATS);
    f
}

pub struct Limits {
    pub memory_pages: u64,
    pub table_initial: u64,
    pub br_table_targets: u32,
    pub functions: u64,
    pub params: usize,
    pub locals: u64,
    pub globals: u64,
    pub stack: i32,
}

/// (name, number of i32 parameters, result: v / i / l) — written from the `extern "C"` block of
/// scrypto/src/engine/wasm_api.rs (pointers, lengths, handles and flags are i32; `Buffer` is i64).
pub const PERMITTED: &[(&str, usize, char)] = &[
    ("blueprint_call", 8, 'l'),
    ("address_allocate", 4, 'l'),
    ("address_get_reservation_address", 2, 'l'),
    ("object_new", 4, 'l'),
    ("object_globalize", 6, 'l'),
    ("object_instance_of", 6, 'i'),
    ("object_get_blueprint_id", 2, 'l'),
    ("object_get_outer_object", 2, 'l'),
    ("object_call", 6, 'l'),
    ("object_call_direct", 6, 'l'),
    ("object_call_module", 7, 'l'),
    ("actor_get_package_address", 0, 'l'),
    ("actor_get_blueprint_name", 0, 'l'),
    ("actor_get_object_id", 1, 'l'),
    ("actor_open_field", 3, 'i'),
    ("actor_emit_event", 5, 'v'),
    ("kv_store_new", 2, 'l'),
    ("kv_store_open_entry", 5, 'i'),
    ("kv_store_remove_entry", 4, 'l'),
    ("kv_entry_read", 1, 'l'),
    ("kv_entry_write", 3, 'v'),
    ("kv_entry_remove", 1, 'l'),
    ("kv_entry_close", 1, 'v'),
    ("field_entry_read", 1, 'l'),
    ("field_entry_write", 3, 'v'),
    ("field_entry_close", 1, 'v'),
    ("costing_get_execution_cost_unit_limit", 0, 'i'),
    ("costing_get_execution_cost_unit_price", 0, 'l'),
    ("costing_get_finalization_cost_unit_limit", 0, 'i'),
    ("costing_get_finalization_cost_unit_price", 0, 'l'),
    ("costing_get_usd_price", 0, 'l'),
    ("costing_get_tip_percentage", 0, 'i'),
    ("costing_get_fee_balance", 0, 'l'),
    ("sys_log", 4, 'v'),
    ("sys_bech32_encode_address", 2, 'l'),
    ("sys_get_transaction_hash", 0, 'l'),
    ("sys_generate_ruid", 0, 'l'),
    ("sys_panic", 2, 'v'),
    ("crypto_utils_bls12381_v1_verify", 6, 'i'),
    ("crypto_utils_bls12381_v1_aggregate_verify", 4, 'i'),
    ("crypto_utils_bls12381_v1_fast_aggregate_verify", 6, 'i'),
    ("crypto_utils_bls12381_g2_signature_aggregate", 2, 'l'),
    ("crypto_utils_keccak256_hash", 2, 'l'),
    ("crypto_utils_blake2b_256_hash", 2, 'l'),
    ("crypto_utils_ed25519_verify", 6, 'i'),
    ("crypto_utils_secp256k1_ecdsa_verify", 6, 'i'),
    ("crypto_utils_secp256k1_ecdsa_verify_and_key_recover", 4, 'l'),
    ("crypto_utils_secp256k1_ecdsa_verify_and_key_recover_uncompressed", 4, 'l'),
    ("buffer_consume", 2, 'v'),
];

fn sig_of(n: usize, r: char) -> (Vec<VT>, Vec<VT>) {
    (
        vec![VT::I32; n],
        match r {
            'i' => vec![VT::I32],
            'l' => vec![VT::I64],
            _ => vec![],
        },
    )
}

fn import_permitted(f: &Facts, imp: &(String, String, ImpKind)) -> bool {
    let ImpKind::Func(t) = imp.2 else { return false };
    if imp.0 != "env" {
        return false;
    }
    let Some(p) = PERMITTED.iter().find(|p| p.0 == imp.1) else { return false };
    f.types.get(t as usize) == Some(&sig_of(p.1, p.2))
}

/// The sandbox rules of the statement, evaluated on the independent facts of an *input* module.
/// Returns the list of broken rules (empty = the module satisfies every rule the statement names).
pub fn rule_breaks(f: &Facts, lim: &Limits) -> Vec<&'static str> {
    let mut out = vec![];
    if f.uses_float {
        out.push("floating-point");
    }
    if f.start.is_some() {
        out.push("start-function");
    }
    let imported_mem = f.imports.iter().filter(|i| i.2 == ImpKind::Memory).count();
    if f.memories.len() + imported_mem != 1 || imported_mem != 0 {
        out.push("memory-count");
    } else {
        let (ini, max) = f.memories[0];
        if ini > lim.memory_pages || max.map(|m| m > lim.memory_pages).unwrap_or(false) {
            out.push("memory-limit");
        }
        if !f.exports.iter().any(|x| x.0 == "memory" && x.1 == 'm' && x.2 == 0) {
            out.push("memory-export");
        }
    }
    if f.tables.len() > 1 {
        out.push("table-count");
    }
    if f.tables.iter().any(|t| t.0 > lim.table_initial) {
        out.push("table-limit");
    }
    if f.func_types.len() as u64 > lim.functions {
        out.push("function-count");
    }
    for t in &f.func_types {
        if let Some(ty) = f.types.get(*t as usize) {
            if ty.0.len() > lim.params {
                out.push("function-params");
                break;
            }
        }
    }
    if f.bodies.iter().any(|b| b.local_count() > lim.locals) {
        out.push("function-locals");
    }
    if f.globals.len() as u64 > lim.globals {
        out.push("global-count");
    }
    if f.imports.iter().any(|i| !import_permitted(f, i)) {
        out.push("import");
    }
    out
}

/// Rules that the engine documents but the statement does not name (informational only).
pub fn silent_breaks(f: &Facts, lim: &Limits) -> Vec<&'static str> {
    let mut out = vec![];
    if f.max_br_table > lim.br_table_targets {
        out.push("br_table-targets");
    }
    out
}

const ZERO_WEIGHT_FIRST: fn(&Op) -> bool = |o| matches!(o, Op::End | Op::Else | Op::Unreachable | Op::Return);

/// Structural check of an accepted output against the facts of its input.
/// Returns (key, detail) for every failed check.
pub fn check_output(inp: &Facts, out_bytes: &[u8], lim: &Limits) -> Vec<(String, String)> {
    let mut bad: Vec<(String, String)> = vec![];
    let mut fail = |k: &str, d: String| bad.push((k.to_string(), d));
    let out = match facts(out_bytes) {
        Ok(o) => o,
        Err(e) => {
            fail("output:unparseable", e);
            return bad;
        }
    };
    // O1 valid, and valid without floating point
    if let Err(e) = validates(out_bytes, everything_but_floats()) {
        fail("output:invalid-or-float", e);
    }
    if out.uses_float {
        fail("output:float", "a floating point type or operator is present".into());
    }
    // O2
    if out.start.is_some() {
        fail("output:start", format!("start function {:?}", out.start));
    }
    // O3 memory
    let imported_mem = out.imports.iter().filter(|i| i.2 == ImpKind::Memory).count();
    if out.memories.len() != 1 || imported_mem != 0 {
        fail("output:memory-count", format!("{} defined, {} imported", out.memories.len(), imported_mem));
    } else {
        let (ini, max) = out.memories[0];
        match max {
            None => fail("output:memory-max-missing", "the single memory has no maximum".into()),
            Some(m) if m > lim.memory_pages => fail("output:memory-max", format!("maximum {m} pages > {}", lim.memory_pages)),
            _ => {}
        }
        if ini > lim.memory_pages {
            fail("output:memory-initial", format!("initial {ini} pages"));
        }
        if inp.memories.len() == 1 && inp.memories[0].0 != ini {
            fail("output:memory-initial-changed", format!("input declares {} initial pages, output {ini}", inp.memories[0].0));
        }
        if let (Some((_, Some(im))), Some(om)) = (inp.memories.first(), max) {
            if *im != om {
                fail("output:memory-max-changed", format!("input declares a maximum of {im} pages, output {om}"));
            }
        }
        if !out.exports.iter().any(|x| x.0 == "memory" && x.1 == 'm' && x.2 == 0) {
            fail("output:memory-export", "memory 0 is not exported as `memory`".into());
        }
    }
    // O4 tables
    if out.tables.len() > 1 || out.imports.iter().any(|i| i.2 == ImpKind::Table) {
        fail("output:table-count", format!("{} tables", out.tables.len()));
    }
    if out.tables.iter().any(|t| t.0 > lim.table_initial) {
        fail("output:table-limit", format!("{:?}", out.tables));
    }
    // O5 imports: input imports (all permitted) followed by exactly one injected `env.gas : (i64)->()`
    let gas: Vec<usize> = out.imports.iter().enumerate().filter(|(_, i)| i.0 == "env" && i.1 == "gas").map(|(k, _)| k).collect();
    let n_imp_in = inp.n_imported_funcs();
    let mut gas_idx: Option<u32> = None;
    if gas.len() != 1 {
        fail("output:gas-import", format!("{} imports named env.gas", gas.len()));
    } else {
        let g = &out.imports[gas[0]];
        let ok_ty = matches!(g.2, ImpKind::Func(t) if out.types.get(t as usize) == Some(&(vec![VT::I64], vec![])));
        if !ok_ty {
            fail("output:gas-import-type", format!("{:?}", g.2));
        }
        // function index of the gas import
        let idx = out.imports[..gas[0]].iter().filter(|i| matches!(i.2, ImpKind::Func(_))).count() as u32;
        gas_idx = Some(idx);
    }
    for (k, i) in out.imports.iter().enumerate() {
        if gas.first() == Some(&k) {
            continue;
        }
        if !import_permitted(&out, i) {
            fail("output:import-not-permitted", format!("{}.{} {:?}", i.0, i.1, i.2));
        }
    }
    if out.n_imported_funcs() != n_imp_in + 1 {
        fail("output:import-count", format!("{} function imports in, {} out", n_imp_in, out.n_imported_funcs()));
    }
    // O6 counts (the limiter adds one global and one thunk per exported / table-referenced function)
    if out.globals.len() as u64 > lim.globals + 1 {
        fail("output:global-count", format!("{}", out.globals.len()));
    }
    let n_in = inp.func_types.len();
    let max_thunks = inp.exports.iter().filter(|x| x.1 == 'f').count() + inp.elem_funcs.len() + 1;
    if out.func_types.len() < n_in || out.func_types.len() > n_in + max_thunks {
        fail("output:function-count", format!("{} functions in, {} out", n_in, out.func_types.len()));
    }
    for t in &out.func_types {
        if out.types.get(*t as usize).map(|ty| ty.0.len() > lim.params).unwrap_or(true) {
            fail("output:function-params", format!("type {t}"));
            break;
        }
    }
    if out.bodies.iter().any(|b| b.local_count() > lim.locals) {
        fail("output:function-locals", "a function declares more locals than the limit".into());
    }
    let Some(gas_idx) = gas_idx else { return bad };
    // O8a stack-height global: exactly one new global, mutable i32, appended after the input's globals
    let sg = inp.globals.len() as u32;
    if out.globals.len() != inp.globals.len() + 1 {
        fail("output:stack-global", format!("{} globals in, {} out (expected exactly one injected)", inp.globals.len(), out.globals.len()));
        return bad;
    }
    if out.globals[sg as usize] != (VT::I32, true) {
        fail("output:stack-global-type", format!("{:?}", out.globals[sg as usize]));
    }
    if out.exports.iter().any(|x| x.1 == 'g' && x.2 == sg) {
        fail("output:stack-global-exported", "the stack-height global is reachable from outside".into());
    }
    if out.bodies.len() != out.func_types.len() || inp.bodies.len() != n_in || out.bodies.len() < n_in {
        fail("output:body-count", format!("{} bodies for {} functions", out.bodies.len(), out.func_types.len()));
        return bad;
    }
    // O7/O8b per original function: output = input + injected metering / stack code, nothing else
    let unshift = |x: u32| if x > gas_idx { x - 1 } else { x };
    let callee_has_locals = |callee_out: u32| -> bool {
        // callee index in the output function space
        if callee_out <= gas_idx {
            return false; // imported
        }
        let local = (callee_out - gas_idx - 1) as usize;
        inp.bodies.get(local).map(|b| b.local_count() > 0).unwrap_or(false)
    };
    for (fi, (ib, ob)) in inp.bodies.iter().zip(out.bodies.iter()).enumerate() {
        if ib.locals != ob.locals {
            fail("output:locals-changed", format!("function {fi}"));
            continue;
        }
        let o = &ob.ops;
        let mut rec: Vec<Op> = Vec::with_capacity(ib.ops.len());
        // positions (in the reconstructed stream) where a metering call with its amount was found
        let mut meter_at: Vec<(usize, i64)> = vec![];
        let mut wrapped: BTreeSet<usize> = BTreeSet::new();
        let mut k = 0;
        let mut ok = true;
        while k < o.len() {
            if let (Op::I64Const(n), Some(Op::Call(c))) = (&o[k], o.get(k + 1)) {
                if *c == gas_idx {
                    meter_at.push((rec.len(), *n));
                    k += 2;
                    continue;
                }
            }
            if o.len() >= k + 15 {
                if let (Op::GlobalGet(g0), Op::I32Const(c0), Op::I32Add, Op::GlobalSet(g1), Op::GlobalGet(g2), Op::I32Const(l), Op::I32GtU, Op::IfEmpty, Op::Unreachable, Op::End, Op::Call(x), Op::GlobalGet(g3), Op::I32Const(c1), Op::I32Sub, Op::GlobalSet(g4)) = (
                    &o[k], &o[k + 1], &o[k + 2], &o[k + 3], &o[k + 4], &o[k + 5], &o[k + 6], &o[k + 7], &o[k + 8], &o[k + 9], &o[k + 10], &o[k + 11], &o[k + 12], &o[k + 13], &o[k + 14],
                ) {
                    if [g0, g1, g2, g3, g4].iter().all(|g| **g == sg) {
                        if c0 != c1 || *c0 <= 0 {
                            fail("output:stack-cost-unbalanced", format!("function {fi}: +{c0} / -{c1}"));
                        }
                        if *l != lim.stack {
                            fail("output:stack-limit-constant", format!("function {fi}: compares with {l}, configured {}", lim.stack));
                        }
                        wrapped.insert(rec.len());
                        rec.push(Op::Call(unshift(*x)));
                        k += 15;
                        continue;
                    }
                }
            }
            match &o[k] {
                Op::Call(c) if *c == gas_idx => {
                    fail("output:stray-gas-call", format!("function {fi} op {k}"));
                    ok = false;
                    break;
                }
                Op::GlobalGet(g) | Op::GlobalSet(g) if *g == sg => {
                    fail("output:stray-stack-global-access", format!("function {fi} op {k}"));
                    ok = false;
                    break;
                }
                Op::Call(c) => rec.push(Op::Call(unshift(*c))),
                other => rec.push(other.clone()),
            }
            k += 1;
        }
        if !ok {
            continue;
        }
        if rec != ib.ops {
            let d = rec.iter().zip(ib.ops.iter()).position(|(a, b)| a != b).unwrap_or(rec.len().min(ib.ops.len()));
            fail(
                "output:not-input-plus-instrumentation",
                format!("function {fi}: after removing injected code op {d} is {:?}, input has {:?} ({} vs {} ops)", rec.get(d), ib.ops.get(d), rec.len(), ib.ops.len()),
            );
            continue;
        }
        // metering: function entry and every loop entry are charged before the first instruction that costs anything
        let metered = |pos: usize| meter_at.iter().find(|(p, _)| *p == pos).map(|(_, n)| *n);
        if let Some(first) = ib.ops.first() {
            if !ZERO_WEIGHT_FIRST(first) {
                match metered(0) {
                    Some(n) if n > 0 => {}
                    Some(n) => fail("output:metering-zero", format!("function {fi} entry charges {n}")),
                    None => fail("output:metering-missing-function", format!("function {fi} has no metering call at entry")),
                }
            }
        }
        for (p, op) in ib.ops.iter().enumerate() {
            if let Op::Loop(_) = op {
                if let Some(next) = ib.ops.get(p + 1) {
                    if !ZERO_WEIGHT_FIRST(next) {
                        match metered(p + 1) {
                            Some(n) if n > 0 => {}
                            Some(n) => fail("output:metering-zero", format!("function {fi} loop at {p} charges {n}")),
                            None => fail("output:metering-missing-loop", format!("function {fi}: loop at op {p} has no metering call at the top of its body")),
                        }
                    }
                }
            }
            if let Op::Call(c) = op {
                // c is an input-space index; +1 past the gas import in the output space
                let out_idx = if *c >= gas_idx { *c + 1 } else { *c };
                if callee_has_locals(out_idx) && !wrapped.contains(&p) {
                    fail("output:call-not-stack-limited", format!("function {fi}: call {c} at op {p} is not wrapped by the stack-height check"));
                }
            }
        }
    }
    // exported functions with locals are entered through a thunk that does the stack accounting
    for x in out.exports.iter().filter(|x| x.1 == 'f') {
        let Some(ix) = inp.exports.iter().find(|i| i.0 == x.0 && i.1 == 'f') else {
            fail("output:export-added", format!("{}", x.0));
            continue;
        };
        let target_in = ix.2;
        if target_in < n_imp_in {
            continue;
        }
        let local = (target_in - n_imp_in) as usize;
        let has_locals = inp.bodies.get(local).map(|b| b.local_count() > 0).unwrap_or(false);
        if !has_locals {
            continue;
        }
        let want_direct = target_in + 1;
        if x.2 == want_direct {
            fail("output:export-not-stack-limited", format!("export {} still points at the original function", x.0));
            continue;
        }
        let tl = (x.2 as i64) - (gas_idx as i64) - 1;
        let Some(tb) = (tl >= n_in as i64).then(|| out.bodies.get(tl as usize)).flatten() else {
            fail("output:export-retargeted", format!("export {} -> function {}", x.0, x.2));
            continue;
        };
        let calls_orig = tb.ops.iter().any(|o| *o == Op::Call(want_direct));
        let touches = tb.ops.iter().filter(|o| matches!(o, Op::GlobalSet(g) if *g == sg)).count();
        if !calls_orig || touches < 2 {
            fail("output:thunk-shape", format!("thunk of export {}: calls original={calls_orig}, stack-global writes={touches}", x.0));
        }
    }
    bad
}
