//! Small helpers shared by the mc-wasm checks.
use mc_core::Local;
use serde_json::Value;
use std::cell::RefCell;
use std::collections::BTreeMap;

thread_local! {
    static SEEN: RefCell<BTreeMap<String, u32>> = const { RefCell::new(BTreeMap::new()) };
}

/// Record a violation, but keep only the first two instances of a key per worker: a defect that shows on every
/// input must not use up the bounded violation buffer of `Local` and hide a different defect.
pub fn violation(l: &mut Local, key: impl Into<String>, what: impl Into<String>, case: Value) {
    let key = key.into();
    let n = SEEN.with(|s| {
        let mut s = s.borrow_mut();
        let e = s.entry(key.clone()).or_insert(0);
        *e += 1;
        *e
    });
    // every instance is counted (deterministic total); the first two per worker are recorded with their case
    l.class(&format!("violation `{key}` (instances)"));
    if n <= 2 {
        l.violation(key, what, case);
    }
}
