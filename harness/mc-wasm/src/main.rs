//! mc-wasm: serves C45 C46 C47 (one module per property).
use mc_core::Ctx;

mod c45;
mod mock;
mod reparse;
mod wasmgen;
mod c46;
mod c47;

fn main() {
    let ctx = Ctx::from_args();
    match ctx.id.as_str() {
        "C45" => c45::run(ctx),
        "C46" => c46::run(ctx),
        "C47" => c47::run(ctx),
        other => mc_core::machinery_error(&format!("mc-wasm does not serve {other}")),
    }
}
