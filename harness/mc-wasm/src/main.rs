//! mc-wasm: serves C45 C46 C47 (one module per property).
use mc_core::Ctx;

mod c45;
mod mock;
mod util;
mod reparse;
mod wasmgen;
mod c46;
mod c47;

#[cfg(all(target_os = "linux", target_env = "gnu"))]
fn keep_freed_memory() {
    // Every WASM instance zero-fills a fresh 64 KiB linear memory; glibc hands freed heap tops back to the kernel
    // (trim / madvise) and each re-allocation then page-faults again, which dominates the run time on this VM.
    // Ask glibc to keep freed memory. Purely a performance knob of the harness process.
    extern "C" {
        fn mallopt(param: i32, value: i32) -> i32;
    }
    const M_TRIM_THRESHOLD: i32 = -1;
    const M_TOP_PAD: i32 = -2;
    const M_MMAP_THRESHOLD: i32 = -3;
    unsafe {
        mallopt(M_TRIM_THRESHOLD, 512 << 20);
        mallopt(M_TOP_PAD, 16 << 20);
        mallopt(M_MMAP_THRESHOLD, 32 << 20);
    }
}
#[cfg(not(all(target_os = "linux", target_env = "gnu")))]
fn keep_freed_memory() {}

fn main() {
    keep_freed_memory();
    let ctx = Ctx::from_args();
    match ctx.id.as_str() {
        "C45" => c45::run(ctx),
        "C46" => c46::run(ctx),
        "C47" => c47::run(ctx),
        other => mc_core::machinery_error(&format!("mc-wasm does not serve {other}")),
    }
}
