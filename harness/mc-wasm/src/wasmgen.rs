//! C45 feature lattice: dimension values -> WASM module bytes (wasm-encoder 0.244, no validation on the way)
//! and the reference verdict for a lattice point, written from the property statement.
use crate::reparse::{Limits, PERMITTED};
use std::borrow::Cow;
use wasm_encoder::*;

pub const NDIM: usize = 12;
pub const D_FLOAT: usize = 0;
pub const D_START: usize = 1;
pub const D_MEM: usize = 2;
pub const D_TABLE: usize = 3;
pub const D_FUNCS: usize = 4;
pub const D_PARAMS: usize = 5;
pub const D_LOCALS: usize = 6;
pub const D_GLOBALS: usize = 7;
pub const D_BRTABLE: usize = 8;
pub const D_IMPORT: usize = 9;
pub const D_EXPORT: usize = 10;
pub const D_FEATURE: usize = 11;

pub const DIM_NAMES: [&str; NDIM] = ["float", "start", "memory", "table", "functions", "params", "locals", "globals", "br_table", "import", "export", "feature"];

const FLOAT: &[&str] = &["none", "f32.const in a body", "f64.add in a body", "f32 parameter", "f64 global", "f32 local"];
const START: &[&str] = &["none", "start function"];
const MEM: &[&str] = &[
    "1 exported, no max",
    "1 exported, max = limit",
    "1 exported, initial = limit",
    "none",
    "1 not exported",
    "1 exported as `mem`",
    "1 exported, max = limit+1",
    "1 exported, initial = limit+1",
    "2 memories",
];
const TABLE: &[&str] = &["none", "initial 0", "initial = limit (+ element)", "initial = limit+1", "2 tables"];
const FUNCS: &[&str] = &["few", "= limit", "= limit+1"];
const PARAMS: &[&str] = &["few", "= limit", "= limit+1"];
const LOCALS: &[&str] = &["few", "= limit (one group)", "= limit+1 (one group)", "= limit (two groups)", "= limit+1 (two groups)"];
const GLOBALS: &[&str] = &["none", "= limit immutable", "= limit+1 immutable", "= limit mutable", "limit mutable + 1 immutable", "1 mutable + limit immutable"];
const BRTABLE: &[&str] = &["none", "= limit targets", "= limit+1 targets"];
const EXPORT: &[&str] = &["blueprint function exported", "blueprint function missing", "blueprint function with wrong signature", "blueprint name exported as a global"];
const FEATURE: &[&str] = &[
    "none",
    "sign-extension operator (allowed)",
    "exported mutable global (allowed)",
    "bulk-memory memory.copy",
    "multi-value block",
    "SIMD v128.const",
    "reference types ref.null",
    "tail call return_call",
];

/// extra import values after the 2 (thorough: 4) per permitted host function
const IMPORT_EXTRA: &[&str] = &[
    "unknown module",
    "unknown name in env",
    "env.gas (the metering function itself)",
    "env.test_host_read_memory (test-only host function)",
    "memory import",
    "table import",
    "immutable global import",
    "mutable global import",
    "permitted name imported as a global",
];

#[derive(Clone, Debug, PartialEq, Eq)]
pub enum Imp {
    None,
    /// permitted function p with signature variant: 0 right, 1 extra parameter, 2 result flipped, 3 i64 parameters
    Host(usize, u8),
    Extra(usize),
}

pub struct Lattice {
    pub sizes: [usize; NDIM],
    pub sig_variants: usize,
}

impl Lattice {
    pub fn new(thorough: bool) -> Lattice {
        let sig_variants = if thorough { 4 } else { 2 };
        Lattice {
            sizes: [
                FLOAT.len(),
                START.len(),
                MEM.len(),
                TABLE.len(),
                FUNCS.len(),
                PARAMS.len(),
                LOCALS.len(),
                GLOBALS.len(),
                BRTABLE.len(),
                1 + PERMITTED.len() * sig_variants + IMPORT_EXTRA.len(),
                EXPORT.len(),
                FEATURE.len(),
            ],
            sig_variants,
        }
    }
    pub fn imp(&self, v: usize) -> Imp {
        if v == 0 {
            return Imp::None;
        }
        let v = v - 1;
        if v < PERMITTED.len() * self.sig_variants {
            return Imp::Host(v / self.sig_variants, (v % self.sig_variants) as u8);
        }
        Imp::Extra(v - PERMITTED.len() * self.sig_variants)
    }
    pub fn label(&self, d: usize, v: usize) -> String {
        match d {
            D_FLOAT => FLOAT[v].into(),
            D_START => START[v].into(),
            D_MEM => MEM[v].into(),
            D_TABLE => TABLE[v].into(),
            D_FUNCS => FUNCS[v].into(),
            D_PARAMS => PARAMS[v].into(),
            D_LOCALS => LOCALS[v].into(),
            D_GLOBALS => GLOBALS[v].into(),
            D_BRTABLE => BRTABLE[v].into(),
            D_IMPORT => match self.imp(v) {
                Imp::None => "none".into(),
                Imp::Host(p, s) => format!("{} [{}]", PERMITTED[p].0, ["right signature", "extra parameter", "result flipped", "i64 parameters"][s as usize]),
                Imp::Extra(e) => IMPORT_EXTRA[e].into(),
            },
            D_EXPORT => EXPORT[v].into(),
            _ => FEATURE[v].into(),
        }
    }
    pub fn describe(&self, dims: &[usize; NDIM]) -> serde_json::Value {
        let mut m = serde_json::Map::new();
        for d in 0..NDIM {
            if dims[d] != 0 {
                m.insert(DIM_NAMES[d].into(), serde_json::json!(self.label(d, dims[d])));
            }
        }
        serde_json::Value::Object(m)
    }
}

/// Reference verdict for a lattice point: rules named by the statement that the module breaks
/// (=> it must be rejected) and engine-documented restrictions the statement is silent about.
pub struct Verdict {
    pub must_reject: Vec<&'static str>,
    pub silent: Vec<&'static str>,
}

pub fn verdict(lat: &Lattice, dims: &[usize; NDIM], lim: &Limits) -> Verdict {
    let mut must = vec![];
    let mut silent = vec![];
    if dims[D_FLOAT] != 0 {
        must.push("floating-point");
    }
    if dims[D_START] != 0 {
        must.push("start-function");
    }
    let imp = lat.imp(dims[D_IMPORT]);
    if matches!(imp, Imp::Extra(4)) {
        // the module's only memory is the imported one (build() defines none): not "a single memory of its own"
        must.push("memory-count");
    } else {
        match dims[D_MEM] {
            0..=2 => {}
            3 | 8 => must.push("memory-count"),
            4 | 5 => must.push("memory-export"),
            _ => must.push("memory-limit"),
        }
    }
    match dims[D_TABLE] {
        3 => must.push("table-limit"),
        4 => must.push("table-count"),
        _ => {}
    }
    if dims[D_FUNCS] == 2 {
        must.push("function-count");
    }
    if dims[D_PARAMS] == 2 {
        must.push("function-params");
    }
    if dims[D_LOCALS] == 2 || dims[D_LOCALS] == 4 {
        must.push("function-locals");
    }
    if global_count(dims, lim) > lim.globals {
        must.push("global-count");
    }
    match imp {
        Imp::None | Imp::Host(_, 0) => {}
        _ => must.push("import"),
    }
    if dims[D_BRTABLE] == 2 {
        silent.push("br_table-targets");
    }
    if dims[D_EXPORT] != 0 {
        silent.push("blueprint-export");
    }
    if dims[D_FEATURE] >= 3 {
        silent.push("post-MVP-feature");
    }
    Verdict { must_reject: must, silent }
}

fn base_globals(dims: &[usize; NDIM], lim: &Limits) -> (u64, u64) {
    // (immutable, mutable)
    let l = lim.globals;
    match dims[D_GLOBALS] {
        0 => (0, 0),
        1 => (l, 0),
        2 => (l + 1, 0),
        3 => (0, l),
        4 => (1, l),
        _ => (l, 1),
    }
}

pub fn global_count(dims: &[usize; NDIM], lim: &Limits) -> u64 {
    let (a, b) = base_globals(dims, lim);
    a + b + (dims[D_FLOAT] == 4) as u64 + (dims[D_FEATURE] == 2) as u64 + (dims[D_EXPORT] == 3) as u64
}

struct Types {
    list: Vec<(Vec<ValType>, Vec<ValType>)>,
}

impl Types {
    fn get(&mut self, p: Vec<ValType>, r: Vec<ValType>) -> u32 {
        if let Some(i) = self.list.iter().position(|t| t.0 == p && t.1 == r) {
            return i as u32;
        }
        self.list.push((p, r));
        (self.list.len() - 1) as u32
    }
}

fn mem_ty(min: u64, max: Option<u64>) -> MemoryType {
    MemoryType { minimum: min, maximum: max, memory64: false, shared: false, page_size_log2: None }
}
fn tab_ty(min: u64) -> TableType {
    TableType { element_type: RefType::FUNCREF, table64: false, minimum: min, maximum: None, shared: false }
}
fn glob_ty(v: ValType, mutable: bool) -> GlobalType {
    GlobalType { val_type: v, mutable, shared: false }
}

/// Build the module of a lattice point.
pub fn build(lat: &Lattice, dims: &[usize; NDIM], lim: &Limits) -> Vec<u8> {
    use Instruction as I;
    let i32t = ValType::I32;
    let i64t = ValType::I64;
    let mut ty = Types { list: vec![] };
    let t_main = ty.get(vec![i64t], vec![i64t]);
    let t_helper = ty.get(vec![i32t], vec![i32t]);
    let t_loop = ty.get(vec![i32t], vec![]);
    let t_void = ty.get(vec![], vec![]);

    // ---- imports
    let imp = lat.imp(dims[D_IMPORT]);
    let mut imports = ImportSection::new();
    let mut n_imp_funcs = 0u32;
    let mut imported_memory = false;
    let mut imp_call: Option<(usize, char)> = None; // parameters / result of the imported function (to call it)
    match &imp {
        Imp::None => {}
        Imp::Host(p, variant) => {
            let (name, n, r) = PERMITTED[*p];
            let (mut params, mut res) = (vec![i32t; n], match r {
                'i' => vec![i32t],
                'l' => vec![i64t],
                _ => vec![],
            });
            match variant {
                0 => {}
                1 => params.push(i32t),
                2 => {
                    res = match r {
                        'i' => vec![i64t],
                        'l' => vec![i32t],
                        _ => vec![i32t],
                    }
                }
                _ => {
                    if n == 0 {
                        params.push(i64t)
                    } else {
                        params = vec![i64t; n]
                    }
                }
            }
            if *variant == 0 {
                imp_call = Some((n, r));
            }
            let t = ty.get(params, res);
            imports.import("env", name, EntityType::Function(t));
            n_imp_funcs = 1;
        }
        Imp::Extra(e) => match e {
            0 => {
                let t = ty.get(vec![i32t; 6], vec![i64t]);
                imports.import("foo", "object_call", EntityType::Function(t));
                n_imp_funcs = 1;
            }
            1 => {
                imports.import("env", "nope", EntityType::Function(t_void));
                n_imp_funcs = 1;
            }
            2 => {
                let t = ty.get(vec![i64t], vec![]);
                imports.import("env", "gas", EntityType::Function(t));
                n_imp_funcs = 1;
            }
            3 => {
                let t = ty.get(vec![i32t, i32t], vec![]);
                imports.import("env", "test_host_read_memory", EntityType::Function(t));
                n_imp_funcs = 1;
            }
            4 => {
                imports.import("env", "memory", EntityType::Memory(mem_ty(1, None)));
                imported_memory = true;
            }
            5 => {
                imports.import("env", "table", EntityType::Table(tab_ty(1)));
            }
            6 => {
                imports.import("env", "g", EntityType::Global(glob_ty(i32t, false)));
            }
            7 => {
                imports.import("env", "g", EntityType::Global(glob_ty(i32t, true)));
            }
            _ => {
                imports.import("env", "object_call", EntityType::Global(glob_ty(i64t, false)));
            }
        },
    }
    let n_imported_globals = matches!(imp, Imp::Extra(6) | Imp::Extra(7) | Imp::Extra(8)) as u32;
    let imported_table = matches!(imp, Imp::Extra(5));

    // ---- local functions: (type, locals, body instructions)
    let f0 = n_imp_funcs; // index of the first local function
    let mut funcs: Vec<(u32, Vec<(u32, ValType)>, Vec<Instruction<'static>>)> = vec![];
    let idx_main = f0;
    let idx_helper = f0 + 1;
    let idx_loop = f0 + 2;
    // main is filled in last (it calls the others)
    funcs.push((t_main, vec![], vec![]));
    let helper_locals = if dims[D_FLOAT] == 5 { vec![(1, i32t), (1, ValType::F32)] } else { vec![(1, i32t)] };
    funcs.push((t_helper, helper_locals, vec![I::LocalGet(0), I::LocalSet(1), I::LocalGet(1), I::End]));
    funcs.push((
        t_loop,
        vec![],
        vec![
            I::Block(BlockType::Empty),
            I::Loop(BlockType::Empty),
            I::LocalGet(0),
            I::I32Eqz,
            I::BrIf(1),
            I::LocalGet(0),
            I::I32Const(1),
            I::I32Sub,
            I::LocalSet(0),
            I::Br(0),
            I::End,
            I::End,
            I::End,
        ],
    ));
    let mut main_body: Vec<Instruction<'static>> = vec![I::I32Const(5), I::Call(idx_helper), I::Drop, I::I32Const(3), I::Call(idx_loop)];
    let mut add_void_fn = |funcs: &mut Vec<(u32, Vec<(u32, ValType)>, Vec<Instruction<'static>>)>, main_body: &mut Vec<Instruction<'static>>, locals: Vec<(u32, ValType)>, mut body: Vec<Instruction<'static>>| -> u32 {
        body.push(I::End);
        funcs.push((t_void, locals, body));
        let idx = f0 + funcs.len() as u32 - 1;
        main_body.push(I::Call(idx));
        idx
    };
    // imported host function is really called
    if let Some((n, r)) = imp_call {
        let mut b = vec![];
        for _ in 0..n {
            b.push(I::I32Const(0));
        }
        b.push(I::Call(0));
        if r != 'v' {
            b.push(I::Drop);
        }
        add_void_fn(&mut funcs, &mut main_body, vec![], b);
    }
    // float usage
    match dims[D_FLOAT] {
        1 => {
            add_void_fn(&mut funcs, &mut main_body, vec![], vec![I::F32Const(Ieee32::new(0x3f800000)), I::Drop]);
        }
        2 => {
            add_void_fn(&mut funcs, &mut main_body, vec![], vec![I::F64Const(Ieee64::new(0)), I::F64Const(Ieee64::new(0)), I::F64Add, I::Drop]);
        }
        3 => {
            let t = ty.get(vec![ValType::F32], vec![]);
            funcs.push((t, vec![], vec![I::End]));
        }
        _ => {}
    }
    // start
    let mut start_idx = None;
    if dims[D_START] == 1 {
        funcs.push((t_void, vec![], vec![I::Nop, I::End]));
        start_idx = Some(f0 + funcs.len() as u32 - 1);
    }
    // params
    if dims[D_PARAMS] != 0 {
        let n = lim.params + (dims[D_PARAMS] == 2) as usize;
        let t = ty.get(vec![i32t; n], vec![]);
        funcs.push((t, vec![], vec![I::End]));
    }
    // locals
    if dims[D_LOCALS] != 0 {
        let l = lim.locals as u32;
        let groups = match dims[D_LOCALS] {
            1 => vec![(l, i32t)],
            2 => vec![(l + 1, i32t)],
            3 => vec![(l / 2, i32t), (l - l / 2, i64t)],
            _ => vec![(l / 2, i32t), (l - l / 2 + 1, i64t)],
        };
        add_void_fn(&mut funcs, &mut main_body, groups, vec![I::LocalGet(0), I::Drop]);
    }
    // br_table
    if dims[D_BRTABLE] != 0 {
        let n = lim.br_table_targets as usize + (dims[D_BRTABLE] == 2) as usize;
        funcs.push((t_loop, vec![], vec![I::Block(BlockType::Empty), I::LocalGet(0), I::BrTable(Cow::Owned(vec![0u32; n]), 0), I::End, I::End]));
    }
    // export variants that need a function
    let mut wrong_sig_idx = None;
    if dims[D_EXPORT] == 2 {
        let t = ty.get(vec![i32t], vec![i64t]);
        funcs.push((t, vec![], vec![I::I64Const(0), I::End]));
        wrong_sig_idx = Some(f0 + funcs.len() as u32 - 1);
    }
    // features
    match dims[D_FEATURE] {
        1 => {
            add_void_fn(&mut funcs, &mut main_body, vec![], vec![I::I32Const(200), I::I32Extend8S, I::Drop]);
        }
        3 => {
            add_void_fn(&mut funcs, &mut main_body, vec![], vec![I::I32Const(0), I::I32Const(0), I::I32Const(0), I::MemoryCopy { src_mem: 0, dst_mem: 0 }]);
        }
        4 => {
            let t = ty.get(vec![], vec![i32t, i32t]);
            add_void_fn(&mut funcs, &mut main_body, vec![], vec![I::Block(BlockType::FunctionType(t)), I::I32Const(0), I::I32Const(0), I::End, I::Drop, I::Drop]);
        }
        5 => {
            add_void_fn(&mut funcs, &mut main_body, vec![], vec![I::V128Const(0), I::Drop]);
        }
        6 => {
            add_void_fn(&mut funcs, &mut main_body, vec![], vec![I::RefNull(HeapType::FUNC), I::Drop]);
        }
        7 => {
            let target = idx_loop;
            funcs.push((t_loop, vec![], vec![I::LocalGet(0), I::ReturnCall(target), I::End]));
        }
        _ => {}
    }
    // fillers up to the requested number of local functions
    if dims[D_FUNCS] != 0 {
        let want = lim.functions as usize + (dims[D_FUNCS] == 2) as usize;
        let mut k = 0;
        while funcs.len() < want {
            if k % 2 == 0 {
                funcs.push((t_void, vec![], vec![I::End]));
            } else {
                funcs.push((t_void, vec![], vec![I::I32Const(0), I::Drop, I::End]));
            }
            k += 1;
        }
    }
    main_body.push(I::LocalGet(0));
    main_body.push(I::End);
    funcs[0].2 = main_body;

    // ---- assemble
    let mut module = Module::new();
    let mut types = TypeSection::new();
    for (p, r) in &ty.list {
        types.ty().function(p.clone(), r.clone());
    }
    module.section(&types);
    if !matches!(imp, Imp::None) {
        module.section(&imports);
    }
    let mut fs = FunctionSection::new();
    for f in &funcs {
        fs.function(f.0);
    }
    module.section(&fs);
    // tables
    let n_tables = match dims[D_TABLE] {
        0 => 0,
        4 => 2,
        _ => 1,
    };
    if n_tables > 0 {
        let mut ts = TableSection::new();
        let ini = match dims[D_TABLE] {
            1 => 0,
            2 => lim.table_initial,
            3 => lim.table_initial + 1,
            _ => 1,
        };
        for _ in 0..n_tables {
            ts.table(tab_ty(ini));
        }
        module.section(&ts);
    }
    // memories
    let lp = lim.memory_pages;
    let mems: Vec<MemoryType> = if imported_memory {
        vec![]
    } else {
        match dims[D_MEM] {
            0 | 4 | 5 => vec![mem_ty(1, None)],
            1 => vec![mem_ty(1, Some(lp))],
            2 => vec![mem_ty(lp, None)],
            3 => vec![],
            6 => vec![mem_ty(1, Some(lp + 1))],
            7 => vec![mem_ty(lp + 1, None)],
            _ => vec![mem_ty(1, None), mem_ty(1, None)],
        }
    };
    if !mems.is_empty() {
        let mut ms = MemorySection::new();
        for m in &mems {
            ms.memory(*m);
        }
        module.section(&ms);
    }
    // globals
    let (g_imm, g_mut) = base_globals(dims, lim);
    let mut gs = GlobalSection::new();
    let mut n_globals = 0u32;
    for _ in 0..g_mut {
        gs.global(glob_ty(i32t, true), &ConstExpr::i32_const(1));
        n_globals += 1;
    }
    for _ in 0..g_imm {
        gs.global(glob_ty(i64t, false), &ConstExpr::i64_const(2));
        n_globals += 1;
    }
    if dims[D_FLOAT] == 4 {
        gs.global(glob_ty(ValType::F64, false), &ConstExpr::f64_const(Ieee64::new(0)));
        n_globals += 1;
    }
    let mut exported_mut_global = None;
    if dims[D_FEATURE] == 2 {
        gs.global(glob_ty(i32t, true), &ConstExpr::i32_const(7));
        exported_mut_global = Some(n_imported_globals + n_globals);
        n_globals += 1;
    }
    let mut name_global = None;
    if dims[D_EXPORT] == 3 {
        gs.global(glob_ty(i64t, false), &ConstExpr::i64_const(0));
        name_global = Some(n_imported_globals + n_globals);
        n_globals += 1;
    }
    if n_globals > 0 {
        module.section(&gs);
    }
    // exports
    let mut es = ExportSection::new();
    let has_memory0 = imported_memory || !mems.is_empty();
    if has_memory0 {
        match dims[D_MEM] {
            4 if !imported_memory => {}
            5 if !imported_memory => {
                es.export("mem", ExportKind::Memory, 0);
            }
            _ => {
                es.export("memory", ExportKind::Memory, 0);
            }
        }
    }
    match dims[D_EXPORT] {
        0 => {
            es.export("Test_f", ExportKind::Func, idx_main);
        }
        1 => {
            es.export("other", ExportKind::Func, idx_main);
        }
        2 => {
            es.export("Test_f", ExportKind::Func, wrong_sig_idx.unwrap());
            es.export("other", ExportKind::Func, idx_main);
        }
        _ => {
            es.export("Test_f", ExportKind::Global, name_global.unwrap());
            es.export("other", ExportKind::Func, idx_main);
        }
    }
    if let Some(g) = exported_mut_global {
        es.export("g", ExportKind::Global, g);
    }
    module.section(&es);
    if let Some(s) = start_idx {
        module.section(&StartSection { function_index: s });
    }
    // elements
    if (n_tables > 0 || imported_table) && matches!(dims[D_TABLE], 2 | 3 | 4) {
        let mut el = ElementSection::new();
        el.active(None, &ConstExpr::i32_const(0), Elements::Functions(Cow::Owned(vec![idx_helper])));
        module.section(&el);
    }
    // code
    let mut cs = CodeSection::new();
    for (_, locals, body) in &funcs {
        let mut f = Function::new(locals.clone());
        for i in body {
            f.instruction(i);
        }
        cs.function(&f);
    }
    module.section(&cs);
    // data
    if has_memory0 && !matches!(dims[D_MEM], 8) {
        let mut ds = DataSection::new();
        ds.active(0, &ConstExpr::i32_const(0), vec![0x5c, 0x21, 0x00]);
        module.section(&ds);
    }
    module.finish()
}
