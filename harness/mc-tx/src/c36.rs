//! C36 — static manifest validation matches the bucket/proof lifecycle (Oracle A: the static half).
//!
//! Statement (static half): a manifest passes static validation only if every bucket, proof, address reservation,
//! named address, blob and child intent it uses was created or declared earlier and not yet consumed, nothing is
//! consumed twice, and the manifest ends as its kind requires.
//!
//! Explicit-state exploration of instruction sequences on the real `StaticManifestInterpreter`
//! (`ValidationRuleset::all()`), for each of the 4 manifest kinds. A state is the instruction history that reaches
//! it. Alphabet (computed from the state: every id that exists, consumed or not, plus the first id that does not
//! exist yet): take-from-worktop, return / burn bucket b, create proof from bucket b / from auth zone, clone /
//! drop / push proof p, pop from auth zone, drop all / named / auth-zone proofs, call with bucket b / proof p / the
//! same bucket twice / reservation r (once, twice) / named address a as argument / on named address a / blob
//! present or absent / expression / nothing, allocate address, and for V2 kinds yield to a declared / undeclared
//! child (with bucket), yield to parent (plain, with bucket, with proof), verify parent, next-call assertion,
//! bucket assertion.
//!
//! Phase 1 (decides): the full history tree (no de-duplication) to depth 5 (quick) / 6 (thorough; 7 for V1 manifests), with prefix
//! pruning (a prefix the real validator rejects at an instruction is not extended).
//! Phase 2 (reaches deeper): breadth-first search with de-duplication on a fingerprint of the *real* interpreter's
//! state (reconstructed from the events it sends to a visitor) to depth 7 / 10 under state and wall caps.
//!
//! Oracle A, one-directional as the statement: after every step the real validator is run on the history as a
//! complete manifest. (1) If it gets past the last instruction (Ok, or an error that is only raised at the end of
//! the manifest), the reference lifecycle model must accept that instruction; (2) if it returns Ok, the model must
//! accept the manifest as complete for its kind. The converse (model accepts, real rejects — locks, dangling
//! buckets, kind restrictions, next-call assertions) is counted as informational.
//! The reference model is a few vectors of booleans written from the statement, independent of the interpreter.
use crate::mgen::*;
use crate::minrec::MinRec;
use mc_core::{bfs, par_for, BfsStats, Ctx, Level, Local, Machine};
use radix_common::prelude::*;
use radix_engine_interface::prelude::*;
use radix_transactions::manifest::*;
use radix_transactions::prelude::*;
use radix_transactions::validation::ProofKind;
use serde_json::{json, Map};
use std::ops::ControlFlow;
use std::sync::atomic::{AtomicU64, Ordering};

static MIN: MinRec = MinRec::new();

#[derive(Clone, Copy, Debug, PartialEq, Eq, Hash, PartialOrd, Ord)]
pub enum Op {
    Take,
    Return(u32),
    Burn(u32),
    ProofFromBucket(u32),
    ProofFromAuthZone,
    CloneProof(u32),
    DropProof(u32),
    Push(u32),
    Pop,
    DropAllProofs,
    DropNamedProofs,
    DropAuthZoneProofs,
    CallPlain,
    CallExpression,
    CallBucket(u32),
    CallBucketTwice(u32),
    CallProof(u32),
    CallReservation(u32),
    CallReservationTwice(u32),
    CallNamedAddressArg(u32),
    CallOnNamedAddress(u32),
    CallFunctionOnNamedPackage(u32),
    CallBlob(bool),
    Allocate,
    // V2 only
    YieldToChild(u32),
    YieldToChildBucket(u32, u32),
    YieldToParent,
    YieldToParentBucket(u32),
    YieldToParentProof(u32),
    VerifyParent,
    AssertNextCall,
    AssertBucket(u32),
}

// ---------------------------------------------------------------------------------------------------------------
// reference lifecycle model (from the statement)
// ---------------------------------------------------------------------------------------------------------------

#[derive(Clone, Debug, Default, PartialEq, Eq)]
pub struct Model {
    pub subintent: bool,
    /// live?
    pub buckets: Vec<bool>,
    pub proofs: Vec<bool>,
    pub reservations: Vec<bool>,
    pub named_addresses: u32,
    pub declared_children: u32,
    pub len: usize,
    pub last_is_yield_to_parent: bool,
}

type Reason = &'static str;

impl Model {
    pub fn new(kind: Kind) -> Model {
        Model {
            subintent: kind.is_subintent(),
            reservations: if kind == Kind::SystemV1 { vec![true] } else { vec![] },
            declared_children: if kind.is_v2() { 1 } else { 0 },
            ..Default::default()
        }
    }
    fn use_bucket(&mut self, b: u32) -> Result<(), Reason> {
        match self.buckets.get_mut(b as usize) {
            None => Err("bucket-not-created"),
            Some(false) => Err("bucket-already-consumed"),
            Some(live) => {
                *live = false;
                Ok(())
            }
        }
    }
    fn peek_bucket(&self, b: u32) -> Result<(), Reason> {
        match self.buckets.get(b as usize) {
            None => Err("bucket-not-created"),
            Some(false) => Err("bucket-already-consumed"),
            Some(true) => Ok(()),
        }
    }
    fn use_proof(&mut self, p: u32) -> Result<(), Reason> {
        match self.proofs.get_mut(p as usize) {
            None => Err("proof-not-created"),
            Some(false) => Err("proof-already-consumed"),
            Some(live) => {
                *live = false;
                Ok(())
            }
        }
    }
    fn peek_proof(&self, p: u32) -> Result<(), Reason> {
        match self.proofs.get(p as usize) {
            None => Err("proof-not-created"),
            Some(false) => Err("proof-already-consumed"),
            Some(true) => Ok(()),
        }
    }
    fn use_reservation(&mut self, r: u32) -> Result<(), Reason> {
        match self.reservations.get_mut(r as usize) {
            None => Err("reservation-not-created"),
            Some(false) => Err("reservation-already-consumed"),
            Some(live) => {
                *live = false;
                Ok(())
            }
        }
    }
    fn named(&self, a: u32) -> Result<(), Reason> {
        if a < self.named_addresses {
            Ok(())
        } else {
            Err("named-address-not-created")
        }
    }
    /// Apply one instruction. Err = the statement forbids it in this state.
    pub fn apply(&mut self, op: Op) -> Result<(), Reason> {
        self.len += 1;
        self.last_is_yield_to_parent = matches!(op, Op::YieldToParent | Op::YieldToParentBucket(_) | Op::YieldToParentProof(_));
        match op {
            Op::Take => self.buckets.push(true),
            Op::Return(b) | Op::Burn(b) | Op::CallBucket(b) | Op::YieldToParentBucket(b) => self.use_bucket(b)?,
            Op::CallBucketTwice(b) => {
                self.use_bucket(b)?;
                self.use_bucket(b)?;
            }
            Op::ProofFromBucket(b) => {
                self.peek_bucket(b)?;
                self.proofs.push(true);
            }
            Op::ProofFromAuthZone | Op::Pop => self.proofs.push(true),
            Op::CloneProof(p) => {
                self.peek_proof(p)?;
                self.proofs.push(true);
            }
            Op::DropProof(p) | Op::Push(p) | Op::CallProof(p) | Op::YieldToParentProof(p) => self.use_proof(p)?,
            Op::DropAllProofs | Op::DropNamedProofs => {
                for p in self.proofs.iter_mut() {
                    *p = false;
                }
            }
            Op::DropAuthZoneProofs | Op::CallPlain | Op::CallExpression | Op::YieldToParent | Op::VerifyParent | Op::AssertNextCall => {}
            Op::CallReservation(r) => self.use_reservation(r)?,
            Op::CallReservationTwice(r) => {
                self.use_reservation(r)?;
                self.use_reservation(r)?;
            }
            Op::CallNamedAddressArg(a) | Op::CallOnNamedAddress(a) | Op::CallFunctionOnNamedPackage(a) => self.named(a)?,
            Op::CallBlob(present) => {
                if !present {
                    return Err("blob-not-declared");
                }
            }
            Op::Allocate => {
                self.reservations.push(true);
                self.named_addresses += 1;
            }
            Op::YieldToChild(c) => {
                if c >= self.declared_children {
                    return Err("child-not-declared");
                }
            }
            Op::YieldToChildBucket(c, b) => {
                if c >= self.declared_children {
                    return Err("child-not-declared");
                }
                self.use_bucket(b)?;
            }
            Op::AssertBucket(b) => self.peek_bucket(b)?,
        }
        Ok(())
    }
    /// "the manifest ends as its kind requires"
    pub fn complete_ok(&self) -> Result<(), Reason> {
        if self.subintent && !(self.len > 0 && self.last_is_yield_to_parent) {
            return Err("subintent-must-end-with-yield-to-parent");
        }
        Ok(())
    }
    pub fn alphabet(&self, kind: Kind) -> Vec<Op> {
        let nb = self.buckets.len() as u32;
        let np = self.proofs.len() as u32;
        let nr = self.reservations.len() as u32;
        let na = self.named_addresses;
        let mut v = vec![Op::Take];
        for b in 0..=nb {
            v.push(Op::Return(b));
        }
        for b in 0..=nb {
            v.push(Op::Burn(b));
        }
        for b in 0..=nb {
            v.push(Op::ProofFromBucket(b));
        }
        v.push(Op::ProofFromAuthZone);
        for p in 0..=np {
            v.push(Op::CloneProof(p));
        }
        for p in 0..=np {
            v.push(Op::DropProof(p));
        }
        for p in 0..=np {
            v.push(Op::Push(p));
        }
        v.push(Op::Pop);
        v.extend([Op::DropAllProofs, Op::DropNamedProofs, Op::DropAuthZoneProofs, Op::CallPlain, Op::CallExpression]);
        for b in 0..=nb {
            v.push(Op::CallBucket(b));
        }
        for b in 0..nb {
            v.push(Op::CallBucketTwice(b));
        }
        for p in 0..=np {
            v.push(Op::CallProof(p));
        }
        for r in 0..=nr {
            v.push(Op::CallReservation(r));
        }
        for r in 0..nr {
            v.push(Op::CallReservationTwice(r));
        }
        for a in 0..=na {
            v.push(Op::CallNamedAddressArg(a));
            v.push(Op::CallOnNamedAddress(a));
        }
        v.push(Op::CallFunctionOnNamedPackage(na));
        if na > 0 {
            v.push(Op::CallFunctionOnNamedPackage(0));
        }
        v.extend([Op::CallBlob(true), Op::CallBlob(false), Op::Allocate]);
        if kind.is_v2() {
            v.extend([Op::YieldToChild(0), Op::YieldToChild(1), Op::YieldToParent, Op::VerifyParent, Op::AssertNextCall]);
            for b in 0..=nb {
                v.push(Op::YieldToParentBucket(b));
                v.push(Op::AssertBucket(b));
            }
            if nb > 0 {
                v.push(Op::YieldToChildBucket(0, nb - 1));
                v.push(Op::YieldToChildBucket(1, nb - 1));
            }
            for p in 0..=np {
                v.push(Op::YieldToParentProof(p));
            }
        }
        v
    }
}

// ---------------------------------------------------------------------------------------------------------------
// the real thing
// ---------------------------------------------------------------------------------------------------------------

fn instruction(op: Op) -> InstructionV2 {
    let bucket = |b: u32| custom(ManifestCustomValue::Bucket(ManifestBucket(b)));
    let proof = |p: u32| custom(ManifestCustomValue::Proof(ManifestProof(p)));
    let res = |r: u32| custom(ManifestCustomValue::AddressReservation(ManifestAddressReservation(r)));
    let call = |args: Vec<MV>| -> InstructionV2 { CallMethod { address: FAUCET.into(), method_name: "m".into(), args: tuple(args) }.into() };
    match op {
        Op::Take => TakeAllFromWorktop { resource_address: XRD }.into(),
        Op::Return(b) => ReturnToWorktop { bucket_id: ManifestBucket(b) }.into(),
        Op::Burn(b) => BurnResource { bucket_id: ManifestBucket(b) }.into(),
        Op::ProofFromBucket(b) => CreateProofFromBucketOfAll { bucket_id: ManifestBucket(b) }.into(),
        Op::ProofFromAuthZone => CreateProofFromAuthZoneOfAll { resource_address: XRD }.into(),
        Op::CloneProof(p) => CloneProof { proof_id: ManifestProof(p) }.into(),
        Op::DropProof(p) => DropProof { proof_id: ManifestProof(p) }.into(),
        Op::Push(p) => PushToAuthZone { proof_id: ManifestProof(p) }.into(),
        Op::Pop => PopFromAuthZone.into(),
        Op::DropAllProofs => DropAllProofs.into(),
        Op::DropNamedProofs => DropNamedProofs.into(),
        Op::DropAuthZoneProofs => DropAuthZoneProofs.into(),
        Op::CallPlain => call(vec![MV::U8 { value: 1 }]),
        Op::CallExpression => call(vec![custom(ManifestCustomValue::Expression(ManifestExpression::EntireWorktop))]),
        Op::CallBucket(b) => call(vec![bucket(b)]),
        Op::CallBucketTwice(b) => call(vec![bucket(b), MV::Array { element_value_kind: MVK::Custom(ManifestCustomValueKind::Bucket), elements: vec![bucket(b)] }]),
        Op::CallProof(p) => call(vec![proof(p)]),
        Op::CallReservation(r) => CallFunction { package_address: FAUCET_PACKAGE.into(), blueprint_name: "B".into(), function_name: "f".into(), args: tuple(vec![res(r)]) }.into(),
        Op::CallReservationTwice(r) => call(vec![res(r), MV::Enum { discriminator: 1, fields: vec![res(r)] }]),
        Op::CallNamedAddressArg(a) => call(vec![custom(ManifestCustomValue::Address(ManifestAddress::Named(ManifestNamedAddress(a))))]),
        Op::CallOnNamedAddress(a) => CallMethod { address: ManifestGlobalAddress::Named(ManifestNamedAddress(a)), method_name: "m".into(), args: unit() }.into(),
        Op::CallFunctionOnNamedPackage(a) => CallFunction { package_address: ManifestPackageAddress::Named(ManifestNamedAddress(a)), blueprint_name: "B".into(), function_name: "f".into(), args: unit() }.into(),
        Op::CallBlob(present) => call(vec![custom(ManifestCustomValue::Blob(ManifestBlobRef(hash(if present { BLOB_A } else { b"absent" as &[u8] }).0)))]),
        Op::Allocate => AllocateGlobalAddress { package_address: FAUCET_PACKAGE, blueprint_name: "B".into() }.into(),
        Op::YieldToChild(c) => YieldToChild { child_index: ManifestNamedIntentIndex(c), args: unit() }.into(),
        Op::YieldToChildBucket(c, b) => YieldToChild { child_index: ManifestNamedIntentIndex(c), args: tuple(vec![bucket(b)]) }.into(),
        Op::YieldToParent => YieldToParent { args: unit() }.into(),
        Op::YieldToParentBucket(b) => YieldToParent { args: tuple(vec![bucket(b)]) }.into(),
        Op::YieldToParentProof(p) => YieldToParent { args: tuple(vec![proof(p)]) }.into(),
        Op::VerifyParent => VerifyParent { access_rule: AccessRule::AllowAll }.into(),
        Op::AssertNextCall => AssertNextCallReturnsOnly { constraints: ManifestResourceConstraints::new() }.into(),
        Op::AssertBucket(b) => AssertBucketContents { bucket_id: ManifestBucket(b), constraint: ManifestResourceConstraint::NonZeroAmount }.into(),
    }
}

pub fn build(kind: Kind, ops: &[Op]) -> AnyManifest {
    let mut blobs: IndexMap<Hash, Vec<u8>> = Default::default();
    blobs.insert(hash(BLOB_A), BLOB_A.to_vec());
    let parts = Parts {
        kind,
        instructions: ops.iter().map(|o| instruction(*o)).collect(),
        blobs,
        children: if kind.is_v2() { vec![child_hash(0)] } else { vec![] },
        preallocated: if kind == Kind::SystemV1 {
            vec![PreAllocatedAddress { blueprint_id: BlueprintId { package_address: FAUCET_PACKAGE, blueprint_name: "Faucet".into() }, address: FAUCET.into() }]
        } else {
            vec![]
        },
        names: ManifestObjectNames::Unknown,
    };
    assemble(&parts).expect("alphabet only uses instructions the kind can express")
}

/// Events of the real interpreter, folded into its lifecycle state (used as the explorer's fingerprint).
#[derive(Default, Clone, Debug, PartialEq, Eq)]
struct RealState {
    buckets: Vec<bool>,
    proofs: Vec<(bool, Option<u32>)>,
    reservations: Vec<bool>,
    named: u32,
    intents: u32,
    pending_next_call: bool,
    last_effect_is_yield_to_parent: bool,
    finished: bool,
}

impl ManifestInterpretationVisitor for RealState {
    type Output = ManifestValidationError;
    fn on_new_bucket(&mut self, _d: OnNewBucket) -> ControlFlow<Self::Output> {
        self.buckets.push(true);
        ControlFlow::Continue(())
    }
    fn on_consume_bucket(&mut self, d: OnConsumeBucket) -> ControlFlow<Self::Output> {
        if let Some(b) = self.buckets.get_mut(d.bucket.0 as usize) {
            *b = false;
        }
        ControlFlow::Continue(())
    }
    fn on_new_proof(&mut self, d: OnNewProof) -> ControlFlow<Self::Output> {
        let parent = match d.state.source_amount.proof_kind() {
            ProofKind::BucketProof(b) => Some(b.0),
            ProofKind::AuthZoneProof => None,
        };
        self.proofs.push((true, parent));
        ControlFlow::Continue(())
    }
    fn on_consume_proof(&mut self, d: OnConsumeProof) -> ControlFlow<Self::Output> {
        if let Some(p) = self.proofs.get_mut(d.proof.0 as usize) {
            p.0 = false;
        }
        ControlFlow::Continue(())
    }
    fn on_new_address_reservation(&mut self, _d: OnNewAddressReservation) -> ControlFlow<Self::Output> {
        self.reservations.push(true);
        ControlFlow::Continue(())
    }
    fn on_consume_address_reservation(&mut self, d: OnConsumeAddressReservation) -> ControlFlow<Self::Output> {
        if let Some(r) = self.reservations.get_mut(d.address_reservation.0 as usize) {
            *r = false;
        }
        ControlFlow::Continue(())
    }
    fn on_new_named_address(&mut self, _d: OnNewNamedAddress) -> ControlFlow<Self::Output> {
        self.named += 1;
        ControlFlow::Continue(())
    }
    fn on_new_intent(&mut self, _d: OnNewIntent) -> ControlFlow<Self::Output> {
        self.intents += 1;
        ControlFlow::Continue(())
    }
    fn on_resource_assertion(&mut self, d: OnResourceAssertion) -> ControlFlow<Self::Output> {
        if matches!(d.assertion, ResourceAssertion::NextCall(_)) {
            self.pending_next_call = true;
        }
        ControlFlow::Continue(())
    }
    fn on_end_instruction(&mut self, d: OnEndInstruction) -> ControlFlow<Self::Output> {
        match d.effect {
            ManifestInstructionEffect::Invocation { kind, .. } => {
                self.pending_next_call = false;
                self.last_effect_is_yield_to_parent = matches!(kind, InvocationKind::YieldToParent);
            }
            ManifestInstructionEffect::ResourceAssertion { .. } => self.last_effect_is_yield_to_parent = false,
            _ => self.last_effect_is_yield_to_parent = false,
        }
        ControlFlow::Continue(())
    }
    fn on_finish(&mut self, _d: OnFinish) -> ControlFlow<Self::Output> {
        self.finished = true;
        ControlFlow::Continue(())
    }
}

fn is_end_only_error(e: &ManifestValidationError) -> bool {
    matches!(
        e,
        ManifestValidationError::DanglingBucket(..)
            | ManifestValidationError::DanglingAddressReservation(..)
            | ManifestValidationError::ManifestEndedWhilstExpectingNextCallAssertion
            | ManifestValidationError::SubintentDoesNotEndWithYieldToParent
    )
}

fn err_name(e: &ManifestValidationError) -> String {
    let s = format!("{e:?}");
    s.split(|c: char| !c.is_ascii_alphanumeric()).next().unwrap_or("?").to_string()
}

struct RealVerdict {
    result: Result<(), ManifestValidationError>,
    state: RealState,
}

fn run_real(kind: Kind, ops: &[Op], want_state: bool) -> Result<RealVerdict, String> {
    let any = build(kind, ops);
    mc_core::catch(|| {
        if want_state {
            let mut v = RealState::default();
            let r = crate::with_any!(&any, m => StaticManifestInterpreter::new(ValidationRuleset::all(), m).validate_and_apply_visitor(&mut v));
            RealVerdict { result: r, state: v }
        } else {
            let r = validate_any(&any, ValidationRuleset::all());
            RealVerdict { result: r, state: RealState::default() }
        }
    })
}

/// One step: `ops` already contains the new op as its last element; `model` is the model *before* the op.
/// Returns (class, extendable, model after, real state) or a violation.
fn step(kind: Kind, ops: &[Op], model: &Model, want_state: bool, l: &mut Local) -> Result<(String, bool, Model, RealState), (String, String)> {
    let op = *ops.last().unwrap();
    let real = match run_real(kind, ops, want_state) {
        Ok(r) => r,
        Err(p) => return Err((format!("validator-panic:{}", mc_core::last_panic_location().rsplit('/').next().unwrap_or("?")), format!("StaticManifestInterpreter panicked: {p}"))),
    };
    let mut m2 = model.clone();
    let model_step = m2.apply(op);
    let real_prefix_ok = match &real.result {
        Ok(()) => true,
        Err(e) => is_end_only_error(e),
    };
    if real_prefix_ok {
        if let Err(reason) = model_step {
            return Err((format!("accepted-but:{reason}"), format!("the static validator got past instruction #{} ({:?}) although the lifecycle forbids it: {reason}; validator result: {:?}", ops.len() - 1, op, real.result)));
        }
        if real.result.is_ok() {
            if let Err(reason) = m2.complete_ok() {
                return Err((format!("accepted-complete-but:{reason}"), format!("the static validator accepted the complete manifest although {reason}")));
            }
            // informational: things the statement does not mention but the validator is expected to enforce
            if m2.buckets.iter().any(|b| *b) {
                l.info("accepted-with-live-bucket-at-end");
            }
            if m2.reservations.iter().any(|b| *b) {
                l.info("accepted-with-live-reservation-at-end");
            }
            Ok(("prefix-ok:complete-ok".to_string(), true, m2, real.state))
        } else {
            let e = real.result.as_ref().unwrap_err();
            Ok((format!("prefix-ok:incomplete:{}", err_name(e)), true, m2, real.state))
        }
    } else {
        let e = real.result.as_ref().unwrap_err();
        match model_step {
            Err(reason) => Ok((format!("both-reject:{reason}"), false, m2, real.state)),
            Ok(()) => {
                l.info(&format!("converse:model-accepts:real-rejects:{}", err_name(e)));
                Ok((format!("real-rejects-only:{}", err_name(e)), false, m2, real.state))
            }
        }
    }
}

// ---------------------------------------------------------------------------------------------------------------
// phase 1: full tree, depth-first, parallel over the accepted prefixes of length 2
// ---------------------------------------------------------------------------------------------------------------

#[derive(Default)]
struct TreeStats {
    states: AtomicU64,
    transitions: AtomicU64,
    leaves_rejected: AtomicU64,
    alphabet_max: AtomicU64,
}

fn dfs(kind: Kind, ops: &mut Vec<Op>, model: &Model, max_depth: usize, l: &mut Local, st: &TreeStats, collect_at: Option<(usize, &mut Vec<(Vec<Op>, Model)>)>) {
    let alphabet = model.alphabet(kind);
    st.alphabet_max.fetch_max(alphabet.len() as u64, Ordering::Relaxed);
    let mut collect_at = collect_at;
    for op in alphabet {
        ops.push(op);
        st.transitions.fetch_add(1, Ordering::Relaxed);
        l.eval();
        match step(kind, ops, model, false, l) {
            Ok((class, extend, m2, _)) => {
                l.class(&class);
                if extend {
                    st.states.fetch_add(1, Ordering::Relaxed);
                    if ops.len() < max_depth {
                        match &mut collect_at {
                            Some((d, out)) if ops.len() == *d => out.push((ops.clone(), m2)),
                            Some((d, out)) => dfs(kind, ops, &m2, max_depth, l, st, Some((*d, out))),
                            None => dfs(kind, ops, &m2, max_depth, l, st, None),
                        }
                    }
                } else {
                    st.leaves_rejected.fetch_add(1, Ordering::Relaxed);
                }
            }
            Err((key, what)) => {
                let hist: Vec<String> = ops.iter().map(|o| format!("{o:?}")).collect();
                MIN.record(l, key, what, ops.len(), format!("{}|{:?}", kind.name(), ops), json!({"kind": kind.name(), "history": hist, "ops": ops_to_json(ops)}));
            }
        }
        ops.pop();
    }
}

fn ops_to_json(ops: &[Op]) -> serde_json::Value {
    json!(ops.iter().map(|o| format!("{o:?}")).collect::<Vec<_>>())
}

fn parse_op(s: &str) -> Option<Op> {
    let (name, args) = match s.find('(') {
        Some(i) => (&s[..i], s[i + 1..s.len() - 1].split(',').map(|x| x.trim().to_string()).collect::<Vec<_>>()),
        None => (s, vec![]),
    };
    let n = |i: usize| -> Option<u32> { args.get(i)?.parse().ok() };
    Some(match name {
        "Take" => Op::Take,
        "Return" => Op::Return(n(0)?),
        "Burn" => Op::Burn(n(0)?),
        "ProofFromBucket" => Op::ProofFromBucket(n(0)?),
        "ProofFromAuthZone" => Op::ProofFromAuthZone,
        "CloneProof" => Op::CloneProof(n(0)?),
        "DropProof" => Op::DropProof(n(0)?),
        "Push" => Op::Push(n(0)?),
        "Pop" => Op::Pop,
        "DropAllProofs" => Op::DropAllProofs,
        "DropNamedProofs" => Op::DropNamedProofs,
        "DropAuthZoneProofs" => Op::DropAuthZoneProofs,
        "CallPlain" => Op::CallPlain,
        "CallExpression" => Op::CallExpression,
        "CallBucket" => Op::CallBucket(n(0)?),
        "CallBucketTwice" => Op::CallBucketTwice(n(0)?),
        "CallProof" => Op::CallProof(n(0)?),
        "CallReservation" => Op::CallReservation(n(0)?),
        "CallReservationTwice" => Op::CallReservationTwice(n(0)?),
        "CallNamedAddressArg" => Op::CallNamedAddressArg(n(0)?),
        "CallOnNamedAddress" => Op::CallOnNamedAddress(n(0)?),
        "CallFunctionOnNamedPackage" => Op::CallFunctionOnNamedPackage(n(0)?),
        "CallBlob" => Op::CallBlob(args.first()? == "true"),
        "Allocate" => Op::Allocate,
        "YieldToChild" => Op::YieldToChild(n(0)?),
        "YieldToChildBucket" => Op::YieldToChildBucket(n(0)?, n(1)?),
        "YieldToParent" => Op::YieldToParent,
        "YieldToParentBucket" => Op::YieldToParentBucket(n(0)?),
        "YieldToParentProof" => Op::YieldToParentProof(n(0)?),
        "VerifyParent" => Op::VerifyParent,
        "AssertNextCall" => Op::AssertNextCall,
        "AssertBucket" => Op::AssertBucket(n(0)?),
        _ => return None,
    })
}

// ---------------------------------------------------------------------------------------------------------------
// phase 2: BFS with de-duplication on the real interpreter's state
// ---------------------------------------------------------------------------------------------------------------

struct Lifecycle {
    kind: Kind,
}

struct LSt {
    ops: Vec<Op>,
    model: Model,
    real: RealState,
    dead: bool,
}

impl Machine for Lifecycle {
    type Op = Op;
    type St = LSt;
    fn init(&self) -> LSt {
        let real = run_real(self.kind, &[], true).map(|r| r.state).unwrap_or_default();
        LSt { ops: vec![], model: Model::new(self.kind), real, dead: false }
    }
    fn ops(&self, st: &LSt, _depth: usize) -> Vec<Op> {
        st.model.alphabet(self.kind)
    }
    fn step(&self, st: &mut LSt, op: &Op) -> Result<String, (String, String)> {
        st.ops.push(*op);
        let mut l = Local::new();
        let (class, extend, m2, real) = step(self.kind, &st.ops, &st.model, true, &mut l)?;
        st.model = m2;
        st.real = real;
        st.dead = !extend;
        Ok(class)
    }
    fn fingerprint(&self, st: &LSt) -> Vec<u8> {
        if st.dead {
            // rejected prefixes are leaves; they all collapse into one sink per kind
            return vec![0xFF];
        }
        let r = &st.real;
        let mut v = vec![];
        v.push(r.buckets.len() as u8);
        v.extend(r.buckets.iter().map(|b| *b as u8));
        v.push(r.proofs.len() as u8);
        for (live, parent) in &r.proofs {
            v.push(*live as u8);
            v.push(parent.map(|p| p as u8 + 1).unwrap_or(0));
        }
        v.push(r.reservations.len() as u8);
        v.extend(r.reservations.iter().map(|b| *b as u8));
        v.push(r.named as u8);
        v.push(r.intents as u8);
        v.push(r.pending_next_call as u8);
        v.push(r.last_effect_is_yield_to_parent as u8);
        v.push((st.ops.is_empty()) as u8);
        v
    }
    fn fork(&self, st: &LSt) -> Option<LSt> {
        Some(LSt { ops: st.ops.clone(), model: st.model.clone(), real: st.real.clone(), dead: st.dead })
    }
    fn terminal(&self, st: &LSt) -> bool {
        st.dead
    }
}

// ---------------------------------------------------------------------------------------------------------------

pub fn run(ctx: Ctx) -> ! {
    if let Some(case) = ctx.read_replay_case() {
        let kind = match case.get("kind").and_then(|k| k.as_str()).unwrap_or("V1") {
            "SystemV1" => Kind::SystemV1,
            "V2" => Kind::V2,
            "SubintentV2" => Kind::SubintentV2,
            _ => Kind::V1,
        };
        let ops: Vec<Op> = case.get("ops").and_then(|o| o.as_array()).map(|a| a.iter().filter_map(|x| x.as_str().and_then(parse_op)).collect()).unwrap_or_else(|| {
            // phase-2 violations carry "history" (Debug strings) only
            case.get("history").and_then(|o| o.as_array()).map(|a| a.iter().filter_map(|x| x.as_str().and_then(parse_op)).collect()).unwrap_or_default()
        });
        println!("replaying {} history {:?}", kind.name(), ops);
        let mut l = Local::new();
        let mut model = Model::new(kind);
        for i in 0..ops.len() {
            match step(kind, &ops[..=i], &model, true, &mut l) {
                Ok((class, extend, m2, real)) => {
                    println!("  step {i} {:?}: {class} (extendable={extend}) real-state={:?}", ops[i], real);
                    model = m2;
                }
                Err((key, what)) => {
                    println!("  step {i} {:?}: VIOLATION {key}: {what}", ops[i]);
                    l.violation(key, what, case.clone());
                    break;
                }
            }
        }
        ctx.merge(l);
        ctx.finish(Level::ModelChecking, "replay", 0, false, Map::new(), &[]);
    }

    let depth1_default = std::env::var("MC_TX_C36_DEPTH1").ok().and_then(|x| x.parse().ok()).unwrap_or(ctx.pick(5usize, 6usize));
    let mut cov = Map::new();
    let st = TreeStats::default();
    let mut per_kind = vec![];
    for kind in KINDS {
        // thorough: one level deeper for plain V1 transaction manifests (the other kinds' trees are 1.4-4x larger)
        let depth1 = if !ctx.quick() && kind == Kind::V1 { depth1_default + 1 } else { depth1_default };
        let s0 = (st.states.load(Ordering::Relaxed), st.transitions.load(Ordering::Relaxed));
        // the root: empty manifest
        {
            let mut l = Local::new();
            let real = run_real(kind, &[], false).unwrap_or_else(|p| mc_core::machinery_error(&format!("validator panicked on the empty manifest: {p}")));
            let m = Model::new(kind);
            l.eval();
            match (&real.result, m.complete_ok()) {
                (Ok(()), Err(reason)) => MIN.record(&mut l, format!("accepted-complete-but:{reason}"), "empty manifest accepted", 0, kind.name(), json!({"kind": kind.name(), "ops": []})),
                (Ok(()), Ok(())) => l.class("prefix-ok:complete-ok"),
                (Err(e), _) => l.class(&format!("prefix-ok:incomplete:{}", err_name(e))),
            }
            ctx.merge(l);
            st.states.fetch_add(1, Ordering::Relaxed);
        }
        // collect accepted prefixes of length 2 sequentially, then fan out
        let mut l = Local::new();
        let mut seeds: Vec<(Vec<Op>, Model)> = vec![];
        let split = 2.min(depth1 - 1);
        dfs(kind, &mut vec![], &Model::new(kind), depth1, &mut l, &st, Some((split, &mut seeds)));
        ctx.merge(l);
        par_for(&ctx, &seeds, |(ops, model), l| {
            let mut o = ops.clone();
            dfs(kind, &mut o, model, depth1, l, &st, None);
        });
        let s1 = (st.states.load(Ordering::Relaxed), st.transitions.load(Ordering::Relaxed));
        per_kind.push(json!({"kind": kind.name(), "max_depth": depth1, "accepted_prefixes": s1.0 - s0.0, "transitions": s1.1 - s0.1}));
        eprintln!("[C36] phase 1 {} done at {:.1}s: {} states {} transitions", kind.name(), ctx.elapsed_s(), s1.0 - s0.0, s1.1 - s0.1);
    }
    let p1_states = st.states.load(Ordering::Relaxed);
    let p1_transitions = st.transitions.load(Ordering::Relaxed);
    cov.insert("phase1_full_tree".into(), json!({"max_depth": depth1_default, "states_are": "distinct accepted histories (no de-duplication)", "per_kind": per_kind, "rejected_leaves": st.leaves_rejected.load(Ordering::Relaxed)}));

    // phase 2
    let depth2 = ctx.pick(7usize, 10usize);
    let (cap_states, cap_wall) = ctx.pick((60_000u64, 10.0f64), (1_500_000u64, 120.0f64));
    let mut total = BfsStats::default();
    let mut p2 = vec![];
    for kind in KINDS {
        let m = Lifecycle { kind };
        let s = bfs(&ctx, &m, kind.name(), depth2, cap_states, cap_wall);
        p2.push(json!({"kind": kind.name(), "states": s.states, "transitions": s.transitions, "depth_completed": s.depth_completed, "capped": s.capped}));
        eprintln!("[C36] phase 2 {} done at {:.1}s: {} states {} transitions depth {} capped {}", kind.name(), ctx.elapsed_s(), s.states, s.transitions, s.depth_completed, s.capped);
        total.add(&s);
    }
    cov.insert("phase2_dedup_bfs".into(), json!({"max_depth": depth2, "fingerprint": "real interpreter lifecycle state reconstructed from its visitor events", "per_kind": p2, "caps_hit": total.capped, "depth_completed_min": total.depth_completed}));

    MIN.flush(&ctx);
    cov.insert("states".into(), json!(p1_states + total.states));
    cov.insert("transitions".into(), json!(p1_transitions + total.transitions));
    cov.insert("traces_validated_against_impl".into(), json!(p1_transitions + total.transitions));
    cov.insert("max_depth".into(), json!(depth2.max(depth1_default + 1)));
    cov.insert("alphabet_max".into(), json!(st.alphabet_max.load(Ordering::Relaxed)));
    let exhaustive_note = format!("phase 1 exhaustive to depth {depth1_default} (V1: +1 in thorough); phase 2 {} to depth {}", if total.capped { "capped" } else { "exhaustive (modulo fingerprint)" }, total.depth_completed);
    ctx.note(exhaustive_note);
    ctx.finish(
        Level::ModelChecking,
        "a case = one transition: a history extended by one instruction, validated by the real StaticManifestInterpreter as a complete manifest and compared with the reference lifecycle model; non-trivial = distinct accepted histories of phase 1 (prefixes the real validator gets through)",
        p1_states,
        true,
        cov,
        &[
            "Oracle A only (static half); the run-time half (Oracle B) lives in mc-engine",
            "one-directional oracle as the statement: accepted => lifecycle-correct; locks, dangling buckets, kind restrictions are counted as converse/informational",
            "fixed header per kind: SystemV1 has one preallocated reservation, V2 kinds declare one child, blob A is registered",
        ],
    )
}
