//! C34 — transaction validation enforces exactly the configured limits.
//!
//! Real V1 / V2 notarized transactions are assembled from a plain-data `TxSpec` (txseeds.rs), correctly signed, and
//! pushed through `RawNotarizedTransaction::validate` (prepare with the configuration's preparation settings, then
//! validate) under every validation configuration in use (babylon, cuttlefish = latest) plus one configuration with
//! small limits (so that the limits that are `usize::MAX` or huge in the real ones also get a lim-1/lim/lim+1 sweep).
//!
//! Enumerated: for every configuration x {V1, V2}: every dimension singly at {lim-1, lim, lim+1} ({min-1, min, min+1}
//! for minima, plus extremes) and ALL PAIRS of dimension values (thorough: also all triples under the small
//! configuration and, without the heavyweight values, under cuttlefish). Dimensions: network id (root / subintent), epoch window (root / subintent; empty, length max-1,
//! max, max+1, start > end, near u64::MAX), tip (percentage / basis points), nonce / discriminator, plaintext message
//! (mime length, content length as String and Bytes), encrypted message (payload length, number of decryptors on one
//! curve / split over both, empty curve entries, curve filed under the wrong key), instruction count, references per
//! intent and in total, blob count, payload size, signatures per intent, total signature validations, subintent count,
//! children per intent, subintent depth, proposer-timestamp presence/order, notary-is-signatory.
//! V2 overall window: for all tuples of <= 3 intents over epoch windows {[1,5),[3,8),[5,9),[8,9)} x timestamp windows
//! {none,[10,50),[30,80),[50,90),[80,90),[30,..),(..,50)}: reported overall range == intersection, accepted <=> non-empty.
//!
//! Oracle: `reference()` below — written from the documented meaning of the configuration fields; accept <=> predicate.
//! Not decided by the statement (informational): encrypted message with no decryptor entry / an empty entry; a window
//! whose `start + max_epoch_range` does not fit in u64.
use crate::txseeds::*;
use mc_core::{catch, par_range, Ctx, Level, Local};
use radix_common::prelude::*;
use radix_transactions::errors::*;
use radix_transactions::model::*;
use radix_transactions::validation::*;
use serde_json::{json, Map, Value};
use std::sync::atomic::{AtomicU64, Ordering};

// ------------------------------------------------------------------------------------------------
// configurations
// ------------------------------------------------------------------------------------------------

pub fn small_config() -> TransactionValidationConfig {
    let mut c = TransactionValidationConfig::cuttlefish();
    c.max_signer_signatures_per_intent = 2;
    c.max_references_per_intent = 3;
    c.min_tip_percentage = 5;
    c.max_tip_percentage = 10;
    c.max_epoch_range = 7;
    c.max_instructions = 6;
    c.message_validation = MessageValidationConfig { max_plaintext_message_length: 5, max_encrypted_message_length: 6, max_mime_type_length: 4, max_decryptors: 3 };
    c.preparation_settings.max_user_payload_length = 4000;
    c.preparation_settings.max_child_subintents_per_intent = 2;
    c.preparation_settings.max_subintents_per_transaction = 5;
    c.preparation_settings.max_blobs = 2;
    c.min_tip_basis_points = 5;
    c.max_tip_basis_points = 10;
    c.max_subintent_depth = 2;
    c.max_total_signature_validations = 4;
    c.max_total_references = 4;
    c
}

fn configs() -> Vec<(&'static str, TransactionValidationConfig)> {
    assert!(TransactionValidationConfig::latest() == TransactionValidationConfig::cuttlefish());
    vec![("babylon", TransactionValidationConfig::babylon()), ("cuttlefish", TransactionValidationConfig::cuttlefish()), ("small", small_config())]
}

// ------------------------------------------------------------------------------------------------
// reference predicate
// ------------------------------------------------------------------------------------------------

#[derive(Debug, Clone, PartialEq, Eq)]
enum Verdict {
    Accept,
    Reject(&'static str),
    Undecided(&'static str),
}

#[derive(Debug, Clone, PartialEq, Eq)]
struct RefRange {
    start: u64,
    end: u64,
    ts_start: Option<i64>,
    ts_end: Option<i64>,
}

fn intersection(spec: &TxSpec) -> RefRange {
    let all: Vec<&IntentSpec> = std::iter::once(&spec.root).chain(spec.subs.iter()).collect();
    RefRange {
        start: all.iter().map(|i| i.start).max().unwrap(),
        end: all.iter().map(|i| i.end).min().unwrap(),
        ts_start: all.iter().filter_map(|i| i.min_ts).max(),
        ts_end: all.iter().filter_map(|i| i.max_ts).min(),
    }
}

fn reference(c: &TransactionValidationConfig, required_network: Option<u8>, spec: &TxSpec, payload_len: usize) -> Verdict {
    let mut undecided: Option<&'static str> = None;
    let m = &c.message_validation;
    let p = &c.preparation_settings;
    if spec.v2 && !(c.v2_transactions_allowed && p.v2_transactions_permitted) {
        return Verdict::Reject("v2-not-enabled");
    }
    if payload_len > p.max_user_payload_length {
        return Verdict::Reject("payload-too-large");
    }
    if !spec.v2 && !spec.subs.is_empty() {
        unreachable!("V1 specs have no subintents");
    }
    let intents: Vec<(&IntentSpec, bool)> = std::iter::once((&spec.root, false)).chain(spec.subs.iter().map(|s| (s, true))).collect();
    for (i, is_sub) in &intents {
        if let Some(req) = required_network {
            if i.network_id != req {
                return Verdict::Reject("network-mismatch");
            }
        }
        if i.end <= i.start {
            return Verdict::Reject("empty-epoch-window");
        }
        if i.end - i.start > c.max_epoch_range {
            return Verdict::Reject("epoch-window-too-long");
        }
        if i.start.checked_add(c.max_epoch_range).is_none() {
            undecided = Some("start-epoch-plus-max-range-exceeds-u64");
        }
        if spec.v2 {
            if let (Some(a), Some(b)) = (i.min_ts, i.max_ts) {
                if a >= b {
                    return Verdict::Reject("empty-timestamp-window");
                }
            }
        }
        match &i.message {
            MsgSpec::None => {}
            MsgSpec::Plain { mime_len, len, .. } => {
                if *mime_len > m.max_mime_type_length {
                    return Verdict::Reject("mime-type-too-long");
                }
                if *len > m.max_plaintext_message_length {
                    return Verdict::Reject("plaintext-message-too-long");
                }
            }
            MsgSpec::Enc { len, ed, secp, swap_curves } => {
                if *len > m.max_encrypted_message_length {
                    return Verdict::Reject("encrypted-message-too-long");
                }
                if ed.unwrap_or(0) + secp.unwrap_or(0) > m.max_decryptors {
                    return Verdict::Reject("too-many-decryptors");
                }
                if *swap_curves && (ed.is_some() || secp.is_some()) {
                    // model doc: "The engine should validate each DecryptorsByCurve matches the CurveType"
                    return Verdict::Reject("decryptors-filed-under-wrong-curve");
                }
                if (ed.is_none() && secp.is_none()) || *ed == Some(0) || *secp == Some(0) {
                    undecided = Some("encrypted-message-without-decryptors");
                }
            }
        }
        if i.instruction_count(*is_sub) > c.max_instructions {
            return Verdict::Reject("too-many-instructions");
        }
        if i.refs > c.max_references_per_intent {
            return Verdict::Reject("too-many-references-in-intent");
        }
        let blobs = i.blobs + if !*is_sub && spec.pad_payload_to.is_some() { 1 } else { 0 };
        if blobs > p.max_blobs {
            return Verdict::Reject("too-many-blobs");
        }
        if i.signers.len() > c.max_signer_signatures_per_intent {
            return Verdict::Reject("too-many-signatures-in-intent");
        }
        if i.children.len() > p.max_child_subintents_per_intent {
            return Verdict::Reject("too-many-children-in-intent");
        }
    }
    if spec.v2 {
        if spec.tip < c.min_tip_basis_points || spec.tip > c.max_tip_basis_points {
            return Verdict::Reject("tip-basis-points-out-of-range");
        }
    } else if (spec.tip as u16) < c.min_tip_percentage || (spec.tip as u16) > c.max_tip_percentage {
        return Verdict::Reject("tip-percentage-out-of-range");
    }
    let total_refs: usize = intents.iter().map(|(i, _)| i.refs).sum();
    if total_refs > c.max_total_references {
        return Verdict::Reject("too-many-references-in-total");
    }
    let total_validations: usize = 1 + intents.iter().map(|(i, _)| i.signers.len()).sum::<usize>();
    if total_validations > c.max_total_signature_validations {
        return Verdict::Reject("too-many-signature-validations");
    }
    if spec.subs.len() > p.max_subintents_per_transaction {
        return Verdict::Reject("too-many-subintents");
    }
    for s in 0..spec.subs.len() {
        match spec.depth_of(s) {
            None => return Verdict::Reject("subintent-not-attached"),
            Some(d) if d > c.max_subintent_depth => return Verdict::Reject("subintent-too-deep"),
            _ => {}
        }
    }
    if spec.v2 {
        let r = intersection(spec);
        if r.start >= r.end {
            return Verdict::Reject("overall-epoch-window-empty");
        }
        if let (Some(a), Some(b)) = (r.ts_start, r.ts_end) {
            if a >= b {
                return Verdict::Reject("overall-timestamp-window-empty");
            }
        }
    }
    match undecided {
        Some(u) => Verdict::Undecided(u),
        None => Verdict::Accept,
    }
}

// ------------------------------------------------------------------------------------------------
// dimensions
// ------------------------------------------------------------------------------------------------

type Setter = Box<dyn Fn(&mut TxSpec) + Sync + Send>;
struct Setting {
    dim: usize,
    label: String,
    f: Setter,
}

fn key_for(intent_tag: usize, i: usize) -> KeyId {
    let n = (intent_tag * 100 + i + 1) as u64;
    if i % 3 == 2 {
        KeyId::Ed(n)
    } else {
        KeyId::Secp(n)
    }
}

/// keep existing subintent specs, make exactly n of them, detach everything, then attach via `parent(i)` (None = root)
fn reshape(spec: &mut TxSpec, n: usize, parent: impl Fn(usize) -> Option<usize>) {
    while spec.subs.len() < n {
        let tag = spec.subs.len() as u32 + 1;
        spec.subs.push(IntentSpec::base(tag));
    }
    spec.subs.truncate(n);
    spec.root.children.clear();
    for s in spec.subs.iter_mut() {
        s.children.clear();
    }
    for i in 0..n {
        match parent(i) {
            None => spec.root.children.push(i),
            Some(p) => spec.subs[p].children.push(i),
        }
    }
}

/// at least k subintents; new ones become children of the root
fn ensure_subs(spec: &mut TxSpec, k: usize) {
    while spec.subs.len() < k {
        let i = spec.subs.len();
        spec.subs.push(IntentSpec::base(i as u32 + 1));
        spec.root.children.push(i);
    }
}

fn around(lim: u128, type_max: u128) -> Vec<u128> {
    let mut v = vec![];
    for x in [lim.checked_sub(1), Some(lim), lim.checked_add(1)].into_iter().flatten() {
        if x <= type_max && !v.contains(&x) {
            v.push(x);
        }
    }
    v
}

/// the base transaction is within every limit of `c` (tip at the configured minimum, 5-epoch windows)
fn base_spec(v2: bool, c: &TransactionValidationConfig) -> TxSpec {
    let mut s = TxSpec::base(v2);
    s.tip = if v2 { c.min_tip_basis_points } else { c.min_tip_percentage as u32 };
    if v2 {
        ensure_subs(&mut s, 1);
    }
    s
}

fn settings_for(c: &TransactionValidationConfig, v2: bool, extra_values: bool) -> (Vec<&'static str>, Vec<Setting>) {
    let mut dims: Vec<&'static str> = vec![];
    let mut out: Vec<Setting> = vec![];
    let c = *c;
    macro_rules! dim {
        ($name:expr) => {{
            dims.push($name);
            dims.len() - 1
        }};
    }
    macro_rules! set {
        ($d:expr, $label:expr, $f:expr) => {
            out.push(Setting { dim: $d, label: format!("{}={}", dims[$d], $label), f: Box::new($f) })
        };
    }
    let usz = |x: u128| -> usize { x as usize };
    // which intents a per-intent dimension is applied to
    let targets: Vec<(&'static str, Option<usize>)> = if v2 { vec![("root", None), ("sub0", Some(0))] } else { vec![("root", None)] };
    fn on<'a>(spec: &'a mut TxSpec, t: Option<usize>) -> &'a mut IntentSpec {
        match t {
            None => &mut spec.root,
            Some(i) => {
                ensure_subs(spec, i + 1);
                &mut spec.subs[i]
            }
        }
    }

    // network id
    for (tn, t) in targets.clone() {
        let d = dim!(if t.is_none() { "network@root" } else { "network@sub0" });
        for n in [NETWORK - 1, NETWORK, NETWORK + 1] {
            set!(d, format!("{n:#x}"), move |s: &mut TxSpec| on(s, t).network_id = n);
        }
        let _ = tn;
    }
    // epoch window
    let max = c.max_epoch_range;
    for (_, t) in targets.clone() {
        let d = dim!(if t.is_none() { "epochs@root" } else { "epochs@sub0" });
        let s0 = 10u64;
        let mut wins: Vec<(u64, u64)> = vec![(s0, s0 - 1), (s0, s0), (s0, s0 + 1), (s0, s0 + max - 1), (s0, s0 + max), (s0, s0 + max + 1), (0, max), (0, max + 1)];
        wins.push((u64::MAX - max, u64::MAX)); // longest window that still fits
        wins.push((u64::MAX - max + 1, u64::MAX)); // shorter, but start + max overflows
        wins.push((u64::MAX, u64::MAX));
        wins.push((u64::MAX, 0));
        if extra_values {
            wins.extend([(s0, s0 + 2), (s0, s0 + max - 2), (s0, s0 + max + 2), (s0, u64::MAX), (u64::MAX - 1, u64::MAX)]);
        }
        for (a, b) in wins {
            set!(d, format!("[{a},{b})"), move |s: &mut TxSpec| {
                let i = on(s, t);
                i.start = a;
                i.end = b;
            });
        }
    }
    // tip
    {
        let d = dim!("tip");
        let (min, max, tmax) = if v2 { (c.min_tip_basis_points as u128, c.max_tip_basis_points as u128, u32::MAX as u128) } else { (c.min_tip_percentage as u128, c.max_tip_percentage as u128, u16::MAX as u128) };
        let mut vals = around(min, tmax);
        for x in around(max, tmax).into_iter().chain([0, tmax]) {
            if !vals.contains(&x) {
                vals.push(x);
            }
        }
        for x in vals {
            set!(d, x, move |s: &mut TxSpec| s.tip = x as u32);
        }
    }
    // nonce / discriminator (no limit: every value must be fine)
    {
        let d = dim!("discriminator");
        for x in [0u64, 1, u32::MAX as u64, u64::MAX] {
            set!(d, x, move |s: &mut TxSpec| s.root.discriminator = x);
        }
    }
    // messages
    let mv = c.message_validation;
    for (_, t) in targets.clone() {
        let d = dim!(if t.is_none() { "message@root" } else { "message@sub0" });
        for x in around(mv.max_mime_type_length as u128, 1 << 22) {
            set!(d, format!("plain:mime={x}"), move |s: &mut TxSpec| on(s, t).message = MsgSpec::Plain { mime_len: usz(x), bytes: false, len: 1 });
        }
        for x in around(mv.max_plaintext_message_length as u128, 1 << 22) {
            for bytes in [false, true] {
                set!(d, format!("plain:{}={x}", if bytes { "bytes" } else { "string" }), move |s: &mut TxSpec| on(s, t).message = MsgSpec::Plain { mime_len: 1, bytes, len: usz(x) });
            }
        }
        for x in around(mv.max_encrypted_message_length as u128, 1 << 22) {
            set!(d, format!("enc:len={x}"), move |s: &mut TxSpec| on(s, t).message = MsgSpec::Enc { len: usz(x), ed: Some(1), secp: None, swap_curves: false });
        }
        for x in around(mv.max_decryptors as u128, 1 << 16) {
            let x = usz(x);
            set!(d, format!("enc:ed={x}"), move |s: &mut TxSpec| on(s, t).message = MsgSpec::Enc { len: 1, ed: Some(x), secp: None, swap_curves: false });
            set!(d, format!("enc:secp={x}"), move |s: &mut TxSpec| on(s, t).message = MsgSpec::Enc { len: 1, ed: None, secp: Some(x), swap_curves: false });
            if x >= 2 {
                set!(d, format!("enc:ed=1,secp={}", x - 1), move |s: &mut TxSpec| on(s, t).message = MsgSpec::Enc { len: 1, ed: Some(1), secp: Some(x - 1), swap_curves: false });
            }
        }
        set!(d, "enc:swapped-curves", move |s: &mut TxSpec| on(s, t).message = MsgSpec::Enc { len: 1, ed: Some(1), secp: None, swap_curves: true });
        set!(d, "enc:both-swapped", move |s: &mut TxSpec| on(s, t).message = MsgSpec::Enc { len: 1, ed: Some(1), secp: Some(1), swap_curves: true });
        set!(d, "enc:no-entries", move |s: &mut TxSpec| on(s, t).message = MsgSpec::Enc { len: 1, ed: None, secp: None, swap_curves: false });
        set!(d, "enc:ed=0", move |s: &mut TxSpec| on(s, t).message = MsgSpec::Enc { len: 1, ed: Some(0), secp: Some(1), swap_curves: false });
    }
    // instruction count
    for (_, t) in targets.clone() {
        let d = dim!(if t.is_none() { "instructions@root" } else { "instructions@sub0" });
        let vals = if c.max_instructions == usize::MAX { vec![0u128, 1, 2000] } else { around(c.max_instructions as u128, 1 << 20) };
        for x in vals {
            set!(d, x, move |s: &mut TxSpec| on(s, t).target_instructions = Some(usz(x)));
        }
    }
    // references per intent
    for (_, t) in targets.clone() {
        let d = dim!(if t.is_none() { "references@root" } else { "references@sub0" });
        let vals = if c.max_references_per_intent == usize::MAX { vec![0u128, 600] } else { around(c.max_references_per_intent as u128, 1 << 20) };
        for x in vals {
            set!(d, x, move |s: &mut TxSpec| on(s, t).refs = usz(x));
        }
    }
    // references in total (V2: root + sub0)
    if v2 && c.max_total_references != usize::MAX {
        let d = dim!("references-total");
        let per = c.max_references_per_intent;
        for x in around(c.max_total_references as u128, 1 << 20) {
            let x = usz(x);
            let r0 = (x / 2).min(per);
            let r1 = x - r0;
            set!(d, format!("{r0}+{r1}"), move |s: &mut TxSpec| {
                s.root.refs = r0;
                on(s, Some(0)).refs = r1;
            });
        }
    }
    // blobs
    for (_, t) in targets.clone() {
        let d = dim!(if t.is_none() { "blobs@root" } else { "blobs@sub0" });
        for x in around(c.preparation_settings.max_blobs as u128, 1 << 16) {
            set!(d, x, move |s: &mut TxSpec| on(s, t).blobs = usz(x));
        }
    }
    // payload size
    {
        let d = dim!("payload-bytes");
        for x in around(c.preparation_settings.max_user_payload_length as u128, 1 << 30) {
            set!(d, x, move |s: &mut TxSpec| s.pad_payload_to = Some(usz(x)));
        }
    }
    // signatures per intent
    for (_, t) in targets.clone() {
        let d = dim!(if t.is_none() { "signatures@root" } else { "signatures@sub0" });
        let mut vals = around(c.max_signer_signatures_per_intent as u128, 1 << 10);
        vals.push(0);
        for x in vals {
            let tag = t.map(|i| i + 1).unwrap_or(0);
            set!(d, x, move |s: &mut TxSpec| on(s, t).signers = (0..usz(x)).map(|i| key_for(tag, i)).collect());
        }
    }
    // signature validations in total (notary + all intents)
    if c.max_total_signature_validations != usize::MAX {
        let d = dim!("signature-validations-total");
        let per = c.max_signer_signatures_per_intent;
        for x in around(c.max_total_signature_validations as u128, 1 << 12) {
            let x = usz(x);
            set!(d, x, move |s: &mut TxSpec| {
                let keys = |tag: usize, n: usize| -> Vec<KeyId> { (0..n).map(|i| key_for(tag, i)).collect() };
                let mut left = x.saturating_sub(1); // one validation is the notary's
                let take = if s.v2 { left.min(per) } else { left };
                s.root.signers = keys(0, take);
                left -= take;
                let mut k = 0usize;
                while left > 0 {
                    let take = left.min(per.max(1));
                    on(s, Some(k)).signers = keys(k + 1, take);
                    left -= take;
                    k += 1;
                }
                for j in k..s.subs.len() {
                    s.subs[j].signers.clear();
                }
            });
        }
    }
    if v2 {
        let ps = c.preparation_settings;
        // subintent count: fill intents breadth first with at most max_children each
        if ps.max_subintents_per_transaction < 1000 {
            let d = dim!("subintents");
            let cap = ps.max_child_subintents_per_intent.max(1);
            for x in around(ps.max_subintents_per_transaction as u128, 1 << 10) {
                set!(d, x, move |s: &mut TxSpec| reshape(s, usz(x), |i| if i < cap { None } else { Some(i / cap - 1) }));
            }
            let d = dim!("children@root");
            for x in around(ps.max_child_subintents_per_intent as u128, 1 << 10) {
                set!(d, x, move |s: &mut TxSpec| reshape(s, usz(x), |_| None));
            }
        }
        // depth: a chain
        if c.max_subintent_depth < 100 {
            let d = dim!("depth");
            for x in around(c.max_subintent_depth as u128, 1 << 10) {
                set!(d, x, move |s: &mut TxSpec| reshape(s, usz(x), |i| if i == 0 { None } else { Some(i - 1) }));
            }
        }
        // proposer timestamps
        for (_, t) in targets.clone() {
            let d = dim!(if t.is_none() { "timestamps@root" } else { "timestamps@sub0" });
            let vals: Vec<(Option<i64>, Option<i64>)> =
                vec![(None, None), (Some(5), None), (None, Some(5)), (Some(5), Some(6)), (Some(5), Some(5)), (Some(6), Some(5)), (Some(i64::MIN), Some(i64::MAX)), (Some(i64::MAX), Some(i64::MIN))];
            for (a, b) in vals {
                set!(d, format!("{a:?}..{b:?}"), move |s: &mut TxSpec| {
                    let i = on(s, t);
                    i.min_ts = a;
                    i.max_ts = b;
                });
            }
        }
    }
    {
        let d = dim!("notary-is-signatory");
        for x in [false, true] {
            set!(d, x, move |s: &mut TxSpec| s.notary_is_signatory = x);
        }
    }
    (dims, out)
}

// ------------------------------------------------------------------------------------------------
// running one case
// ------------------------------------------------------------------------------------------------

fn variant_name(dbg: String) -> String {
    dbg.split(|ch: char| ch == '(' || ch == '{' || ch == ' ').next().unwrap_or("").to_string()
}

fn err_label(e: &TransactionValidationError) -> String {
    match e {
        TransactionValidationError::TransactionVersionNotPermitted(v) => format!("rejected:version-{v}-not-permitted"),
        TransactionValidationError::TransactionTooLarge => "rejected:too-large".into(),
        TransactionValidationError::EncodeError(_) => "rejected:encode-error".into(),
        TransactionValidationError::PrepareError(p) => format!("rejected:prepare:{}", variant_name(format!("{p:?}"))),
        TransactionValidationError::SubintentStructureError(_, s) => format!("rejected:structure:{}", variant_name(format!("{s:?}"))),
        TransactionValidationError::IntentValidationError(_, i) => match i {
            IntentValidationError::HeaderValidationError(h) => format!("rejected:header:{}", variant_name(format!("{h:?}"))),
            IntentValidationError::InvalidMessage(m) => format!("rejected:message:{}", variant_name(format!("{m:?}"))),
            IntentValidationError::ManifestValidationError(m) => format!("rejected:manifest:{}", variant_name(format!("{m:?}"))),
            IntentValidationError::ManifestBasicValidatorError(m) => format!("rejected:manifest-basic:{}", variant_name(format!("{m:?}"))),
            IntentValidationError::TooManyReferences { .. } => "rejected:too-many-references".into(),
        },
        TransactionValidationError::SignatureValidationError(_, s) => format!("rejected:signature:{}", variant_name(format!("{s:?}"))),
    }
}

struct Counters {
    past_prepare: AtomicU64,
    accepted: AtomicU64,
    cases: AtomicU64,
}

fn run_case(cfg_name: &str, c: &TransactionValidationConfig, required_network: Option<u8>, spec: &TxSpec, recipe: &Value, l: &mut Local, counters: &Counters) {
    l.eval();
    counters.cases.fetch_add(1, Ordering::Relaxed);
    let Some((_built, raw)) = build(spec) else {
        l.info("payload-padding-target-unreachable(skipped)");
        return;
    };
    let validator = match required_network {
        Some(n) => TransactionValidator::new_with_static_config(*c, n),
        None => TransactionValidator::new_with_static_config_network_agnostic(*c),
    };
    let expected = reference(c, required_network, spec, raw.len());
    let real = catch(|| raw.validate(&validator));
    let case = || json!({"config": cfg_name, "required_network": required_network, "recipe": recipe, "spec": spec.to_json(), "payload_len": raw.len()});
    let real = match real {
        Ok(r) => r,
        Err(p) => {
            l.class("panicked");
            l.info(&format!("panic:{}:{}:ref={:?}", cfg_name, mc_core::truncate(&p, 60), expected));
            if expected == Verdict::Accept {
                l.violation(format!("{cfg_name}:panic-on-acceptable"), format!("reference accepts; validation panicked: {p}"), case());
            }
            return;
        }
    };
    if !matches!(&real, Err(TransactionValidationError::PrepareError(_))) {
        counters.past_prepare.fetch_add(1, Ordering::Relaxed);
    }
    match (&expected, &real) {
        (Verdict::Accept, Ok(v)) => {
            counters.accepted.fetch_add(1, Ordering::Relaxed);
            l.class("accepted");
            if let ValidatedUserTransaction::V2(v2) = v {
                let r = intersection(spec);
                let got = &v2.overall_validity_range;
                let same = got.epoch_range.start_epoch_inclusive.number() == r.start
                    && got.epoch_range.end_epoch_exclusive.number() == r.end
                    && got.proposer_timestamp_range.start_timestamp_inclusive.map(|t| t.seconds_since_unix_epoch) == r.ts_start
                    && got.proposer_timestamp_range.end_timestamp_exclusive.map(|t| t.seconds_since_unix_epoch) == r.ts_end;
                if !same {
                    l.violation(format!("{cfg_name}:overall-range-is-not-the-intersection"), format!("reference intersection {r:?}, reported {got:?}"), case());
                }
            }
            l.sample(|| json!({"accepted": case()}));
        }
        (Verdict::Reject(_), Err(e)) => l.class(&err_label(e)),
        (Verdict::Undecided(u), Ok(_)) => l.info(&format!("undecided:{u}:accepted")),
        (Verdict::Undecided(u), Err(e)) => l.info(&format!("undecided:{u}:{}", err_label(e))),
        (Verdict::Accept, Err(e)) => l.violation(format!("{cfg_name}:rejects-within-limits:{}", err_label(e)), format!("reference: within every configured limit; real: {e:?}"), case()),
        (Verdict::Reject(why), Ok(_)) => l.violation(format!("{cfg_name}:accepts-beyond-limit:{why}"), format!("reference: must be rejected ({why}); real: accepted"), case()),
    }
}

fn apply(base: &TxSpec, settings: &[&Setting]) -> (TxSpec, Value) {
    let mut s = base.clone();
    for st in settings {
        (st.f)(&mut s);
    }
    (s, json!(settings.iter().map(|x| x.label.clone()).collect::<Vec<_>>()))
}

// ------------------------------------------------------------------------------------------------

const EPOCH_WINDOWS: [(u64, u64); 4] = [(1, 5), (3, 8), (5, 9), (8, 9)];
const TS_WINDOWS: [(Option<i64>, Option<i64>); 7] = [(None, None), (Some(10), Some(50)), (Some(30), Some(80)), (Some(50), Some(90)), (Some(80), Some(90)), (Some(30), None), (None, Some(50))];

fn window_spec(idx: &[usize]) -> TxSpec {
    // idx[k] = epoch window index * 7 + timestamp window index, intent k (0 = root)
    let mut s = TxSpec::base(true);
    reshape(&mut s, idx.len() - 1, |i| if i == 0 { None } else { Some(0) }); // root -> sub0 -> {sub1}
    for (k, x) in idx.iter().enumerate() {
        let i = if k == 0 { &mut s.root } else { &mut s.subs[k - 1] };
        let (a, b) = EPOCH_WINDOWS[x / 7];
        i.start = a;
        i.end = b;
        let (ta, tb) = TS_WINDOWS[x % 7];
        i.min_ts = ta;
        i.max_ts = tb;
    }
    s
}

pub fn run(ctx: Ctx) -> ! {
    assert_signing_is_deterministic();
    let cfgs = configs();
    let counters = Counters { past_prepare: AtomicU64::new(0), accepted: AtomicU64::new(0), cases: AtomicU64::new(0) };

    if let Some(case) = ctx.read_replay_case() {
        let cfg_name = case.get("config").and_then(|x| x.as_str()).unwrap_or("");
        let Some((_, c)) = cfgs.iter().find(|(n, _)| *n == cfg_name) else { mc_core::machinery_error("C34 replay: unknown config") };
        let v2 = case.pointer("/spec/version").and_then(|x| x.as_u64()) == Some(2);
        let required = case.get("required_network").and_then(|x| x.as_u64()).map(|x| x as u8);
        let mut l = Local::new();
        let spec = if let Some(w) = case.pointer("/recipe/windows").and_then(|x| x.as_array()) {
            window_spec(&w.iter().map(|x| x.as_u64().unwrap() as usize).collect::<Vec<_>>())
        } else {
            let labels: Vec<String> = case.get("recipe").and_then(|x| x.as_array()).map(|a| a.iter().filter_map(|x| x.as_str().map(String::from)).collect()).unwrap_or_default();
            let (_, settings) = settings_for(c, v2, true);
            let chosen: Vec<&Setting> = labels.iter().map(|lb| settings.iter().find(|s| &s.label == lb).unwrap_or_else(|| mc_core::machinery_error("C34 replay: unknown setting label"))).collect();
            apply(&base_spec(v2, c), &chosen).0
        };
        let raw = build(&spec).map(|x| x.1);
        if let Some(raw) = &raw {
            println!("reference: {:?}", reference(c, required, &spec, raw.len()));
            let validator = match required {
                Some(n) => TransactionValidator::new_with_static_config(*c, n),
                None => TransactionValidator::new_with_static_config_network_agnostic(*c),
            };
            println!("real:      {:?}", catch(|| raw.validate(&validator).map(|_| "accepted")));
        }
        run_case(cfg_name, c, required, &spec, case.get("recipe").unwrap_or(&Value::Null), &mut l, &counters);
        ctx.merge(l);
        ctx.finish(Level::Exploration, "replay", 1, false, Map::new(), &[]);
    }

    let mut cov = Map::new();
    let mut plan = vec![];
    for (cfg_name, c) in &cfgs {
        for v2 in [false, true] {
            let (dims, settings) = settings_for(c, v2, !ctx.quick());
            let base = base_spec(v2, c);
            // singles + pairs (different dimensions); thorough: triples under the small configuration
            let mut combos: Vec<Vec<usize>> = vec![vec![]];
            // V2 is not enabled under babylon: every case is the same rejection, singles are enough
            let pairs = !(v2 && !c.preparation_settings.v2_transactions_permitted);
            for i in 0..settings.len() {
                combos.push(vec![i]);
                for j in i + 1..settings.len() {
                    if pairs && settings[i].dim != settings[j].dim {
                        combos.push(vec![i, j]);
                    }
                }
            }
            if !ctx.quick() && (*cfg_name == "small" || *cfg_name == "cuttlefish") {
                // under cuttlefish the values that need 1 MB payloads / 1000 instructions / 512 references / 16-64
                // signatures stay out of the triples (they are covered singly and in all pairs)
                let heavy = |st: &Setting| -> bool {
                    *cfg_name == "cuttlefish" && ["payload-bytes", "signature-validations-total", "signatures@", "instructions@", "references"].iter().any(|p| st.label.starts_with(p))
                };
                for i in 0..settings.len() {
                    for j in i + 1..settings.len() {
                        for k in j + 1..settings.len() {
                            if heavy(&settings[i]) || heavy(&settings[j]) || heavy(&settings[k]) {
                                continue;
                            }
                            if settings[i].dim != settings[j].dim && settings[j].dim != settings[k].dim && settings[i].dim != settings[k].dim {
                                combos.push(vec![i, j, k]);
                            }
                        }
                    }
                }
            }
            plan.push(format!("{cfg_name}/V{}: {} dimensions, {} values, {} combinations", if v2 { 2 } else { 1 }, dims.len(), settings.len(), combos.len()));
            par_range(&ctx, combos.len() as u64, 4, |ci, l| {
                let chosen: Vec<&Setting> = combos[ci as usize].iter().map(|i| &settings[*i]).collect();
                let (spec, recipe) = apply(&base, &chosen);
                run_case(cfg_name, c, Some(NETWORK), &spec, &recipe, l, &counters);
                // the network dimension also against a network-agnostic validator
                if chosen.iter().any(|s| s.label.starts_with("network@")) {
                    run_case(cfg_name, c, None, &spec, &recipe, l, &counters);
                }
            });
        }
    }
    // one explicit "V2 switched off at validation level" configuration
    {
        let mut l = Local::new();
        let mut c = TransactionValidationConfig::cuttlefish();
        c.v2_transactions_allowed = false;
        for v2 in [false, true] {
            run_case("cuttlefish-v2-disallowed", &c, Some(NETWORK), &base_spec(v2, &c), &json!([]), &mut l, &counters);
        }
        ctx.merge(l);
    }

    // ---- V2 overall window = intersection ----------------------------------------------------------
    let c = TransactionValidationConfig::cuttlefish();
    let mut window_cases = 0u64;
    for k in 1..=3usize {
        let total = 28u64.pow(k as u32);
        window_cases += total;
        par_range(&ctx, total, 16, |idx, l| {
            let mut rem = idx as usize;
            let mut v = vec![];
            for _ in 0..k {
                v.push(rem % 28);
                rem /= 28;
            }
            let spec = window_spec(&v);
            run_case("cuttlefish", &c, Some(NETWORK), &spec, &json!({"windows": v}), l, &counters);
        });
    }

    cov.insert("plan".into(), json!(plan));
    cov.insert("window_tuples".into(), json!(window_cases));
    cov.insert("cases".into(), json!(counters.cases.load(Ordering::Relaxed)));
    cov.insert("cases_past_preparation".into(), json!(counters.past_prepare.load(Ordering::Relaxed)));
    cov.insert("cases_accepted".into(), json!(counters.accepted.load(Ordering::Relaxed)));
    cov.insert("configurations".into(), json!(["babylon", "cuttlefish (= latest)", "small (cuttlefish with small limits)", "cuttlefish with v2_transactions_allowed=false (base specs only)"]));
    ctx.finish(
        Level::Exploration,
        "a case is one (configuration, required network, transaction spec) where the spec is the base transaction with 0, 1 or 2 (thorough, cuttlefish and small: 3) dimension values applied, or one tuple of per-intent epoch/timestamp windows; every case is a correctly signed real transaction validated from raw bytes; non-trivial = cases that got past preparation (first rejection stage)",
        counters.past_prepare.load(Ordering::Relaxed),
        true,
        cov,
        &[
            "the 'small' configuration is not one in use; it exists so that limits which are usize::MAX/huge in babylon/cuttlefish are also swept at lim-1/lim/lim+1",
            "all signatures are valid and signers distinct from each other and from the notary (signature validity is C33)",
            "filler instructions are DROP_AUTH_ZONE_PROOFS, references are CALL_METHODs on distinct static component addresses, blobs are distinct and unreferenced",
            "duplicate decryptor fingerprints cannot be expressed in the typed model and are not covered",
        ],
    )
}
