//! `schema_directed`: all payloads conforming to a schema within a bound, plus the just-outside ones.
//!
//! The generator walks a real `SchemaV1<S>` from a type id and emits raw SBOR bytes with a hand-written encoder
//! (so it does not share code with the typed codecs or the payload validator):
//!  * enum: every declared variant, plus one undeclared discriminator;
//!  * integers: {min, min+1, -1, 0, 1, max-1, max} of the type, and {lo-1, lo, lo+1, hi-1, hi, hi+1} around the
//!    bounds of a numeric validation;
//!  * strings / arrays / maps: lengths {0, 1, 2, bound} and {min-1, min, max, max+1} around a length validation;
//!  * tuples / variant fields: the full product of the field value sets when it is <= `product_cap`, otherwise the
//!    baseline (first value of each field), every one-field deviation from it, and the all-last combination;
//!  * `Any`: a handful of values of different kinds; custom kinds: flavour-supplied samples (valid and invalid
//!    for each custom validation).
//! Recursion is cut at `depth`; a type that cannot bottom out within the depth yields no values.
#![allow(dead_code)]
use radix_common::prelude::*;
use sbor::*;

#[derive(Clone, Debug, PartialEq, Eq, Hash, PartialOrd, Ord)]
pub struct Enc {
    pub kind: u8,
    pub body: Vec<u8>,
}

impl Enc {
    pub fn new(kind: u8, body: Vec<u8>) -> Enc {
        Enc { kind, body }
    }
    pub fn full(&self) -> Vec<u8> {
        let mut v = Vec::with_capacity(1 + self.body.len());
        v.push(self.kind);
        v.extend_from_slice(&self.body);
        v
    }
    pub fn payload(&self, prefix: u8) -> Vec<u8> {
        let mut v = Vec::with_capacity(2 + self.body.len());
        v.push(prefix);
        v.push(self.kind);
        v.extend_from_slice(&self.body);
        v
    }
}

pub fn leb(mut n: usize, out: &mut Vec<u8>) {
    loop {
        let mut b = (n & 0x7F) as u8;
        n >>= 7;
        if n != 0 {
            b |= 0x80;
        }
        out.push(b);
        if n == 0 {
            break;
        }
    }
}

pub const K_BOOL: u8 = 0x01;
pub const K_I8: u8 = 0x02;
pub const K_I16: u8 = 0x03;
pub const K_I32: u8 = 0x04;
pub const K_I64: u8 = 0x05;
pub const K_I128: u8 = 0x06;
pub const K_U8: u8 = 0x07;
pub const K_U16: u8 = 0x08;
pub const K_U32: u8 = 0x09;
pub const K_U64: u8 = 0x0a;
pub const K_U128: u8 = 0x0b;
pub const K_STRING: u8 = 0x0c;
pub const K_ARRAY: u8 = 0x20;
pub const K_TUPLE: u8 = 0x21;
pub const K_ENUM: u8 = 0x22;
pub const K_MAP: u8 = 0x23;

pub fn enc_string(s: &str) -> Enc {
    let mut b = vec![];
    leb(s.len(), &mut b);
    b.extend_from_slice(s.as_bytes());
    Enc::new(K_STRING, b)
}
pub fn enc_tuple(fields: &[&Enc]) -> Enc {
    let mut b = vec![];
    leb(fields.len(), &mut b);
    for f in fields {
        b.push(f.kind);
        b.extend_from_slice(&f.body);
    }
    Enc::new(K_TUPLE, b)
}
pub fn enc_enum(disc: u8, fields: &[&Enc]) -> Enc {
    let mut b = vec![disc];
    leb(fields.len(), &mut b);
    for f in fields {
        b.push(f.kind);
        b.extend_from_slice(&f.body);
    }
    Enc::new(K_ENUM, b)
}
/// all elements must have kind `elem_kind`
pub fn enc_array(elem_kind: u8, elems: &[&Enc]) -> Enc {
    let mut b = vec![elem_kind];
    leb(elems.len(), &mut b);
    for e in elems {
        debug_assert_eq!(e.kind, elem_kind);
        b.extend_from_slice(&e.body);
    }
    Enc::new(K_ARRAY, b)
}
pub fn enc_map(kk: u8, vk: u8, entries: &[(&Enc, &Enc)]) -> Enc {
    let mut b = vec![kk, vk];
    leb(entries.len(), &mut b);
    for (k, v) in entries {
        b.extend_from_slice(&k.body);
        b.extend_from_slice(&v.body);
    }
    Enc::new(K_MAP, b)
}

pub trait Flavor {
    type S: CustomSchema;
    const PREFIX: u8;
    const NAME: &'static str;
    /// Sample values for a custom type kind under a validation: valid ones first, then ones that violate it.
    fn custom_samples(kind: &<Self::S as CustomSchema>::CustomLocalTypeKind, validation: &TypeValidation<<Self::S as CustomSchema>::CustomTypeValidation>) -> Vec<Enc>;
    /// Value-kind byte to use for an empty collection of this custom type.
    fn custom_kind_byte(kind: &<Self::S as CustomSchema>::CustomLocalTypeKind) -> u8;
    fn any_custom_samples() -> Vec<Enc>;
    /// Alternative encodings of an array whose element type has this kind (manifest: `Expression` for arrays of
    /// `Own`, `Blob` for arrays of `U8`).
    fn array_alternatives(_element_kind: &LocalTypeKind<Self::S>) -> Vec<Enc> {
        vec![]
    }
}

pub struct Basic;
impl Flavor for Basic {
    type S = NoCustomSchema;
    const PREFIX: u8 = BASIC_SBOR_V1_PAYLOAD_PREFIX;
    const NAME: &'static str = "basic";
    fn custom_samples(kind: &NoCustomTypeKind, _v: &TypeValidation<NoCustomTypeValidation>) -> Vec<Enc> {
        match *kind {}
    }
    fn custom_kind_byte(kind: &NoCustomTypeKind) -> u8 {
        match *kind {}
    }
    fn any_custom_samples() -> Vec<Enc> {
        vec![]
    }
}

fn node(entity: EntityType, fill: u8) -> Vec<u8> {
    let mut raw = vec![fill; 30];
    raw[0] = entity as u8;
    raw
}


/// One address of every global entity type, then internal ones.
pub fn all_entity_types() -> Vec<EntityType> {
    vec![
        EntityType::GlobalPackage,
        EntityType::GlobalFungibleResourceManager,
        EntityType::GlobalNonFungibleResourceManager,
        EntityType::GlobalGenericComponent,
        EntityType::GlobalAccount,
        EntityType::GlobalIdentity,
        EntityType::GlobalAccessController,
        EntityType::GlobalOneResourcePool,
        EntityType::GlobalTwoResourcePool,
        EntityType::GlobalMultiResourcePool,
        EntityType::GlobalAccountLocker,
        EntityType::GlobalPreallocatedSecp256k1Account,
        EntityType::GlobalPreallocatedSecp256k1Identity,
        EntityType::GlobalPreallocatedEd25519Account,
        EntityType::GlobalPreallocatedEd25519Identity,
        EntityType::GlobalValidator,
        EntityType::GlobalConsensusManager,
        EntityType::GlobalTransactionTracker,
        EntityType::InternalFungibleVault,
        EntityType::InternalNonFungibleVault,
        EntityType::InternalGenericComponent,
        EntityType::InternalKeyValueStore,
    ]
}

fn decimal_bodies() -> Vec<Vec<u8>> {
    vec![Decimal::ZERO.to_vec(), Decimal::ONE.to_vec(), Decimal::MIN.to_vec(), Decimal::MAX.to_vec()]
}
fn precise_decimal_bodies() -> Vec<Vec<u8>> {
    vec![PreciseDecimal::ZERO.to_vec(), PreciseDecimal::ONE.to_vec(), PreciseDecimal::MIN.to_vec(), PreciseDecimal::MAX.to_vec()]
}
/// NonFungibleLocalId bodies: sub-discriminator 0 string, 1 integer (u64 BE), 2 bytes, 3 ruid
fn local_id_bodies() -> Vec<Vec<u8>> {
    let mut v = vec![];
    let mut s = vec![0u8];
    leb(1, &mut s);
    s.push(b'a');
    v.push(s);
    let mut i = vec![1u8];
    i.extend_from_slice(&7u64.to_be_bytes());
    v.push(i);
    let mut b = vec![2u8];
    leb(2, &mut b);
    b.extend_from_slice(&[0, 255]);
    v.push(b);
    let mut r = vec![3u8];
    r.extend_from_slice(&[9u8; 32]);
    v.push(r);
    // 64-char string (max)
    let mut s = vec![0u8];
    leb(64, &mut s);
    s.extend(std::iter::repeat(b'z').take(64));
    v.push(s);
    v
}

pub struct Scrypto;
impl Flavor for Scrypto {
    type S = ScryptoCustomSchema;
    const PREFIX: u8 = SCRYPTO_SBOR_V1_PAYLOAD_PREFIX;
    const NAME: &'static str = "scrypto";
    fn custom_samples(kind: &ScryptoCustomTypeKind, _v: &ScryptoTypeValidation) -> Vec<Enc> {
        match kind {
            ScryptoCustomTypeKind::Reference => all_entity_types().into_iter().map(|e| Enc::new(0x80, node(e, 3))).collect(),
            ScryptoCustomTypeKind::Own => vec![
                Enc::new(0x90, node(EntityType::InternalGenericComponent, 5)),
                Enc::new(0x90, node(EntityType::InternalFungibleVault, 5)),
                Enc::new(0x90, node(EntityType::InternalNonFungibleVault, 5)),
                Enc::new(0x90, node(EntityType::InternalKeyValueStore, 5)),
                Enc::new(0x90, node(EntityType::GlobalPackage, 5)),
            ],
            ScryptoCustomTypeKind::Decimal => decimal_bodies().into_iter().map(|b| Enc::new(0xa0, b)).collect(),
            ScryptoCustomTypeKind::PreciseDecimal => precise_decimal_bodies().into_iter().map(|b| Enc::new(0xb0, b)).collect(),
            ScryptoCustomTypeKind::NonFungibleLocalId => local_id_bodies().into_iter().map(|b| Enc::new(0xc0, b)).collect(),
        }
    }
    fn custom_kind_byte(kind: &ScryptoCustomTypeKind) -> u8 {
        match kind {
            ScryptoCustomTypeKind::Reference => 0x80,
            ScryptoCustomTypeKind::Own => 0x90,
            ScryptoCustomTypeKind::Decimal => 0xa0,
            ScryptoCustomTypeKind::PreciseDecimal => 0xb0,
            ScryptoCustomTypeKind::NonFungibleLocalId => 0xc0,
        }
    }
    fn any_custom_samples() -> Vec<Enc> {
        vec![Enc::new(0xa0, Decimal::ONE.to_vec()), Enc::new(0x80, node(EntityType::GlobalPackage, 1))]
    }
}

/// Manifest payloads are validated against *Scrypto* schemas (ManifestCustomExtension::CustomSchema = ScryptoCustomSchema).
pub struct Manifest;
impl Flavor for Manifest {
    type S = ScryptoCustomSchema;
    const PREFIX: u8 = MANIFEST_SBOR_V1_PAYLOAD_PREFIX;
    const NAME: &'static str = "manifest";
    fn custom_samples(kind: &ScryptoCustomTypeKind, _v: &ScryptoTypeValidation) -> Vec<Enc> {
        let static_addr = |e: EntityType, f: u8| {
            let mut b = vec![0u8];
            b.extend(node(e, f));
            Enc::new(0x80, b)
        };
        let named_addr = |i: u32| {
            let mut b = vec![1u8];
            b.extend_from_slice(&i.to_le_bytes());
            Enc::new(0x80, b)
        };
        match kind {
            ScryptoCustomTypeKind::Reference => all_entity_types().into_iter().map(|e| static_addr(e, 3)).chain([named_addr(0), named_addr(u32::MAX)]).collect(),
            ScryptoCustomTypeKind::Own => vec![
                Enc::new(0x81, 0u32.to_le_bytes().to_vec()),
                Enc::new(0x81, u32::MAX.to_le_bytes().to_vec()),
                Enc::new(0x82, 1u32.to_le_bytes().to_vec()),
                Enc::new(0x88, 2u32.to_le_bytes().to_vec()),
            ],
            ScryptoCustomTypeKind::Decimal => decimal_bodies().into_iter().map(|b| Enc::new(0x85, b)).collect(),
            ScryptoCustomTypeKind::PreciseDecimal => precise_decimal_bodies().into_iter().map(|b| Enc::new(0x86, b)).collect(),
            ScryptoCustomTypeKind::NonFungibleLocalId => local_id_bodies().into_iter().map(|b| Enc::new(0x87, b)).collect(),
        }
    }
    fn custom_kind_byte(kind: &ScryptoCustomTypeKind) -> u8 {
        match kind {
            ScryptoCustomTypeKind::Reference => 0x80,
            ScryptoCustomTypeKind::Own => 0x81,
            ScryptoCustomTypeKind::Decimal => 0x85,
            ScryptoCustomTypeKind::PreciseDecimal => 0x86,
            ScryptoCustomTypeKind::NonFungibleLocalId => 0x87,
        }
    }
    fn any_custom_samples() -> Vec<Enc> {
        vec![Enc::new(0x85, Decimal::ONE.to_vec()), Enc::new(0x83, vec![0u8]), Enc::new(0x84, vec![7u8; 32])]
    }
    fn array_alternatives(element_kind: &LocalTypeKind<ScryptoCustomSchema>) -> Vec<Enc> {
        match element_kind {
            TypeKind::Custom(ScryptoCustomTypeKind::Own) => vec![Enc::new(0x83, vec![0u8]), Enc::new(0x83, vec![1u8])],
            TypeKind::U8 => vec![Enc::new(0x84, vec![7u8; 32])],
            _ => vec![],
        }
    }
}

#[derive(Clone, Copy, Debug)]
pub struct Bound {
    pub depth: usize,
    /// the "bound" collection length (besides 0, 1, 2)
    pub len_bound: usize,
    pub product_cap: usize,
    /// cap on the number of values kept per type node (after de-duplication), 0 = unlimited
    pub node_cap: usize,
    /// largest collection length generated to reach a length-validation bound
    pub max_len: usize,
    /// cap for the root node (0 = same as node_cap)
    pub root_cap: usize,
}

impl Bound {
    pub const fn small() -> Bound {
        Bound { depth: 4, len_bound: 3, product_cap: 64, node_cap: 400, max_len: 80, root_cap: 0 }
    }
}

fn int_points(min: i128, max: i128, lo: Option<i128>, hi: Option<i128>) -> Vec<i128> {
    let mut v = vec![min, min.saturating_add(1), -1, 0, 1, max.saturating_sub(1), max];
    for b in [lo, hi].into_iter().flatten() {
        v.extend([b.saturating_sub(1), b, b.saturating_add(1)]);
    }
    v.retain(|x| *x >= min && *x <= max);
    v.sort();
    v.dedup();
    v
}
fn uint_points(max: u128, lo: Option<u128>, hi: Option<u128>) -> Vec<u128> {
    let mut v = vec![0, 1, 2, max.saturating_sub(1), max];
    for b in [lo, hi].into_iter().flatten() {
        v.extend([b.saturating_sub(1), b, b.saturating_add(1)]);
    }
    v.retain(|x| *x <= max);
    v.sort();
    v.dedup();
    v
}

fn lengths(v: Option<&LengthValidation>, b: &Bound) -> Vec<usize> {
    let mut l = vec![0usize, 1, 2, b.len_bound];
    if let Some(v) = v {
        if let Some(m) = v.min {
            let m = m as usize;
            l.extend([m.saturating_sub(1), m, m + 1]);
        }
        if let Some(m) = v.max {
            let m = m as usize;
            l.extend([m.saturating_sub(1), m, m.saturating_add(1)]);
        }
    }
    l.retain(|x| *x <= b.max_len);
    l.sort();
    l.dedup();
    l
}

/// Combine per-field value sets into field tuples (see module doc).
fn combos<'a>(sets: &'a [Vec<Enc>], cap: usize) -> Vec<Vec<&'a Enc>> {
    if sets.iter().any(|s| s.is_empty()) {
        return vec![];
    }
    if sets.is_empty() {
        return vec![vec![]];
    }
    let product: usize = sets.iter().fold(1usize, |a, s| a.saturating_mul(s.len()));
    let mut out: Vec<Vec<&Enc>> = vec![];
    if product <= cap {
        let mut idx = vec![0usize; sets.len()];
        loop {
            out.push(idx.iter().enumerate().map(|(i, j)| &sets[i][*j]).collect());
            let mut i = sets.len();
            loop {
                if i == 0 {
                    return out;
                }
                i -= 1;
                idx[i] += 1;
                if idx[i] < sets[i].len() {
                    break;
                }
                idx[i] = 0;
            }
        }
    }
    let base: Vec<&Enc> = sets.iter().map(|s| &s[0]).collect();
    out.push(base.clone());
    for (i, s) in sets.iter().enumerate() {
        for v in s.iter().skip(1) {
            let mut c = base.clone();
            c[i] = v;
            out.push(c);
        }
    }
    out.push(sets.iter().map(|s| &s[s.len() - 1]).collect());
    out
}

pub fn kind_byte_of_type<F: Flavor>(schema: &SchemaV1<F::S>, id: LocalTypeId) -> u8 {
    match schema.resolve_type_kind(id) {
        None | Some(TypeKind::Any) => K_U8,
        Some(TypeKind::Bool) => K_BOOL,
        Some(TypeKind::I8) => K_I8,
        Some(TypeKind::I16) => K_I16,
        Some(TypeKind::I32) => K_I32,
        Some(TypeKind::I64) => K_I64,
        Some(TypeKind::I128) => K_I128,
        Some(TypeKind::U8) => K_U8,
        Some(TypeKind::U16) => K_U16,
        Some(TypeKind::U32) => K_U32,
        Some(TypeKind::U64) => K_U64,
        Some(TypeKind::U128) => K_U128,
        Some(TypeKind::String) => K_STRING,
        Some(TypeKind::Array { .. }) => K_ARRAY,
        Some(TypeKind::Tuple { .. }) => K_TUPLE,
        Some(TypeKind::Enum { .. }) => K_ENUM,
        Some(TypeKind::Map { .. }) => K_MAP,
        Some(TypeKind::Custom(c)) => F::custom_kind_byte(c),
    }
}

fn cap_node(mut v: Vec<Enc>, b: &Bound) -> Vec<Enc> {
    let mut seen = std::collections::BTreeSet::new();
    v.retain(|e| seen.insert((e.kind, e.body.clone())));
    if b.node_cap > 0 && v.len() > b.node_cap {
        // keep a spread: first half of the cap from the start, the rest evenly from the remainder
        let head = b.node_cap / 2;
        let rest = v.len() - head;
        let step = (rest / (b.node_cap - head)).max(1);
        let mut out: Vec<Enc> = v[..head].to_vec();
        out.extend(v[head..].iter().step_by(step).cloned());
        out.truncate(b.node_cap);
        return out;
    }
    v
}

/// All values (kind byte + body) generated for type `id`.
pub fn schema_directed<F: Flavor>(schema: &SchemaV1<F::S>, id: LocalTypeId, b: &Bound) -> Vec<Enc> {
    gen_at::<F>(schema, id, b.depth, b, true)
}

fn gen<F: Flavor>(schema: &SchemaV1<F::S>, id: LocalTypeId, depth: usize, b: &Bound) -> Vec<Enc> {
    gen_at::<F>(schema, id, depth, b, false)
}

fn gen_at<F: Flavor>(schema: &SchemaV1<F::S>, id: LocalTypeId, depth: usize, b: &Bound, root: bool) -> Vec<Enc> {
    let Some(kind) = schema.resolve_type_kind(id) else { return vec![] };
    let validation = schema.resolve_type_validation(id).cloned().unwrap_or(TypeValidation::None);
    macro_rules! signed {
        ($t:ty, $k:expr, $var:ident) => {{
            let (lo, hi) = match &validation {
                TypeValidation::$var(v) => (v.min.map(|x| x as i128), v.max.map(|x| x as i128)),
                _ => (None, None),
            };
            int_points(<$t>::MIN as i128, <$t>::MAX as i128, lo, hi).into_iter().map(|x| Enc::new($k, (x as $t).to_le_bytes().to_vec())).collect()
        }};
    }
    macro_rules! unsigned {
        ($t:ty, $k:expr, $var:ident) => {{
            let (lo, hi) = match &validation {
                TypeValidation::$var(v) => (v.min.map(|x| x as u128), v.max.map(|x| x as u128)),
                _ => (None, None),
            };
            uint_points(<$t>::MAX as u128, lo, hi).into_iter().map(|x| Enc::new($k, (x as $t).to_le_bytes().to_vec())).collect()
        }};
    }
    let out: Vec<Enc> = match kind {
        TypeKind::Any => {
            let unit = enc_tuple(&[]);
            let five = Enc::new(K_U8, vec![5]);
            let mut v = vec![five.clone(), unit.clone(), enc_string("a"), Enc::new(K_BOOL, vec![1]), enc_enum(0, &[]), enc_array(K_U8, &[&five, &five]), enc_map(K_U8, K_TUPLE, &[(&five, &unit)]), enc_tuple(&[&five, &unit])];
            v.extend(F::any_custom_samples());
            v
        }
        TypeKind::Bool => vec![Enc::new(K_BOOL, vec![0]), Enc::new(K_BOOL, vec![1])],
        TypeKind::I8 => signed!(i8, K_I8, I8),
        TypeKind::I16 => signed!(i16, K_I16, I16),
        TypeKind::I32 => signed!(i32, K_I32, I32),
        TypeKind::I64 => signed!(i64, K_I64, I64),
        TypeKind::I128 => {
            let (lo, hi) = match &validation {
                TypeValidation::I128(v) => (v.min, v.max),
                _ => (None, None),
            };
            int_points(i128::MIN, i128::MAX, lo, hi).into_iter().map(|x| Enc::new(K_I128, x.to_le_bytes().to_vec())).collect()
        }
        TypeKind::U8 => unsigned!(u8, K_U8, U8),
        TypeKind::U16 => unsigned!(u16, K_U16, U16),
        TypeKind::U32 => unsigned!(u32, K_U32, U32),
        TypeKind::U64 => unsigned!(u64, K_U64, U64),
        TypeKind::U128 => {
            let (lo, hi) = match &validation {
                TypeValidation::U128(v) => (v.min, v.max),
                _ => (None, None),
            };
            uint_points(u128::MAX, lo, hi).into_iter().map(|x| Enc::new(K_U128, x.to_le_bytes().to_vec())).collect()
        }
        TypeKind::String => {
            let lv = match &validation {
                TypeValidation::String(v) => Some(v),
                _ => None,
            };
            let mut v: Vec<Enc> = lengths(lv, b).into_iter().map(|n| enc_string(&"a".repeat(n))).collect();
            v.push(enc_string("é"));
            v.push(enc_string("a\"\\\n😀"));
            v
        }
        TypeKind::Array { element_type } => {
            let lv = match &validation {
                TypeValidation::Array(v) => Some(v),
                _ => None,
            };
            let elems = if depth == 0 { vec![] } else { gen::<F>(schema, *element_type, depth - 1, b) };
            let default_kind = kind_byte_of_type::<F>(schema, *element_type);
            let mut v = vec![];
            if let Some(ek) = schema.resolve_type_kind(*element_type) {
                v.extend(F::array_alternatives(ek));
            }
            // group by value kind (only `Any` / manifest `Own` elements have several)
            let mut kinds: Vec<u8> = elems.iter().map(|e| e.kind).collect();
            kinds.sort();
            kinds.dedup();
            if kinds.is_empty() {
                kinds.push(default_kind);
            }
            for k in kinds {
                let es: Vec<&Enc> = elems.iter().filter(|e| e.kind == k).collect();
                for n in lengths(lv, b) {
                    if n == 0 {
                        v.push(enc_array(k, &[]));
                        continue;
                    }
                    if es.is_empty() {
                        continue;
                    }
                    if n == 1 {
                        for e in &es {
                            v.push(enc_array(k, &[*e]));
                        }
                        continue;
                    }
                    let first: Vec<&Enc> = (0..n).map(|_| es[0]).collect();
                    v.push(enc_array(k, &first));
                    if es.len() > 1 {
                        let last: Vec<&Enc> = (0..n).map(|_| es[es.len() - 1]).collect();
                        v.push(enc_array(k, &last));
                        let cyc: Vec<&Enc> = (0..n).map(|i| es[i % es.len()]).collect();
                        v.push(enc_array(k, &cyc));
                    }
                }
            }
            v
        }
        TypeKind::Tuple { field_types } => {
            if depth == 0 && !field_types.is_empty() {
                vec![]
            } else {
                let sets: Vec<Vec<Enc>> = field_types.iter().map(|t| gen::<F>(schema, *t, depth.saturating_sub(1), b)).collect();
                combos(&sets, b.product_cap).into_iter().map(|c| enc_tuple(&c)).collect()
            }
        }
        TypeKind::Enum { variants } => {
            let mut v = vec![];
            for (disc, field_types) in variants.iter() {
                if depth == 0 && !field_types.is_empty() {
                    continue;
                }
                let sets: Vec<Vec<Enc>> = field_types.iter().map(|t| gen::<F>(schema, *t, depth.saturating_sub(1), b)).collect();
                for c in combos(&sets, b.product_cap) {
                    v.push(enc_enum(*disc, &c));
                }
            }
            if let Some(unused) = (0u8..=255).find(|d| !variants.contains_key(d)) {
                v.push(enc_enum(unused, &[]));
            }
            v
        }
        TypeKind::Map { key_type, value_type } => {
            let lv = match &validation {
                TypeValidation::Map(v) => Some(v),
                _ => None,
            };
            let (ks, vs) = if depth == 0 { (vec![], vec![]) } else { (gen::<F>(schema, *key_type, depth - 1, b), gen::<F>(schema, *value_type, depth - 1, b)) };
            let kk = ks.first().map(|e| e.kind).unwrap_or_else(|| kind_byte_of_type::<F>(schema, *key_type));
            let vk = vs.first().map(|e| e.kind).unwrap_or_else(|| kind_byte_of_type::<F>(schema, *value_type));
            let ks: Vec<&Enc> = ks.iter().filter(|e| e.kind == kk).collect();
            let vs: Vec<&Enc> = vs.iter().filter(|e| e.kind == vk).collect();
            let mut v = vec![];
            for n in lengths(lv, b) {
                if n == 0 {
                    v.push(enc_map(kk, vk, &[]));
                    continue;
                }
                if ks.is_empty() || vs.is_empty() {
                    continue;
                }
                if n == 1 {
                    for k in &ks {
                        v.push(enc_map(kk, vk, &[(*k, vs[0])]));
                    }
                    for x in vs.iter().skip(1) {
                        v.push(enc_map(kk, vk, &[(ks[0], *x)]));
                    }
                    continue;
                }
                // distinct keys where available, then duplicate keys
                let distinct: Vec<(&Enc, &Enc)> = (0..n).map(|i| (ks[i % ks.len()], vs[i % vs.len()])).collect();
                v.push(enc_map(kk, vk, &distinct));
                let dup: Vec<(&Enc, &Enc)> = (0..n).map(|i| (ks[0], vs[i % vs.len()])).collect();
                v.push(enc_map(kk, vk, &dup));
            }
            v
        }
        TypeKind::Custom(c) => F::custom_samples(c, &validation),
    };
    if root && b.root_cap > 0 {
        let rb = Bound { node_cap: b.root_cap, ..*b };
        return cap_node(out, &rb);
    }
    cap_node(out, b)
}
