//! C31 — the manifest compiler never crashes.
//!
//! Statement: compiling any text as a manifest of any kind returns either a manifest or an error, rendering that
//! error as a human-readable diagnostic also succeeds; neither step panics, and the answer is the same every time.
//!
//! Bounded-exhaustive input enumeration. Every input text is compiled as all 4 manifest kinds through the public
//! entry points `compile_any_manifest` (raw error) and `compile_any_manifest_with_pretty_error` (both diagnostic
//! styles, each twice) under `catch_unwind`. Spaces:
//!  (a) every token sequence of length <= N over a 34-token alphabet, joined by each of {SP, LF, CRLF, CR};
//!  (b) every character string of length <= 4 over a 12-character alphabet (quick) / <= 5 over 16 characters (thorough);
//!  (c) "error placement": error-producing snippets behind a preamble of 0..=12 lines (quick: 7 of them), every line-ending style,
//!      ASCII / non-ASCII preamble lines, error at start / middle of a line, trailing lines, final newline or not;
//!      plus preambles of 6/7/8/12 lines whose first line (or every line) is a comment of 1/4/12/40 multi-byte
//!      characters (2-, 3-, 4-byte), so that the region above the renderer's 5-line window holds more extra bytes than
//!      the error's offset inside the window;
//!  (d) every single-point character mutation of the 3 smallest example manifests, and an error token injected at
//!      the start of every line of every example manifest under every line-ending style;
//!  (e) deep nesting / very long inputs, run in a child process (re-exec of this binary) on a 2 MiB-stack thread, so
//!      a stack overflow of the compiler kills the child, not the harness, and is reported as a violation.
//!
//! Oracle: no panic (key = `panic:<file>:<line>` of the panic site), raw and pretty entry points agree on Ok/Err,
//! repeated calls give identical answers.
use mc_core::{gen, par_for, par_range, Ctx, Level, Local};
use radix_common::prelude::*;
use radix_transactions::manifest::*;
use serde_json::{json, Map, Value as J};

pub const CHILD_ENV: &str = "MC_TX_C31_CHILD";

fn kind_of(i: usize) -> ManifestKind {
    match i {
        0 => ManifestKind::V1,
        1 => ManifestKind::SystemV1,
        2 => ManifestKind::V2,
        _ => ManifestKind::SubintentV2,
    }
}
const KIND_NAMES: [&str; 4] = ["V1", "SystemV1", "V2", "SubintentV2"];
const STYLES: [CompileErrorDiagnosticsStyle; 2] = [CompileErrorDiagnosticsStyle::PlainText, CompileErrorDiagnosticsStyle::TextTerminalColors];
const STYLE_NAMES: [&str; 2] = ["PlainText", "TextTerminalColors"];

pub const KNOWN_BLOB: &[u8] = b"c31-blob";

fn blobs() -> BlobProvider {
    BlobProvider::new_with_blobs(vec![KNOWN_BLOB.to_vec()])
}

/// `…/diagnostic_snippets.rs:47` -> `diagnostic_snippets.rs:47` (stable across checkouts / scratch worktrees;
/// for registry crates the crate directory is kept: `annotate-snippets-0.10.2/src/…`).
fn panic_key() -> String {
    let loc = mc_core::last_panic_location();
    let short = if let Some(i) = loc.find("/registry/src/") {
        let rest = &loc[i + "/registry/src/".len()..];
        rest.splitn(2, '/').nth(1).unwrap_or(rest).to_string()
    } else {
        loc.rsplit('/').next().unwrap_or(&loc).to_string()
    };
    format!("panic:{short}")
}


/// Violations found by `probe` are funnelled here: per key only the *smallest* failing input (shortest text, then
/// lexicographic, then kind/style) is kept, so that the reported reproducer is minimal and the same in every run;
/// the number of failing (text, kind, entry point) triples per key is counted in `informational`.
static MINIMAL: std::sync::Mutex<std::collections::BTreeMap<String, (usize, String, String, J)>> = std::sync::Mutex::new(std::collections::BTreeMap::new());

fn record(l: &mut Local, key: String, what: String, case: J) {
    let has_crlf = case.get("text").and_then(|t| t.as_str()).map(|t| t.contains("\r\n")).unwrap_or(false);
    l.info(&format!("failing-call:{key}:{}", if has_crlf { "input-has-CRLF" } else { "input-without-CRLF" }));
    let text = case.get("text").and_then(|t| t.as_str()).unwrap_or("").to_string();
    let order = format!("{}|{}", case.get("kind").and_then(|t| t.as_str()).unwrap_or(""), case.get("style").and_then(|t| t.as_str()).unwrap_or(""));
    let mut g = MINIMAL.lock().unwrap();
    let cand = (text.chars().count(), format!("{text}\u{0}{order}"), what, case);
    match g.get(&key) {
        Some(cur) if (cur.0, &cur.1) <= (cand.0, &cand.1) => {}
        _ => {
            g.insert(key, cand);
        }
    }
}

fn flush_minimal(ctx: &Ctx) {
    let g = std::mem::take(&mut *MINIMAL.lock().unwrap());
    for (key, (_, _, what, case)) in g {
        ctx.violation(key, what, case);
    }
}

#[derive(Clone, Copy, PartialEq, Eq, Debug)]
pub enum Stage {
    Lexer,
    Parser,
    Generator,
    Ok,
    Panicked,
}

/// Compile one text as every kind, through every entry point. Returns the stage reached for kind V1..SubintentV2.
pub fn probe(text: &str, space: &str, l: &mut Local, net: &NetworkDefinition) -> [Stage; 4] {
    let mut out = [Stage::Panicked; 4];
    for k in 0..4 {
        l.eval();
        let case = |style: &str| json!({"space": space, "text": text, "kind": KIND_NAMES[k], "style": style});
        // raw
        let raw = match mc_core::catch(|| compile_any_manifest(text, kind_of(k), net, blobs())) {
            Ok(r) => r,
            Err(p) => {
                record(l, panic_key(), format!("compile_any_manifest panicked: {p}"), case("(raw)"));
                continue;
            }
        };
        out[k] = match &raw {
            Ok(_) => Stage::Ok,
            Err(CompileError::LexerError(_)) => Stage::Lexer,
            Err(CompileError::ParserError(_)) => Stage::Parser,
            Err(CompileError::GeneratorError(_)) => Stage::Generator,
        };
        // raw, second time: same answer
        match mc_core::catch(|| compile_any_manifest(text, kind_of(k), net, blobs())) {
            Ok(r2) => {
                if r2 != raw {
                    record(l, "nondeterministic:raw".to_string(), format!("two compilations differ: {:?} vs {:?}", raw, r2), case("(raw)"));
                }
            }
            Err(p) => record(l, panic_key(), format!("compile_any_manifest panicked on the 2nd call only: {p}"), case("(raw)")),
        }
        for (si, style) in STYLES.iter().enumerate() {
            let r1 = mc_core::catch(|| compile_any_manifest_with_pretty_error(text, kind_of(k), net, blobs(), *style));
            let r1 = match r1 {
                Ok(r) => r,
                Err(p) => {
                    let stage = format!("{:?}", out[k]);
                    record(l, panic_key(), format!("compile_any_manifest_with_pretty_error panicked ({stage} error being rendered): {p}"), case(STYLE_NAMES[si]));
                    out[k] = Stage::Panicked;
                    continue;
                }
            };
            match (&raw, &r1) {
                (Ok(a), Ok(b)) if a == b => {}
                (Err(_), Err(_)) => {}
                _ => record(l, "raw-vs-pretty".to_string(), "raw and pretty entry points disagree on the outcome".to_string(), case(STYLE_NAMES[si])),
            }
            match mc_core::catch(|| compile_any_manifest_with_pretty_error(text, kind_of(k), net, blobs(), *style)) {
                Ok(r2) => {
                    if r2 != r1 {
                        record(l, "nondeterministic:pretty".to_string(), format!("two answers differ: {:?} vs {:?}", r1, r2), case(STYLE_NAMES[si]));
                    }
                }
                Err(p) => record(l, panic_key(), format!("pretty compile panicked on the 2nd call only: {p}"), case(STYLE_NAMES[si])),
            }
        }
    }
    // classes: per input for the kind-independent stages, per (input, kind) after parsing
    match out[0] {
        Stage::Lexer => l.class("input:lexer-error"),
        Stage::Parser => l.class("input:parser-error"),
        Stage::Panicked => l.class("input:panicked"),
        _ => l.class("input:parsed"),
    }
    for k in 0..4 {
        match out[k] {
            Stage::Generator => l.class(&format!("{}:generator-error", KIND_NAMES[k])),
            Stage::Ok => l.class(&format!("{}:compiled", KIND_NAMES[k])),
            _ => {}
        }
    }
    out
}

// ---------------------------------------------------------------------------------------------------------------
// spaces
// ---------------------------------------------------------------------------------------------------------------

pub const TOKENS: [&str; 34] = [
    // instructions
    "DROP_ALL_PROOFS",
    "CALL_METHOD",
    "TAKE_ALL_FROM_WORKTOP",
    "RETURN_TO_WORKTOP",
    "YIELD_TO_PARENT",
    "USE_CHILD",
    // value constructors
    "Address(",
    "Bucket(",
    "Proof(",
    "Decimal(",
    "Enum<",
    "Array<",
    "Map<",
    "Tuple(",
    "Bytes(",
    "NonFungibleLocalId(",
    "Expression(",
    // literals
    "\"a\"",
    "\"\"",
    "\"é😀\"",
    "1u8",
    "-1i8",
    "true",
    "300u8",
    "U8",
    // punctuation
    "(",
    ")",
    "<",
    ">",
    ",",
    ";",
    "=>",
    // comments
    "#",
    "# é",
];
pub const SEPS: [&str; 4] = [" ", "\n", "\r\n", "\r"];

fn space_a(ctx: &Ctx, max_len: u32, trailing_upto: u32) -> u64 {
    let n = gen::count_upto(TOKENS.len() as u64, max_len);
    let idx: Vec<usize> = (0..TOKENS.len()).collect();
    let net = NetworkDefinition::simulator();
    par_range(ctx, n, 512, |i, l| {
        let mut seq = vec![];
        gen::nth_string(&idx, i, &mut seq);
        let nsep = if seq.len() <= 1 { 1 } else { SEPS.len() };
        for s in 0..nsep {
            let toks: Vec<&str> = seq.iter().map(|t| TOKENS[*t]).collect();
            let text = toks.join(SEPS[s]);
            probe(&text, "a:tokens", l, &net);
            if i % 100_003 == 7 && s == 2 {
                l.sample(|| json!({"space": "a", "text": text}));
            }
        }
        if !seq.is_empty() && seq.len() as u32 <= trailing_upto {
            // same with a trailing separator (end-of-file positions on a fresh line)
            for s in 1..SEPS.len() {
                let toks: Vec<&str> = seq.iter().map(|t| TOKENS[*t]).collect();
                let mut text = toks.join(SEPS[s]);
                text.push_str(SEPS[s]);
                probe(&text, "a:tokens+trailing", l, &net);
            }
        }
    });
    n
}

pub const CHARS_QUICK: [char; 12] = ['A', '"', '\\', '(', ';', '#', '\n', '\r', 'é', '😀', '\0', '\t'];
pub const CHARS_THOROUGH: [char; 16] = ['A', '"', '\\', '(', ';', '#', '\n', '\r', 'é', '😀', '\0', '\t', 'u', '1', '-', '='];

fn space_b(ctx: &Ctx, alphabet: &[char], max_len: u32) -> u64 {
    let n = gen::count_upto(alphabet.len() as u64, max_len);
    let net = NetworkDefinition::simulator();
    par_range(ctx, n, 2048, |i, l| {
        let mut cs = vec![];
        gen::nth_string(alphabet, i, &mut cs);
        let text: String = cs.iter().collect();
        probe(&text, "b:chars", l, &net);
        if i % 50_021 == 11 {
            l.sample(|| json!({"space": "b", "text": text}));
        }
    });
    n
}

fn xrd() -> String {
    AddressBech32Encoder::for_simulator().encode(XRD.as_node_id().as_bytes()).unwrap()
}
fn faucet() -> String {
    AddressBech32Encoder::for_simulator().encode(FAUCET.as_node_id().as_bytes()).unwrap()
}
fn package() -> String {
    AddressBech32Encoder::for_simulator().encode(FAUCET_PACKAGE.as_node_id().as_bytes()).unwrap()
}
fn vault() -> String {
    let mut raw = [7u8; 30];
    raw[0] = EntityType::InternalFungibleVault as u8;
    AddressBech32Encoder::for_simulator().encode(&raw).unwrap()
}

pub fn nest(open: &str, close: &str, leaf: &str, depth: usize, closed: bool) -> String {
    let mut s = String::new();
    for _ in 0..depth {
        s.push_str(open);
    }
    s.push_str(leaf);
    if closed {
        for _ in 0..depth {
            s.push_str(close);
        }
    }
    s
}

/// Error-producing snippets (each is placed on "its own" lines; `\n` inside a snippet is replaced by the line
/// ending under test, so multi-line error spans are covered too).
fn error_snippets() -> Vec<(&'static str, String)> {
    let f = faucet();
    let x = xrd();
    vec![
        ("parser:not-an-instruction", "FOO;".to_string()),
        ("parser:missing-semicolon", "DROP_ALL_PROOFS".to_string()),
        ("parser:bad-argument", format!("CALL_METHOD Address(\"{f}\") \"f\" );")),
        ("parser:number-of-values-empty", format!("CALL_METHOD Address(\"{f}\") \"f\" Some();")),
        ("parser:number-of-values-multiline", format!("CALL_METHOD Address(\"{f}\") \"f\" Some(\n1u8,\n\"é\"\n);")),
        ("parser:number-of-types", format!("CALL_METHOD Address(\"{f}\") \"f\" Map<U8>();")),
        ("parser:unknown-discriminator", format!("CALL_METHOD Address(\"{f}\") \"f\" Enum<Foo::Bar>();")),
        ("parser:max-depth", format!("CALL_METHOD Address(\"{f}\") \"f\" {};", nest("Tuple(", ")", "", 25, true))),
        ("parser:unclosed-deep", format!("CALL_METHOD Address(\"{f}\") \"f\" {}", nest("Tuple(", ")", "", 25, false))),
        ("lexer:unterminated-string", "CALL_METHOD \"unterminated é".to_string()),
        ("lexer:unterminated-bytes", "CALL_METHOD Bytes(\"00".to_string()),
        ("lexer:integer-range", "CALL_METHOD 300u8;".to_string()),
        ("lexer:integer-type", "CALL_METHOD 1u7;".to_string()),
        ("lexer:bad-escape", "CALL_METHOD \"é\\q\";".to_string()),
        ("lexer:missing-surrogate", "CALL_METHOD \"\\uD800\";".to_string()),
        ("lexer:bad-unicode", "CALL_METHOD \"\\uDC00\\u0000\";".to_string()),
        ("lexer:unexpected-non-ascii", "CALL_METHOD é;".to_string()),
        ("lexer:lone-equals", "CALL_METHOD = ;".to_string()),
        ("generator:bad-address", "CALL_METHOD Address(\"bad😀\") \"f\";".to_string()),
        ("generator:bad-decimal", format!("CALL_METHOD Address(\"{f}\") \"f\" Decimal(\"1.2.3\");")),
        ("generator:bad-local-id", format!("CALL_METHOD Address(\"{f}\") \"f\" NonFungibleLocalId(\"é\");")),
        ("generator:bad-expression", format!("CALL_METHOD Address(\"{f}\") \"f\" Expression(\"é\");")),
        ("generator:bad-hex", format!("CALL_METHOD Address(\"{f}\") \"f\" Bytes(\"zz\");")),
        ("generator:bad-blob-hash", format!("CALL_METHOD Address(\"{f}\") \"f\" Blob(\"00\");")),
        ("generator:blob-not-found", format!("CALL_METHOD Address(\"{f}\") \"f\" Blob(\"{}\");", "00".repeat(32))),
        ("generator:undefined-bucket", "RETURN_TO_WORKTOP Bucket(\"nope é\");".to_string()),
        ("generator:bucket-id-not-found", "RETURN_TO_WORKTOP Bucket(5u32);".to_string()),
        ("generator:name-redefined", format!("TAKE_ALL_FROM_WORKTOP Address(\"{x}\") Bucket(\"b\");\nTAKE_ALL_FROM_WORKTOP Address(\"{x}\") Bucket(\"b\");")),
        ("generator:wrong-type-multiline", format!("TAKE_ALL_FROM_WORKTOP\n  Address(\"{x}\")\n  Tuple(\n 1u8\n)\n;")),
        ("generator:kind-specific-multiline", "YIELD_TO_PARENT\n  \"é\"\n;".to_string()),
        ("generator:bad-subintent-hash", "USE_CHILD NamedIntent(\"c\") Intent(\"bad\");".to_string()),
        ("generator:header-not-first", "DROP_ALL_PROOFS;\nUSE_CHILD NamedIntent(\"c\") Intent(\"bad\");".to_string()),
        ("generator:typed-args", "CREATE_ACCOUNT_ADVANCED 1u8;".to_string()),
    ]
}

const PREAMBLE_LINES: [&str; 4] = ["DROP_ALL_PROOFS;", "", "# é😀 comment", "DROP_ALL_PROOFS; # é"];
/// line-ending styles: LF, CRLF, CR, mixed (cycles LF, CRLF, CR)
fn eol(style: usize, line_no: usize) -> &'static str {
    match style {
        0 => "\n",
        1 => "\r\n",
        2 => "\r",
        _ => ["\n", "\r\n", "\r"][line_no % 3],
    }
}
const EOL_NAMES: [&str; 4] = ["LF", "CRLF", "CR", "mixed"];

struct PlacementCase {
    label: String,
    text: String,
}

fn space_c_cases(thorough: bool) -> Vec<PlacementCase> {
    let mut out = vec![];
    let snippets = error_snippets();
    let trailing_options: &[usize] = if thorough { &[0, 1, 3, 7] } else { &[0, 7] };
    // quick: preamble lengths around the 5-line context window of the snippet renderer; thorough: all of 0..=12
    let preambles: Vec<usize> = if thorough { (0..=12).collect() } else { vec![0, 1, 4, 5, 6, 7, 12] };
    for (name, snip) in &snippets {
        for &n in &preambles {
            for style in 0..4 {
                for (pi, pl) in PREAMBLE_LINES.iter().enumerate() {
                    for placement in 0..3 {
                        for &trailing in trailing_options {
                            for final_eol in [false, true] {
                                let mut t = String::new();
                                let mut line = 0;
                                for _ in 0..n {
                                    t.push_str(pl);
                                    t.push_str(eol(style, line));
                                    line += 1;
                                }
                                // placement 0: at start of line; 1: after a valid instruction on the same line;
                                // 2: indented by non-ASCII-free whitespace (tabs)
                                match placement {
                                    1 => t.push_str("DROP_ALL_PROOFS; "),
                                    2 => t.push_str("\t\t"),
                                    _ => {}
                                }
                                for (j, part) in snip.split('\n').enumerate() {
                                    if j > 0 {
                                        t.push_str(eol(style, line));
                                        line += 1;
                                    }
                                    t.push_str(part);
                                }
                                for _ in 0..trailing {
                                    t.push_str(eol(style, line));
                                    line += 1;
                                    t.push_str(pl);
                                }
                                if final_eol {
                                    t.push_str(eol(style, line));
                                }
                                out.push(PlacementCase {
                                    label: format!("{name}|preamble={n}x{pi}|eol={}|placement={placement}|trailing={trailing}|final_eol={final_eol}", EOL_NAMES[style]),
                                    text: t,
                                });
                            }
                        }
                    }
                }
            }
        }
    }
    // (c2) heavy multi-byte comments far above the error: the lines *above* the 5-line context window hold more
    // extra UTF-8 bytes than the error's char offset inside the window (byte/char confusion in the skipped region)
    let charsets: Vec<(&str, Vec<char>)> = if thorough {
        vec![("2-byte", vec!['é']), ("3-byte", vec!['基']), ("4-byte", vec!['😀']), ("mixed", vec!['é', '基', '😀'])]
    } else {
        vec![("3-byte", vec!['基']), ("mixed", vec!['é', '基', '😀'])]
    };
    for (name, snip) in &snippets {
        for style in 0..4 {
            for n in [6usize, 7, 8, 12] {
                for k in [1usize, 4, 12, 40] {
                    for (csname, cs) in &charsets {
                        for every_line in [false, true] {
                            for placement in 0..3 {
                                let comment: String = format!("# {}", (0..k).map(|i| cs[i % cs.len()]).collect::<String>());
                                let mut t = String::new();
                                let mut line = 0;
                                for i in 0..n {
                                    if i == 0 || every_line {
                                        t.push_str(&comment);
                                    }
                                    t.push_str(eol(style, line));
                                    line += 1;
                                }
                                // placement 0: error at line start; 1: in the middle of a line; 2: error snippet is the end of its line and of the file
                                match placement {
                                    1 => t.push_str("DROP_ALL_PROOFS; "),
                                    _ => {}
                                }
                                for (j, part) in snip.split('\n').enumerate() {
                                    if j > 0 {
                                        t.push_str(eol(style, line));
                                        line += 1;
                                    }
                                    t.push_str(part);
                                }
                                if placement != 2 {
                                    t.push_str(eol(style, line));
                                    t.push_str("DROP_ALL_PROOFS;");
                                }
                                out.push(PlacementCase {
                                    label: format!("{name}|heavy-comment:{csname}x{k}:{}|preamble={n}|eol={}|placement={placement}", if every_line { "every-line" } else { "first-line" }, EOL_NAMES[style]),
                                    text: t,
                                });
                            }
                        }
                    }
                }
            }
        }
    }
    out
}

fn example_files() -> Vec<(String, String)> {
    fn walk(dir: &std::path::Path, out: &mut Vec<(String, String)>) {
        let mut entries: Vec<_> = std::fs::read_dir(dir).map(|r| r.flatten().collect()).unwrap_or_default();
        entries.sort_by_key(|e| e.path());
        for e in entries {
            let p = e.path();
            if p.is_dir() {
                walk(&p, out);
            } else if p.extension().map(|x| x == "rtm").unwrap_or(false) {
                if let Ok(s) = std::fs::read_to_string(&p) {
                    out.push((p.display().to_string(), s));
                }
            }
        }
    }
    let mut out = vec![];
    let dir = std::path::PathBuf::from(radix_transactions_dir()).join("examples");
    walk(&dir, &mut out);
    out
}

/// Directory of the radix-transactions crate this binary was built against: the path dependency recorded in the
/// harness workspace manifest (rewritten by tools_mutant.sh for scratch worktrees).
fn radix_transactions_dir() -> String {
    let manifest = std::fs::read_to_string(std::path::Path::new(env!("CARGO_MANIFEST_DIR")).join("../Cargo.toml")).unwrap_or_default();
    for line in manifest.lines() {
        if line.trim_start().starts_with("radix-transactions") {
            if let Some(i) = line.find("path = \"") {
                let rest = &line[i + 8..];
                if let Some(j) = rest.find('"') {
                    return rest[..j].to_string();
                }
            }
        }
    }
    "/repo/radix-transactions".to_string()
}

fn substitute_placeholders(s: &str) -> String {
    s.replace("${vault_address}", &vault()).replace("${package_address}", &package()).replace("${xrd}", &xrd())
}

fn char_mutations(base: &str, alphabet: &[char], mut f: impl FnMut(String)) {
    let cs: Vec<char> = base.chars().collect();
    for i in 0..cs.len() {
        for &a in alphabet {
            if a != cs[i] {
                let mut v = cs.clone();
                v[i] = a;
                f(v.iter().collect());
            }
        }
        let mut v = cs.clone();
        v.remove(i);
        f(v.iter().collect());
        let mut v = cs.clone();
        v.insert(i, cs[i]);
        f(v.iter().collect());
        for &a in alphabet {
            let mut v = cs.clone();
            v.insert(i, a);
            f(v.iter().collect());
        }
    }
    for l in 0..cs.len() {
        f(cs[..l].iter().collect());
    }
    for &a in alphabet {
        let mut v = cs.clone();
        v.push(a);
        f(v.iter().collect());
    }
}

fn space_d_cases(thorough: bool) -> (Vec<PlacementCase>, usize) {
    let mut out = vec![];
    let mut files = example_files();
    let n_files = files.len();
    // (d1) mutations of the three smallest examples (placeholders substituted so that the base compiles)
    let mut by_size = files.clone();
    by_size.sort_by_key(|(p, s)| (s.len(), p.clone()));
    let quick_alpha: Vec<char> = vec!['"', '\\', '(', ')', '<', '>', ',', ';', '#', '\n', '\r', ' ', 'é', '😀', '0', 'A', '=', '\0', '-', ':'];
    let thorough_alpha: Vec<char> = (0u8..128).map(|b| b as char).chain(['é', '😀', '\u{2028}', '\u{feff}', '\u{85}']).collect();
    let alpha = if thorough { &thorough_alpha } else { &quick_alpha };
    for (path, src) in by_size.iter().take(3) {
        let base = substitute_placeholders(src);
        let name = path.rsplit("examples/").next().unwrap_or(path).to_string();
        out.push(PlacementCase { label: format!("d1:{name}:unmutated"), text: base.clone() });
        let mut k = 0usize;
        char_mutations(&base, alpha, |t| {
            out.push(PlacementCase { label: format!("d1:{name}:mutation#{k}"), text: t });
            k += 1;
        });
    }
    // (d2) every example under every line-ending style, with an error token injected at the start of every line
    for (path, src) in files.drain(..) {
        let name = path.rsplit("examples/").next().unwrap_or(&path).to_string();
        let lines: Vec<&str> = src.lines().collect();
        for style in 0..4 {
            for inject_at in 0..=lines.len() {
                for inj in ["FOO ", "\"é"] {
                    let mut t = String::new();
                    for (i, ln) in lines.iter().enumerate() {
                        if i == inject_at {
                            t.push_str(inj);
                        }
                        t.push_str(ln);
                        t.push_str(eol(style, i));
                    }
                    if inject_at == lines.len() {
                        t.push_str(inj);
                    }
                    out.push(PlacementCase { label: format!("d2:{name}:eol={}:inject@{inject_at}:{}", EOL_NAMES[style], inj.trim()), text: t });
                }
            }
        }
    }
    (out, n_files)
}

// ---------------------------------------------------------------------------------------------------------------
// (e) deep nesting / long inputs: child process
// ---------------------------------------------------------------------------------------------------------------

fn deep_cases(thorough: bool) -> Vec<(String, String)> {
    let f = faucet();
    let mut out = vec![];
    let constructs: [(&str, &str, &str, &str); 7] = [
        ("Tuple", "Tuple(", ")", ""),
        ("Array", "Array<Array>(", ")", ""),
        ("Enum", "Enum<0u8>(", ")", ""),
        ("Some", "Some(", ")", "1u8"),
        ("Map", "Map<U8, Map>(1u8 => ", ")", "1u8"),
        ("Paren", "(", ")", ""),
        ("Generic", "Array<", ">", "U8"),
    ];
    for (name, open, close, leaf) in constructs {
        let mut depths: Vec<usize> = if thorough { vec![1, 10, 19, 20, 21, 22, 23, 24, 25, 26, 64, 100, 1_000, 10_000] } else { vec![1, 19, 20, 21, 22, 25, 100, 10_000] };
        if thorough && (name == "Tuple" || name == "Generic") {
            depths.push(100_000);
        }
        for depth in depths {
            for closed in [true, false] {
                let v = nest(open, close, leaf, depth, closed);
                out.push((format!("{name}:depth={depth}:closed={closed}"), format!("CALL_METHOD Address(\"{f}\") \"f\" {v};")));
            }
        }
    }
    // long flat inputs
    let n = if thorough { 30_000 } else { 10_000 };
    out.push(("long:many-instructions+error".into(), format!("{}FOO;", "DROP_ALL_PROOFS;\n".repeat(n))));
    out.push(("long:big-string".into(), format!("CALL_METHOD Address(\"{f}\") \"f\" \"{}\" 300u8;", "é".repeat(5 * n))));
    out.push(("long:many-args".into(), format!("CALL_METHOD Address(\"{f}\") \"f\" {} );", "1u8 ".repeat(n))));
    out.push(("long:many-tuple-elements".into(), format!("CALL_METHOD Address(\"{f}\") \"f\" Tuple({}) 1u7;", "1u8,".repeat(n))));
    out
}

const CHILD_STACK: usize = 2 * 1024 * 1024;

/// Child mode: run the deep cases on a 2 MiB-stack thread, print BEGIN/END lines (flushed) so that the parent
/// can tell which case killed the process. `MC_TX_C31_CHILD=<i>` runs only case i, `=all` runs all;
/// `MC_TX_C31_CHILD_FROM=<n>` skips the first n cases (resume after a crash).
fn child_main() -> ! {
    use std::io::Write;
    let cases = deep_cases(std::env::var("MC_TX_C31_CHILD_TIER").map(|t| t == "thorough").unwrap_or(false));
    let only: Option<usize> = std::env::var(CHILD_ENV).ok().and_then(|s| s.parse().ok());
    let from: usize = std::env::var("MC_TX_C31_CHILD_FROM").ok().and_then(|s| s.parse().ok()).unwrap_or(0);
    let h = std::thread::Builder::new()
        .stack_size(CHILD_STACK)
        .spawn(move || {
            let net = NetworkDefinition::simulator();
            for (i, (label, text)) in cases.iter().enumerate().skip(from) {
                if only.map(|o| o != i).unwrap_or(false) {
                    continue;
                }
                println!("BEGIN {i} {label}");
                std::io::stdout().flush().ok();
                let mut l = Local::new();
                let st = probe(text, "e:deep", &mut l, &net);
                let found = std::mem::take(&mut *MINIMAL.lock().unwrap());
                let v: Vec<String> = found.iter().map(|(k, v)| format!("{}\t{}", k, v.2.replace('\n', " "))).collect();
                println!("END {i} {:?} violations={}", st, v.len());
                for x in v.iter().take(3) {
                    println!("VIOL {i} {x}");
                }
                std::io::stdout().flush().ok();
            }
        })
        .expect("spawn");
    let ok = h.join().is_ok();
    std::process::exit(if ok { 0 } else { 3 })
}

fn space_e(ctx: &Ctx) -> u64 {
    let cases = deep_cases(!ctx.quick());
    let exe = std::env::current_exe().unwrap_or_else(|e| mc_core::machinery_error(&format!("current_exe: {e}")));
    let mut l = Local::new();
    let mut start = 0usize;
    let mut done = 0u64;
    // the child runs all cases from `start`; if it dies, the case that killed it is recorded and the run resumes after it
    while start < cases.len() {
        let out = std::process::Command::new(&exe)
            .args(["C31", "quick"])
            .env(CHILD_ENV, "all")
            .env("MC_TX_C31_CHILD_FROM", start.to_string())
            .env("MC_TX_C31_CHILD_TIER", if ctx.quick() { "quick" } else { "thorough" })
            .env("VERIF_ROOT", ctx.root.display().to_string())
            .output()
            .unwrap_or_else(|e| mc_core::machinery_error(&format!("cannot spawn child: {e}")));
        let stdout = String::from_utf8_lossy(&out.stdout).to_string();
        let mut open: Option<usize> = None;
        let mut last_end: Option<usize> = None;
        for line in stdout.lines() {
            let mut it = line.splitn(3, ' ');
            match it.next() {
                Some("BEGIN") => open = it.next().and_then(|x| x.parse().ok()),
                Some("END") => {
                    let i: usize = it.next().and_then(|x| x.parse().ok()).unwrap_or(0);
                    let rest = it.next().unwrap_or("");
                    open = None;
                    last_end = Some(i);
                    done += 1;
                    l.evals += 4;
                    let stage = rest.split(' ').next().unwrap_or("");
                    let cls = if rest.contains("Ok") {
                        "deep:compiled"
                    } else if rest.contains("Parser") {
                        "deep:parser-error"
                    } else if rest.contains("Lexer") {
                        "deep:lexer-error"
                    } else if rest.contains("Generator") {
                        "deep:generator-error"
                    } else {
                        "deep:panicked"
                    };
                    let _ = stage;
                    l.class(cls);
                }
                Some("VIOL") => {
                    let i: usize = it.next().and_then(|x| x.parse().ok()).unwrap_or(0);
                    let rest = it.next().unwrap_or("");
                    let mut kv = rest.splitn(2, '\t');
                    let key = kv.next().unwrap_or("panic:?").to_string();
                    let what = kv.next().unwrap_or("").to_string();
                    l.violation(key, format!("[child] {} :: {what}", cases[i].0), json!({"space": "e:deep", "deep_case": cases[i].0, "deep_index": i, "tier": if ctx.quick() { "quick" } else { "thorough" }}));
                }
                _ => {}
            }
        }
        if out.status.success() {
            break;
        }
        // child died
        match open {
            Some(i) => {
                let construct = cases[i].0.split(':').next().unwrap_or("?");
                l.violation(
                    format!("crash:{construct}"),
                    format!("the compiler killed the process (status {:?}, stack overflow / abort) on deep case {} ({} bytes of input) on a {} KiB stack", out.status, cases[i].0, cases[i].1.len(), CHILD_STACK / 1024),
                    json!({"space": "e:deep", "deep_case": cases[i].0, "deep_index": i, "tier": if ctx.quick() { "quick" } else { "thorough" }}),
                );
                l.class("deep:process-killed");
                start = i + 1;
            }
            None => {
                let _ = last_end;
                mc_core::machinery_error(&format!("C31 child died outside a case (status {:?}); stderr: {}", out.status, String::from_utf8_lossy(&out.stderr)));
            }
        }
    }
    ctx.merge(l);
    done
}

// ---------------------------------------------------------------------------------------------------------------

pub fn run(ctx: Ctx) -> ! {
    if std::env::var(CHILD_ENV).is_ok() {
        child_main();
    }
    let net = NetworkDefinition::simulator();
    if let Some(case) = ctx.read_replay_case() {
        let mut l = Local::new();
        if let Some(text) = case.get("text").and_then(|t| t.as_str()) {
            println!("replaying text ({} bytes): {:?}", text.len(), text);
            let st = probe(text, "replay", &mut l, &net);
            println!("stages per kind: {:?}", st);
        } else if let Some(i) = case.get("deep_index").and_then(|t| t.as_u64()) {
            println!("replaying deep case #{i} in a child process");
            let exe = std::env::current_exe().unwrap();
            let tier = case.get("tier").and_then(|t| t.as_str()).unwrap_or("quick").to_string();
            let out = std::process::Command::new(&exe).args(["C31", "quick"]).env(CHILD_ENV, i.to_string()).env("MC_TX_C31_CHILD_TIER", tier).output().unwrap();
            println!("child status {:?}\n{}", out.status, String::from_utf8_lossy(&out.stdout));
            if !out.status.success() {
                l.violation("crash:replay", "child died", case.clone());
            }
        }
        for (k, v) in MINIMAL.lock().unwrap().iter() {
            println!("observed: {} :: {}", k, v.2);
        }
        ctx.merge(l);
        flush_minimal(&ctx);
        ctx.finish(Level::Exploration, "replay", 0, false, Map::new(), &[]);
    }

    let thorough = !ctx.quick();
    let mut cov = Map::new();

    // (a)
    let a_len = ctx.pick(3, 4);
    let a_trailing = ctx.pick(1, 3);
    let n_a = space_a(&ctx, a_len, a_trailing);
    cov.insert("a_token_sequences".into(), json!({"alphabet": TOKENS.len(), "max_len": a_len, "sequences": n_a, "separators": SEPS.len(), "with_trailing_separator_upto_len": a_trailing}));
    eprintln!("[C31] (a) done at {:.1}s", ctx.elapsed_s());

    // (b)
    let (b_alpha, b_len): (&[char], u32) = if thorough { (&CHARS_THOROUGH, 5) } else { (&CHARS_QUICK, 4) };
    let n_b = space_b(&ctx, b_alpha, b_len);
    cov.insert("b_char_strings".into(), json!({"alphabet": b_alpha.len(), "max_len": b_len, "strings": n_b}));
    eprintln!("[C31] (b) done at {:.1}s", ctx.elapsed_s());

    // (c)
    let c_cases = space_c_cases(thorough);
    par_for(&ctx, &c_cases, |c, l| {
        probe(&c.text, &format!("c:error-placement:{}", c.label), l, &net);
    });
    cov.insert("c_error_placements".into(), json!({"snippets": error_snippets().len(), "preamble_lines": if thorough { "0..=12" } else { "0,1,4,5,6,7,12" }, "eol_styles": EOL_NAMES, "cases": c_cases.len()}));
    ctx.sample(json!({"space": "c", "label": c_cases[c_cases.len() / 3].label, "text": c_cases[c_cases.len() / 3].text}));
    eprintln!("[C31] (c) done at {:.1}s", ctx.elapsed_s());

    // (d)
    let (d_cases, n_files) = space_d_cases(thorough);
    if n_files == 0 {
        mc_core::machinery_error("C31: no example manifests found");
    }
    par_for(&ctx, &d_cases, |c, l| {
        probe(&c.text, &format!("d:examples:{}", c.label), l, &net);
    });
    cov.insert("d_example_mutations".into(), json!({"example_files": n_files, "cases": d_cases.len()}));
    eprintln!("[C31] (d) done at {:.1}s", ctx.elapsed_s());

    // (e)
    let n_e = space_e(&ctx);
    cov.insert("e_deep_cases_in_child_process".into(), json!({"cases": n_e, "child_stack_bytes": CHILD_STACK, "parser_max_depth": radix_transactions::manifest::parser::PARSER_MAX_DEPTH}));
    eprintln!("[C31] (e) done at {:.1}s", ctx.elapsed_s());

    flush_minimal(&ctx);
    let classes = ctx.classes();
    let nontrivial = classes.get("input:parser-error").copied().unwrap_or(0) + classes.get("input:parsed").copied().unwrap_or(0);
    ctx.finish(
        Level::Exploration,
        "a case = one input text compiled as each of the 4 manifest kinds via compile_any_manifest (x2) and compile_any_manifest_with_pretty_error (2 styles x2); evaluations count (text, kind) pairs; non-trivial = input texts (distinct within each space) that got past the lexer (reached the parser or further)",
        nontrivial,
        true,
        cov,
        &[
            "blob provider holds one known blob; network = simulator",
            "stack-overflow detection assumes a 2 MiB thread stack (Rust's default for spawned threads)",
        ],
    )
}
