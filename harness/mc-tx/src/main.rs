//! mc-tx: serves C22 C23 C30 C31 C32 C33 C34 C35 C36 (one module per property).
use mc_core::Ctx;

mod c22;
mod c23;
mod c30;
mod c31;
mod c32;
mod c33;
mod c34;
mod c35;
mod c36;
mod mgen;
mod minrec;
mod schemagen;
mod txseeds;

fn main() {
    let ctx = Ctx::from_args();
    match ctx.id.as_str() {
        "C22" => c22::run(ctx),
        "C23" => c23::run(ctx),
        "C30" => c30::run(ctx),
        "C31" => c31::run(ctx),
        "C32" => c32::run(ctx),
        "C33" => c33::run(ctx),
        "C34" => c34::run(ctx),
        "C35" => c35::run(ctx),
        "C36" => c36::run(ctx),
        other => mc_core::machinery_error(&format!("mc-tx does not serve {other}")),
    }
}
