//! C22 — typed SBOR codecs agree with their generated schemas (types reachable from sbor / radix-common /
//! radix-engine-interface / radix-transactions; engine-only types are covered in mc-engine).
//!
//! Statement: encoding a value of an SBOR-derived type gives a payload that validates against the type's generated
//! schema and decodes back to an equal value, and every payload the typed decoder accepts validates against that
//! schema.
//!
//! For each type T of a fixed list (Scrypto flavour: `scrypto_encode/decode`; manifest flavour:
//! `manifest_encode/decode`, validated against the Scrypto schema through `ManifestCustomExtension`):
//!  * S_T = `generate_full_schema_from_single_type::<T, ScryptoCustomSchema>()`;
//!  * P = `schema_directed(S_T)` (see schemagen.rs) at the smallest depth >= 4 at which the type bottoms out, +1 (quick) / +4 (thorough);
//!  * (1) for p in P: if the typed decoder accepts p with value v, then the payload validator must accept p,
//!        `encode(v)` must validate and `decode(encode(v)) == v`;
//!  * (2) for every single-point mutation m of (a prefix of) P over a 14-byte alphabet of structurally significant
//!        bytes: typed decoder accepts m => validator accepts m (and the encode/decode laws as in (1));
//!  * (3) p schema-valid but typed-rejected is allowed (types may be stricter than their schemas) and counted.
//! A panic of the typed decoder, encoder or validator on any of these inputs is reported under its own key.
use crate::minrec::MinRec;
use crate::schemagen::*;
use mc_core::{par_range, Ctx, Level, Local};
use radix_common::prelude::*;
use radix_engine_interface::prelude::*;
use radix_engine_interface::blueprints::access_controller::*;
use radix_engine_interface::blueprints::account::*;
use radix_engine_interface::blueprints::component::*;
use radix_engine_interface::blueprints::locker::*;
use radix_engine_interface::blueprints::pool::*;
use radix_engine_interface::blueprints::consensus_manager::*;
use radix_engine_interface::blueprints::identity::*;
use radix_engine_interface::blueprints::package::*;
use radix_engine_interface::blueprints::resource::*;
use radix_engine_interface::object_modules::metadata::*;
use radix_engine_interface::object_modules::role_assignment::*;
use radix_engine_interface::object_modules::royalty::*;
use radix_transactions::manifest::*;
use radix_transactions::model::*;
use radix_transactions::prelude::*;
use serde_json::{json, Map};
use std::fmt::Debug;

static MIN: MinRec = MinRec::new();

pub const MUTATION_ALPHABET: [u8; 14] = [0x00, 0x01, 0x02, 0x07, 0x0c, 0x20, 0x21, 0x22, 0x23, 0x5c, 0x4d, 0x80, 0x90, 0xff];

#[derive(Clone, Copy)]
pub struct Budget {
    /// how many levels beyond the first depth at which the type bottoms out
    pub extra_depth: usize,
    pub node_cap: usize,
    pub root_cap: usize,
    pub mutate_first: usize,
    pub mutate_max_len: usize,
}

pub trait Codec {
    type F: Flavor<S = ScryptoCustomSchema>;
    fn validate(payload: &[u8], schema: &SchemaV1<ScryptoCustomSchema>, id: LocalTypeId) -> Result<(), String>;
}
pub struct ScryptoCodec;
impl Codec for ScryptoCodec {
    type F = Scrypto;
    fn validate(payload: &[u8], schema: &SchemaV1<ScryptoCustomSchema>, id: LocalTypeId) -> Result<(), String> {
        validate_payload_against_schema::<ScryptoCustomExtension, ()>(payload, schema, id, &(), SCRYPTO_SBOR_V1_MAX_DEPTH).map_err(|e| format!("{:?}", e.error))
    }
}
pub struct ManifestCodec;
impl Codec for ManifestCodec {
    type F = Manifest;
    fn validate(payload: &[u8], schema: &SchemaV1<ScryptoCustomSchema>, id: LocalTypeId) -> Result<(), String> {
        validate_payload_against_schema::<ManifestCustomExtension, ()>(payload, schema, id, &(), MANIFEST_SBOR_V1_MAX_DEPTH).map_err(|e| format!("{:?}", e.error))
    }
}

fn loc() -> String {
    let l = mc_core::last_panic_location();
    l.rsplit('/').next().unwrap_or(&l).to_string()
}

/// The oracle for one payload of one type.
fn check_payload<T: Debug + PartialEq, C: Codec>(
    name: &str,
    origin: &str,
    payload: &[u8],
    schema: &SchemaV1<ScryptoCustomSchema>,
    id: LocalTypeId,
    decode: &dyn Fn(&[u8]) -> Result<T, DecodeError>,
    encode: &dyn Fn(&T) -> Result<Vec<u8>, EncodeError>,
    l: &mut Local,
) {
    l.eval();
    let case = |extra: serde_json::Value| json!({"type": name, "flavour": C::F::NAME, "origin": origin, "payload_hex": mc_core::hex(payload), "detail": extra});
    let dec = match mc_core::catch(|| decode(payload)) {
        Ok(d) => d,
        Err(p) => {
            MIN.record(l, format!("decode-panic:{}:{name}", loc()), format!("typed decoder of {name} panicked: {p}"), payload.len(), name, case(json!(p)));
            return;
        }
    };
    let val = match mc_core::catch(|| C::validate(payload, schema, id)) {
        Ok(v) => v,
        Err(p) => {
            MIN.record(l, format!("validator-panic:{}:{name}", loc()), format!("payload validator panicked for {name}: {p}"), payload.len(), name, case(json!(p)));
            return;
        }
    };
    match (dec, val) {
        (Err(_), Err(_)) => l.class(&format!("{origin}:both-reject")),
        (Err(_), Ok(())) => {
            l.class(&format!("{origin}:schema-valid:typed-rejected(allowed)"));
            l.info(&format!("typed-stricter-than-schema:{name}"));
        }
        (Ok(v), Err(e)) => {
            let reason = if e.contains("Own<") {
                "own-validation"
            } else if e.contains("Reference<") {
                "reference-validation"
            } else if e.contains("Length") {
                "length-validation"
            } else if e.contains("ValidationError") {
                "other-validation"
            } else {
                "structure"
            };
            MIN.record(l, format!("typed-accepts:schema-rejects:{reason}:{name}"), format!("{name}: typed decoder accepts a payload its generated schema rejects ({e}); decoded value {}", mc_core::truncate(&format!("{v:?}"), 300)), payload.len(), name, case(json!(e)));
        }
        (Ok(v), Ok(())) => {
            // encode(v) validates and round-trips
            let enc = match mc_core::catch(|| encode(&v)) {
                Ok(Ok(e)) => e,
                Ok(Err(e)) => {
                    l.class(&format!("{origin}:accepted:not-re-encodable"));
                    l.info(&format!("decoded-value-not-encodable:{name}:{e:?}"));
                    return;
                }
                Err(p) => {
                    MIN.record(l, format!("encode-panic:{}:{name}", loc()), format!("encoder of {name} panicked on a decoded value: {p}"), payload.len(), name, case(json!(p)));
                    return;
                }
            };
            if let Err(e) = C::validate(&enc, schema, id) {
                MIN.record(l, format!("encoded-value-rejected-by-schema:{name}"), format!("{name}: encode(v) does not validate against the generated schema ({e}); v = {}", mc_core::truncate(&format!("{v:?}"), 300)), payload.len(), name, case(json!({"encoded_hex": mc_core::hex(&enc), "error": e})));
                return;
            }
            match decode(&enc) {
                Ok(v2) if v2 == v => {
                    if enc == payload {
                        l.class(&format!("{origin}:accepted:roundtrip-identical-bytes"));
                    } else {
                        l.class(&format!("{origin}:accepted:roundtrip-equal-value-other-bytes"));
                    }
                }
                other => {
                    MIN.record(l, format!("roundtrip-not-equal:{name}"), format!("{name}: decode(encode(v)) != v: v = {} got {}", mc_core::truncate(&format!("{v:?}"), 200), mc_core::truncate(&format!("{other:?}"), 200)), payload.len(), name, case(json!({"encoded_hex": mc_core::hex(&enc)})));
                }
            }
        }
    }
}

fn check_type<T: Debug + PartialEq + ScryptoDescribe, C: Codec>(
    name: &str,
    budget: Budget,
    decode: &dyn Fn(&[u8]) -> Result<T, DecodeError>,
    encode: &dyn Fn(&T) -> Result<Vec<u8>, EncodeError>,
    l: &mut Local,
) {
    let (id, versioned) = generate_full_schema_from_single_type::<T, ScryptoCustomSchema>();
    let schema = versioned.v1();
    // smallest depth at which the type bottoms out
    let mut values = vec![];
    let mut used_depth = 0;
    for depth in 4..=14 {
        let b = Bound { depth, len_bound: 3, product_cap: 64, node_cap: budget.node_cap, max_len: 70, root_cap: budget.root_cap };
        values = schema_directed::<C::F>(schema, id, &b);
        if !values.is_empty() {
            let b2 = Bound { depth: depth + budget.extra_depth, ..b };
            let deeper = schema_directed::<C::F>(schema, id, &b2);
            used_depth = depth + budget.extra_depth;
            if !deeper.is_empty() {
                values = deeper;
            }
            break;
        }
    }
    if values.is_empty() {
        l.class("type-does-not-bottom-out-within-depth-14");
        l.info(&format!("no-payloads-generated:{name}"));
        return;
    }
    l.info(&format!("payloads:{name}:depth={used_depth}:n={}", values.len()));
    let prefix = C::F::PREFIX;
    let mut n_mut = 0usize;
    for (i, e) in values.iter().enumerate() {
        let p = e.payload(prefix);
        check_payload::<T, C>(name, "generated", &p, schema, id, decode, encode, l);
        if i < budget.mutate_first && p.len() <= budget.mutate_max_len {
            mc_core::gen::mutations(&p, &MUTATION_ALPHABET, |m| {
                n_mut += 1;
                check_payload::<T, C>(name, "mutated", m, schema, id, decode, encode, l);
            });
        }
        if i == values.len() / 2 {
            l.sample(|| json!({"type": name, "flavour": C::F::NAME, "payload_hex": mc_core::hex(&p), "depth": used_depth}));
        }
    }
}

type Job = Box<dyn Fn(Budget, &mut Local) + Send + Sync>;

fn scrypto_job<T: ScryptoEncode + ScryptoDecode + ScryptoDescribe + Debug + PartialEq + 'static>(name: &'static str) -> (String, Job) {
    (
        format!("scrypto:{name}"),
        Box::new(move |budget, l| {
            check_type::<T, ScryptoCodec>(name, budget, &|b| scrypto_decode::<T>(b), &|v| scrypto_encode(v), l);
        }),
    )
}
fn manifest_job<T: ManifestEncode + ManifestDecode + ScryptoDescribe + Debug + PartialEq + 'static>(name: &'static str) -> (String, Job) {
    (
        format!("manifest:{name}"),
        Box::new(move |budget, l| {
            check_type::<T, ManifestCodec>(name, budget, &|b| manifest_decode::<T>(b), &|v| manifest_encode(v), l);
        }),
    )
}

macro_rules! scrypto_types {
    ($v:ident; $($t:ty),* $(,)?) => { $( $v.push(scrypto_job::<$t>(stringify!($t))); )* };
}
macro_rules! manifest_types {
    ($v:ident; $($t:ty),* $(,)?) => { $( $v.push(manifest_job::<$t>(stringify!($t))); )* };
}

fn jobs() -> Vec<(String, Job)> {
    let mut v: Vec<(String, Job)> = vec![];
    // ---- sbor + radix-common (hand-written codecs first)
    scrypto_types!(v;
        Decimal, PreciseDecimal, NonFungibleLocalId, NonFungibleGlobalId,
        ResourceAddress, ComponentAddress, PackageAddress, GlobalAddress, InternalAddress,
        Hash, PublicKey, Secp256k1PublicKey, Ed25519PublicKey, PublicKeyHash,
        Instant, UtcDateTime, Epoch, Round, NetworkDefinition,
        Option<u8>, Result<u8, String>, (u8, String), Vec<u8>, Vec<(u8, bool)>, BTreeMap<u8, String>, BTreeSet<u16>, [u8; 3], (), i128, u128, bool, String,
        IndexMap<String, Decimal>, IndexSet<NonFungibleLocalId>,
        ScryptoValue,
        LocalTypeId, TypeMetadata, ScryptoTypeValidation, ScryptoLocalTypeKind, VersionedScryptoSchema,
        
        BlueprintId, ResourceOrNonFungible,
        ManifestResourceConstraint, ManifestResourceConstraints, GeneralResourceConstraint, LowerBound, UpperBound, AllowedIds,
    );
    // ---- radix-engine-interface
    scrypto_types!(v;
        AccessRule, CompositeRequirement, BasicRequirement, OwnerRole, OwnerRoleEntry, RoleAssignmentInit, RoleKey, RoleList, ModuleId,
        MethodAccessibility, 
        MetadataValue, MetadataInit, KeyValueStoreInit<String, MetadataValue>,
        WithdrawStrategy, RoundingMode, ResourcePreference, DefaultDepositRule, TimePrecision, TimeComparisonOperator,
        RoyaltyAmount, PackageRoyaltyConfig, ComponentRoyaltyConfig,
        BlueprintVersion, BlueprintVersionKey, CanonicalBlueprintId,
        FungibleResourceRoles, NonFungibleResourceRoles, ResourceFeature,
        NonFungibleIdType, ResourceType,
        Own, Reference, Bucket, Proof, Vault, FungibleBucket, NonFungibleBucket, FungibleProof, NonFungibleProof, FungibleVault, NonFungibleVault, GlobalAddressReservation,
        LiquidFungibleResource, LockedFungibleResource, LiquidNonFungibleVault, LiquidNonFungibleResource, LockedNonFungibleResource,
        AccountWithdrawInput, AccountLockFeeInput, AccountSetDefaultDepositRuleInput,
        ConsensusManagerNextRoundInput,
        RuleSet, Proposer, Role,
        FungibleResourceManagerCreateInput,
        IdentityCreateAdvancedInput,
        
    );
    // ---- radix-transactions (Scrypto-encodable parts)
    scrypto_types!(v;
        TransactionIntentHash, SignedTransactionIntentHash, NotarizedTransactionHash, SubintentHash, IntentHash, SystemTransactionHash, LedgerTransactionHash,
        InterpreterValidationRulesetSpecifier, PreAllocatedAddress,
        RawNotarizedTransaction, RawSubintent, RawManifest,
    );
    // ---- manifest flavour: the transaction models
    manifest_types!(v;
        ManifestValue,
        InstructionV1, InstructionV2, InstructionsV1, InstructionsV2, BlobsV1, BlobV1,
        TransactionHeaderV1, MessageV1, PlaintextMessageV1, EncryptedMessageV1, MessageContentsV1,
        IntentV1, IntentSignaturesV1, IntentSignatureV1, NotarySignatureV1, SignedIntentV1, NotarizedTransactionV1,
        SignatureV1, SignatureWithPublicKeyV1,
        TransactionHeaderV2, IntentHeaderV2, MessageV2, IntentCoreV2, TransactionIntentV2, SubintentV2, NonRootSubintentsV2, ChildSubintentSpecifiersV2, ChildSubintentSpecifier,
        IntentSignaturesV2, NonRootSubintentSignaturesV2, SignedTransactionIntentV2, NotarizedTransactionV2, NotarySignatureV2,
        PartialTransactionV2, SignedPartialTransactionV2,
        SystemTransactionV1, RoundUpdateTransactionV1, FlashTransactionV1,
        AnyTransaction, LedgerTransaction,
        TransactionManifestV1, SystemTransactionManifestV1, TransactionManifestV2, SubintentManifestV2, AnyManifest,
        ManifestObjectNames, KnownManifestObjectNames, TransactionObjectNames,
        PreAllocatedAddress, AccessRule, ManifestResourceConstraints, ManifestResourceConstraint,
        TakeFromWorktop, CallMethod, CallFunction, AllocateGlobalAddress, YieldToChild, VerifyParent, AssertBucketContents,
        ManifestGlobalAddress, ManifestPackageAddress, ManifestBucket, ManifestProof, ManifestAddressReservation, ManifestBlobRef, ManifestDecimal, ManifestPreciseDecimal,
        Decimal, PreciseDecimal, NonFungibleLocalId, NonFungibleGlobalId, ResourceAddress, GlobalAddress, InternalAddress, PublicKey, Hash, Epoch, Instant,
        MetadataValue, OwnerRole, RoleAssignmentInit, ModuleConfig<MetadataInit>, FungibleResourceRoles, NonFungibleResourceRoles,
        AccountTryDepositOrAbortManifestInput, AccessControllerCreateManifestInput, NonFungibleResourceManagerCreateManifestInput, PackagePublishWasmAdvancedManifestInput, ValidatorStakeManifestInput,
    );
    // ---- typed-global wrappers (schema validation IsGlobalTyped) over every address flavour
    scrypto_types!(v;
        Global<AccountMarker>, GenericGlobal<GlobalAddress, AccountMarker>, Global<IdentityMarker>, GenericGlobal<GlobalAddress, IdentityMarker>, Global<AccessControllerMarker>, GenericGlobal<GlobalAddress, AccessControllerMarker>, Global<OneResourcePoolMarker>, GenericGlobal<GlobalAddress, OneResourcePoolMarker>, Global<TwoResourcePoolMarker>, GenericGlobal<GlobalAddress, TwoResourcePoolMarker>, Global<MultiResourcePoolMarker>, GenericGlobal<GlobalAddress, MultiResourcePoolMarker>, Global<ConsensusManagerMarker>, GenericGlobal<GlobalAddress, ConsensusManagerMarker>, Global<ValidatorMarker>, GenericGlobal<GlobalAddress, ValidatorMarker>, Global<AccountLockerMarker>, GenericGlobal<GlobalAddress, AccountLockerMarker>, GenericGlobal<ResourceAddress, AccountMarker>, GenericGlobal<PackageAddress, AccountMarker>, GenericGlobal<ResourceAddress, ValidatorMarker>, GenericGlobal<PackageAddress, OneResourcePoolMarker>, Option<GenericGlobal<ResourceAddress, AccountLockerMarker>>, Vec<GenericGlobal<GlobalAddress, AccountMarker>>,
    );
    manifest_types!(v;
        GenericGlobal<ManifestComponentAddress, AccountMarker>, GenericGlobal<GlobalAddress, AccountMarker>, GenericGlobal<ManifestComponentAddress, IdentityMarker>, GenericGlobal<GlobalAddress, IdentityMarker>, GenericGlobal<ManifestComponentAddress, AccessControllerMarker>, GenericGlobal<GlobalAddress, AccessControllerMarker>, GenericGlobal<ManifestComponentAddress, OneResourcePoolMarker>, GenericGlobal<GlobalAddress, OneResourcePoolMarker>, GenericGlobal<ManifestComponentAddress, TwoResourcePoolMarker>, GenericGlobal<GlobalAddress, TwoResourcePoolMarker>, GenericGlobal<ManifestComponentAddress, MultiResourcePoolMarker>, GenericGlobal<GlobalAddress, MultiResourcePoolMarker>, GenericGlobal<ManifestComponentAddress, ConsensusManagerMarker>, GenericGlobal<GlobalAddress, ConsensusManagerMarker>, GenericGlobal<ManifestComponentAddress, ValidatorMarker>, GenericGlobal<GlobalAddress, ValidatorMarker>, GenericGlobal<ManifestComponentAddress, AccountLockerMarker>, GenericGlobal<GlobalAddress, AccountLockerMarker>, GenericGlobal<ResourceAddress, AccountMarker>, GenericGlobal<PackageAddress, AccountMarker>, GenericGlobal<ManifestResourceAddress, AccountMarker>, GenericGlobal<ManifestPackageAddress, AccountMarker>, GenericGlobal<ManifestGlobalAddress, ValidatorMarker>,
    );
    v
}

pub fn run(ctx: Ctx) -> ! {
    let jobs = jobs();
    if let Some(case) = ctx.read_replay_case() {
        let ty = case.get("type").and_then(|x| x.as_str()).unwrap_or("");
        let fl = case.get("flavour").and_then(|x| x.as_str()).unwrap_or("");
        let payload = mc_core::unhex(case.get("payload_hex").and_then(|x| x.as_str()).unwrap_or(""));
        println!("replay: type {ty} flavour {fl} payload {}", mc_core::hex(&payload));
        // re-run the whole type with the recorded payload only: the job API works per type, so we re-run the type at
        // the smallest budget and report whether the same key reappears
        let mut l = Local::new();
        for (name, job) in &jobs {
            if name == &format!("{fl}:{ty}") {
                job(Budget { extra_depth: 1, node_cap: 60, root_cap: 5000, mutate_first: 50, mutate_max_len: 300 }, &mut l);
            }
        }
        ctx.merge(l);
        MIN.flush(&ctx);
        ctx.finish(Level::Exploration, "replay", 0, false, Map::new(), &[]);
    }
    let budget = ctx.pick(Budget { extra_depth: 1, node_cap: 60, root_cap: 1500, mutate_first: 25, mutate_max_len: 200 }, Budget { extra_depth: 4, node_cap: 150, root_cap: 100_000, mutate_first: 20_000, mutate_max_len: 1500 });
    par_range(&ctx, jobs.len() as u64, 1, |i, l| {
        let (_name, job) = &jobs[i as usize];
        job(budget, l);
        l.class("type-checked");
    });
    MIN.flush(&ctx);
    let classes = ctx.classes();
    let nontrivial: u64 = classes.iter().filter(|(k, _)| k.contains(":accepted:")).map(|(_, v)| *v).sum();
    let mut cov = Map::new();
    cov.insert("types".into(), json!(jobs.len()));
    cov.insert("type_list".into(), json!(jobs.iter().map(|j| j.0.clone()).collect::<Vec<_>>()));
    cov.insert("budget".into(), json!({"root_cap": budget.root_cap, "mutated_payloads_per_type": budget.mutate_first, "mutation_alphabet": MUTATION_ALPHABET.len()}));
    ctx.finish(
        Level::Exploration,
        "a case = one payload (generated from the type's own schema, or a single-point mutation of one) checked against one type: typed decode vs payload validation, re-encode, re-decode; non-trivial = payloads the typed decoder accepted (the ones the oracle constrains)",
        nontrivial,
        true,
        cov,
        &[
            "static custom validation (context `()`): reference/own validations are checked by entity type only",
            "schema_directed is exhaustive only within its bound (product cap 64, node cap 60, root cap per tier); wide structs are covered by one-field-at-a-time deviations from a baseline",
            "engine-only types (substates, receipts, events) are checked in mc-engine",
        ],
    )
}
