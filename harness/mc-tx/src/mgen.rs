//! Manifest generators shared by C30 (decompile/compile round trip) and C36 (static validation).
//!
//! * `Kind` / `Parts` / `assemble` – build an `AnyManifest` of any of the 4 kinds from one instruction list
//!   (written in the V2 instruction set; V1 kinds reject V2-only instructions).
//! * `B` – a builder that tracks the ids the real compiler/validator will assign (buckets, proofs, reservations,
//!   named addresses, intents are numbered in creation order), so that generated manifests are well-formed.
//! * `VT` – abstract manifest value trees whose leaves may ask for *fresh* buckets / proofs / reservations / named
//!   addresses; `materialize` creates them through the builder (prefix instructions) and yields a `ManifestValue`.
//! * `blocks()` – one self-contained block per instruction variant (prefix that creates what it consumes, the
//!   instruction, suffix that disposes of what it created) so that any concatenation of blocks is valid.
//! * `value_trees()` – the stratified value-tree space described in c30.rs.
#![allow(dead_code)]
use radix_common::prelude::*;
use radix_engine_interface::prelude::*;
use radix_engine_interface::blueprints::access_controller::*;
use radix_engine_interface::blueprints::account::*;
use radix_engine_interface::blueprints::consensus_manager::*;
use radix_engine_interface::blueprints::identity::*;
use radix_engine_interface::blueprints::package::*;
use radix_engine_interface::blueprints::resource::*;
use radix_engine_interface::object_modules::metadata::*;
use radix_engine_interface::object_modules::role_assignment::*;
use radix_engine_interface::object_modules::royalty::*;
use radix_transactions::manifest::*;
use radix_transactions::prelude::*;

#[derive(Clone, Copy, PartialEq, Eq, Debug, Hash, PartialOrd, Ord)]
pub enum Kind {
    V1,
    SystemV1,
    V2,
    SubintentV2,
}
pub const KINDS: [Kind; 4] = [Kind::V1, Kind::SystemV1, Kind::V2, Kind::SubintentV2];

impl Kind {
    pub fn name(&self) -> &'static str {
        match self {
            Kind::V1 => "V1",
            Kind::SystemV1 => "SystemV1",
            Kind::V2 => "V2",
            Kind::SubintentV2 => "SubintentV2",
        }
    }
    pub fn manifest_kind(&self) -> ManifestKind {
        match self {
            Kind::V1 => ManifestKind::V1,
            Kind::SystemV1 => ManifestKind::SystemV1,
            Kind::V2 => ManifestKind::V2,
            Kind::SubintentV2 => ManifestKind::SubintentV2,
        }
    }
    pub fn is_v2(&self) -> bool {
        matches!(self, Kind::V2 | Kind::SubintentV2)
    }
    pub fn is_subintent(&self) -> bool {
        matches!(self, Kind::SubintentV2)
    }
}

#[derive(Clone, Debug)]
pub struct Parts {
    pub kind: Kind,
    pub instructions: Vec<InstructionV2>,
    pub blobs: IndexMap<Hash, Vec<u8>>,
    pub children: Vec<SubintentHash>,
    pub preallocated: Vec<PreAllocatedAddress>,
    pub names: ManifestObjectNames,
}

/// None if the kind cannot express the parts (V2-only instruction in a V1 kind, children in V1, preallocation outside SystemV1).
pub fn assemble(p: &Parts) -> Option<AnyManifest> {
    let v1_instructions = || -> Option<Vec<InstructionV1>> { p.instructions.iter().map(|i| InstructionV1::try_from(i.clone()).ok()).collect() };
    match p.kind {
        Kind::V1 => {
            if !p.children.is_empty() || !p.preallocated.is_empty() {
                return None;
            }
            Some(AnyManifest::V1(TransactionManifestV1 { instructions: v1_instructions()?, blobs: p.blobs.clone(), object_names: p.names.clone() }))
        }
        Kind::SystemV1 => {
            if !p.children.is_empty() {
                return None;
            }
            Some(AnyManifest::SystemV1(SystemTransactionManifestV1 {
                instructions: v1_instructions()?,
                blobs: p.blobs.clone(),
                preallocated_addresses: p.preallocated.clone(),
                object_names: p.names.clone(),
            }))
        }
        Kind::V2 => {
            if !p.preallocated.is_empty() {
                return None;
            }
            Some(AnyManifest::V2(TransactionManifestV2 {
                instructions: p.instructions.clone(),
                blobs: p.blobs.clone(),
                children: p.children.iter().map(|h| ChildSubintentSpecifier { hash: *h }).collect(),
                object_names: p.names.clone(),
            }))
        }
        Kind::SubintentV2 => {
            if !p.preallocated.is_empty() {
                return None;
            }
            Some(AnyManifest::SubintentV2(SubintentManifestV2 {
                instructions: p.instructions.clone(),
                blobs: p.blobs.clone(),
                children: p.children.iter().map(|h| ChildSubintentSpecifier { hash: *h }).collect(),
                object_names: p.names.clone(),
            }))
        }
    }
}

#[macro_export]
macro_rules! with_any {
    ($any:expr, $m:ident => $e:expr) => {
        match $any {
            AnyManifest::V1($m) => $e,
            AnyManifest::SystemV1($m) => $e,
            AnyManifest::V2($m) => $e,
            AnyManifest::SubintentV2($m) => $e,
        }
    };
}

pub fn validate_any(m: &AnyManifest, ruleset: ValidationRuleset) -> Result<(), ManifestValidationError> {
    with_any!(m, x => x.validate(ruleset))
}

pub fn instruction_count(m: &AnyManifest) -> usize {
    with_any!(m, x => x.instruction_count())
}

pub fn object_names_of(m: &AnyManifest) -> &ManifestObjectNames {
    match m {
        AnyManifest::V1(x) => &x.object_names,
        AnyManifest::SystemV1(x) => &x.object_names,
        AnyManifest::V2(x) => &x.object_names,
        AnyManifest::SubintentV2(x) => &x.object_names,
    }
}

// ---------------------------------------------------------------------------------------------------------------
// well-known addresses used by the generators
// ---------------------------------------------------------------------------------------------------------------

pub fn nf_resource() -> ResourceAddress {
    SECP256K1_SIGNATURE_RESOURCE
}
pub fn other_fungible() -> ResourceAddress {
    let mut raw = [0x11u8; 30];
    raw[0] = EntityType::GlobalFungibleResourceManager as u8;
    ResourceAddress::new_or_panic(raw)
}
pub fn fake_consensus_manager() -> GlobalAddress {
    let mut raw = [0x22u8; 30];
    raw[0] = EntityType::GlobalConsensusManager as u8;
    GlobalAddress::new_or_panic(raw)
}
pub fn some_package() -> PackageAddress {
    let mut raw = [0x33u8; 30];
    raw[0] = EntityType::GlobalPackage as u8;
    PackageAddress::new_or_panic(raw)
}
pub fn some_account() -> GlobalAddress {
    let mut raw = [0x44u8; 30];
    raw[0] = EntityType::GlobalPreallocatedEd25519Account as u8;
    GlobalAddress::new_or_panic(raw)
}
pub fn some_vault() -> InternalAddress {
    let mut raw = [0x55u8; 30];
    raw[0] = EntityType::InternalFungibleVault as u8;
    InternalAddress::new_or_panic(raw)
}
pub fn some_nf_vault() -> InternalAddress {
    let mut raw = [0x66u8; 30];
    raw[0] = EntityType::InternalNonFungibleVault as u8;
    InternalAddress::new_or_panic(raw)
}
pub fn some_kv_store() -> InternalAddress {
    let mut raw = [0x77u8; 30];
    raw[0] = EntityType::InternalKeyValueStore as u8;
    InternalAddress::new_or_panic(raw)
}
pub fn child_hash(i: u8) -> SubintentHash {
    SubintentHash(hash([0xC0, i]))
}
pub const BLOB_A: &[u8] = b"blob-a";
pub const BLOB_B: &[u8] = b"";

// ---------------------------------------------------------------------------------------------------------------
// builder
// ---------------------------------------------------------------------------------------------------------------

#[derive(Clone, Debug)]
pub struct B {
    pub kind: Kind,
    pub ins: Vec<InstructionV2>,
    pub nb: u32,
    pub np: u32,
    pub nr: u32,
    pub na: u32,
    pub blobs: IndexMap<Hash, Vec<u8>>,
    pub children: Vec<SubintentHash>,
    pub preallocated: Vec<PreAllocatedAddress>,
    /// reservations that still have to be consumed before the manifest ends
    pub pending_reservations: Vec<ManifestAddressReservation>,
    /// live buckets / proofs created by `materialize` that the *next* invocation consumes (nothing to clean up),
    /// and the ones blocks have to dispose of themselves are handled inside the blocks.
    pub tags: Vec<String>,
}

impl B {
    pub fn new(kind: Kind) -> B {
        B { kind, ins: vec![], nb: 0, np: 0, nr: 0, na: 0, blobs: Default::default(), children: vec![], preallocated: vec![], pending_reservations: vec![], tags: vec![] }
    }
    pub fn push(&mut self, i: impl Into<InstructionV2>) {
        self.ins.push(i.into());
    }
    pub fn take_all(&mut self, r: ResourceAddress) -> ManifestBucket {
        self.push(TakeAllFromWorktop { resource_address: r });
        self.nb += 1;
        ManifestBucket(self.nb - 1)
    }
    pub fn take_amount(&mut self, r: ResourceAddress, amount: Decimal) -> ManifestBucket {
        self.push(TakeFromWorktop { resource_address: r, amount });
        self.nb += 1;
        ManifestBucket(self.nb - 1)
    }
    pub fn take_ids(&mut self, r: ResourceAddress, ids: Vec<NonFungibleLocalId>) -> ManifestBucket {
        self.push(TakeNonFungiblesFromWorktop { resource_address: r, ids });
        self.nb += 1;
        ManifestBucket(self.nb - 1)
    }
    pub fn ret(&mut self, b: ManifestBucket) {
        self.push(ReturnToWorktop { bucket_id: b });
    }
    pub fn burn(&mut self, b: ManifestBucket) {
        self.push(BurnResource { bucket_id: b });
    }
    pub fn new_proof_id(&mut self) -> ManifestProof {
        self.np += 1;
        ManifestProof(self.np - 1)
    }
    pub fn proof_from_auth_zone(&mut self, r: ResourceAddress) -> ManifestProof {
        self.push(CreateProofFromAuthZoneOfAll { resource_address: r });
        self.new_proof_id()
    }
    pub fn drop_proof(&mut self, p: ManifestProof) {
        self.push(DropProof { proof_id: p });
    }
    pub fn allocate(&mut self, pkg: PackageAddress, bp: &str) -> (ManifestAddressReservation, ManifestNamedAddress) {
        self.push(AllocateGlobalAddress { package_address: pkg, blueprint_name: bp.to_string() });
        self.nr += 1;
        self.na += 1;
        let r = ManifestAddressReservation(self.nr - 1);
        self.pending_reservations.push(r);
        (r, ManifestNamedAddress(self.na - 1))
    }
    pub fn preallocate(&mut self, pkg: PackageAddress, bp: &str, addr: GlobalAddress) -> ManifestAddressReservation {
        assert!(self.ins.is_empty() && self.nr as usize == self.preallocated.len());
        self.preallocated.push(PreAllocatedAddress { blueprint_id: BlueprintId { package_address: pkg, blueprint_name: bp.to_string() }, address: addr });
        self.nr += 1;
        let r = ManifestAddressReservation(self.nr - 1);
        self.pending_reservations.push(r);
        r
    }
    pub fn blob(&mut self, content: &[u8]) -> ManifestBlobRef {
        let h = hash(content);
        self.blobs.insert(h, content.to_vec());
        ManifestBlobRef(h.0)
    }
    pub fn child(&mut self, i: u8) -> ManifestNamedIntentIndex {
        let h = child_hash(i);
        if let Some(pos) = self.children.iter().position(|c| *c == h) {
            return ManifestNamedIntentIndex(pos as u32);
        }
        self.children.push(h);
        ManifestNamedIntentIndex(self.children.len() as u32 - 1)
    }
    pub fn call_method(&mut self, address: impl Into<ManifestGlobalAddress>, method: &str, args: ManifestValue) {
        self.push(CallMethod { address: address.into(), method_name: method.to_string(), args });
    }
    pub fn call_function(&mut self, pkg: impl Into<ManifestPackageAddress>, bp: &str, f: &str, args: ManifestValue) {
        self.push(CallFunction { package_address: pkg.into(), blueprint_name: bp.to_string(), function_name: f.to_string(), args });
    }
    /// Consume everything still pending so that the manifest passes `validate_no_dangling_nodes`, and end as the kind requires.
    pub fn finish(mut self) -> Parts {
        if !self.pending_reservations.is_empty() {
            let rs: Vec<ManifestValue> = self.pending_reservations.drain(..).map(|r| ManifestValue::Custom { value: ManifestCustomValue::AddressReservation(r) }).collect();
            self.call_function(some_package(), "Bp", "with_reservations", ManifestValue::Tuple { fields: rs });
        }
        if self.kind.is_subintent() {
            self.push(YieldToParent::empty());
        }
        Parts { kind: self.kind, instructions: self.ins, blobs: self.blobs, children: self.children, preallocated: self.preallocated, names: ManifestObjectNames::Unknown }
    }
    pub fn counts(&self) -> (u32, u32, u32, u32, u32) {
        (self.nb, self.np, self.nr, self.na, self.children.len() as u32)
    }
}

/// Object names for all objects of a finished manifest. mode 0: Unknown; 1: all named (plain distinct names);
/// 2: only even ids named (odd ids get the decompiler's default names); 3: names with characters that need escaping
/// inside a string literal.
pub fn names_for(counts: (u32, u32, u32, u32, u32), mode: u8) -> ManifestObjectNames {
    if mode == 0 {
        return ManifestObjectNames::Unknown;
    }
    let name = |what: &str, i: u32| -> Option<String> {
        match mode {
            1 => Some(format!("my_{what}_{i}")),
            2 => {
                if i % 2 == 0 {
                    Some(format!("named_{what}_{i}"))
                } else {
                    None
                }
            }
            _ => Some(match i % 4 {
                0 => format!("{what} é😀 {i}"),
                1 => format!("{what}\"quoted\"{i}"),
                2 => format!("{what}\\backslash{i}"),
                _ => format!("{what}\nnewline{i}"),
            }),
        }
    };
    let (nb, np, nr, na, ni) = counts;
    let mut k = KnownManifestObjectNames::default();
    for i in 0..nb {
        if let Some(n) = name("bucket", i) {
            k.bucket_names.insert(ManifestBucket(i), n);
        }
    }
    for i in 0..np {
        if let Some(n) = name("proof", i) {
            k.proof_names.insert(ManifestProof(i), n);
        }
    }
    for i in 0..nr {
        if let Some(n) = name("reservation", i) {
            k.address_reservation_names.insert(ManifestAddressReservation(i), n);
        }
    }
    for i in 0..na {
        if let Some(n) = name("address", i) {
            k.address_names.insert(ManifestNamedAddress(i), n);
        }
    }
    for i in 0..ni {
        if let Some(n) = name("intent", i) {
            k.intent_names.insert(ManifestNamedIntent(i), n);
        }
    }
    ManifestObjectNames::Known(k)
}

/// The names the compiler records when it compiles the decompiler's output: every object named, known name or the
/// decompiler's default (`bucket{i+1}` ...). Written from manifest_naming.rs' documented defaults.
pub fn expected_names_after_roundtrip(counts: (u32, u32, u32, u32, u32), original: &ManifestObjectNames) -> KnownManifestObjectNames {
    let known = match original {
        ManifestObjectNames::Unknown => KnownManifestObjectNames::default(),
        ManifestObjectNames::Known(k) => k.clone(),
    };
    let (nb, np, nr, na, ni) = counts;
    let mut k = KnownManifestObjectNames::default();
    for i in 0..nb {
        let id = ManifestBucket(i);
        k.bucket_names.insert(id, known.bucket_names.get(&id).cloned().unwrap_or(format!("bucket{}", i + 1)));
    }
    for i in 0..np {
        let id = ManifestProof(i);
        k.proof_names.insert(id, known.proof_names.get(&id).cloned().unwrap_or(format!("proof{}", i + 1)));
    }
    for i in 0..nr {
        let id = ManifestAddressReservation(i);
        k.address_reservation_names.insert(id, known.address_reservation_names.get(&id).cloned().unwrap_or(format!("reservation{}", i + 1)));
    }
    for i in 0..na {
        let id = ManifestNamedAddress(i);
        k.address_names.insert(id, known.address_names.get(&id).cloned().unwrap_or(format!("address{}", i + 1)));
    }
    for i in 0..ni {
        let id = ManifestNamedIntent(i);
        k.intent_names.insert(id, known.intent_names.get(&id).cloned().unwrap_or(format!("intent{}", i + 1)));
    }
    k
}

// ---------------------------------------------------------------------------------------------------------------
// value trees
// ---------------------------------------------------------------------------------------------------------------

pub type MV = ManifestValue;
pub type MVK = ManifestValueKind;

#[derive(Clone, Debug)]
pub enum VT {
    Lit(MV),
    Bucket,
    Proof,
    Reservation,
    NamedAddress,
    Blob(&'static [u8]),
    Tuple(Vec<VT>),
    Enum(u8, Vec<VT>),
    Array(MVK, Vec<VT>),
    Map(MVK, MVK, Vec<(VT, VT)>),
}

impl VT {
    pub fn kind(&self) -> MVK {
        match self {
            VT::Lit(v) => value_kind_of(v),
            VT::Bucket => MVK::Custom(ManifestCustomValueKind::Bucket),
            VT::Proof => MVK::Custom(ManifestCustomValueKind::Proof),
            VT::Reservation => MVK::Custom(ManifestCustomValueKind::AddressReservation),
            VT::NamedAddress => MVK::Custom(ManifestCustomValueKind::Address),
            VT::Blob(_) => MVK::Custom(ManifestCustomValueKind::Blob),
            VT::Tuple(_) => MVK::Tuple,
            VT::Enum(..) => MVK::Enum,
            VT::Array(..) => MVK::Array,
            VT::Map(..) => MVK::Map,
        }
    }
    pub fn needs_proof(&self) -> bool {
        match self {
            VT::Proof => true,
            VT::Tuple(v) | VT::Enum(_, v) | VT::Array(_, v) => v.iter().any(|x| x.needs_proof()),
            VT::Map(_, _, e) => e.iter().any(|(k, v)| k.needs_proof() || v.needs_proof()),
            _ => false,
        }
    }
    /// Create the fresh objects this tree refers to (prefix instructions are pushed to `b`) and build the value.
    pub fn materialize(&self, b: &mut B) -> MV {
        match self {
            VT::Lit(v) => v.clone(),
            VT::Bucket => custom(ManifestCustomValue::Bucket(b.take_all(XRD))),
            VT::Proof => custom(ManifestCustomValue::Proof(b.proof_from_auth_zone(XRD))),
            VT::Reservation => {
                let (r, _) = b.allocate(some_package(), "Bp");
                b.pending_reservations.retain(|x| *x != r);
                custom(ManifestCustomValue::AddressReservation(r))
            }
            VT::NamedAddress => {
                let (_, a) = b.allocate(some_package(), "Bp");
                custom(ManifestCustomValue::Address(ManifestAddress::Named(a)))
            }
            VT::Blob(content) => custom(ManifestCustomValue::Blob(b.blob(content))),
            VT::Tuple(f) => MV::Tuple { fields: f.iter().map(|x| x.materialize(b)).collect() },
            VT::Enum(d, f) => MV::Enum { discriminator: *d, fields: f.iter().map(|x| x.materialize(b)).collect() },
            VT::Array(k, e) => MV::Array { element_value_kind: *k, elements: e.iter().map(|x| x.materialize(b)).collect() },
            VT::Map(kk, vk, e) => MV::Map { key_value_kind: *kk, value_value_kind: *vk, entries: e.iter().map(|(k, v)| (k.materialize(b), v.materialize(b))).collect() },
        }
    }
}

pub fn custom(v: ManifestCustomValue) -> MV {
    MV::Custom { value: v }
}

pub fn value_kind_of(v: &MV) -> MVK {
    match v {
        MV::Bool { .. } => MVK::Bool,
        MV::I8 { .. } => MVK::I8,
        MV::I16 { .. } => MVK::I16,
        MV::I32 { .. } => MVK::I32,
        MV::I64 { .. } => MVK::I64,
        MV::I128 { .. } => MVK::I128,
        MV::U8 { .. } => MVK::U8,
        MV::U16 { .. } => MVK::U16,
        MV::U32 { .. } => MVK::U32,
        MV::U64 { .. } => MVK::U64,
        MV::U128 { .. } => MVK::U128,
        MV::String { .. } => MVK::String,
        MV::Enum { .. } => MVK::Enum,
        MV::Array { .. } => MVK::Array,
        MV::Tuple { .. } => MVK::Tuple,
        MV::Map { .. } => MVK::Map,
        MV::Custom { value } => MVK::Custom(match value {
            ManifestCustomValue::Address(_) => ManifestCustomValueKind::Address,
            ManifestCustomValue::Bucket(_) => ManifestCustomValueKind::Bucket,
            ManifestCustomValue::Proof(_) => ManifestCustomValueKind::Proof,
            ManifestCustomValue::Expression(_) => ManifestCustomValueKind::Expression,
            ManifestCustomValue::Blob(_) => ManifestCustomValueKind::Blob,
            ManifestCustomValue::Decimal(_) => ManifestCustomValueKind::Decimal,
            ManifestCustomValue::PreciseDecimal(_) => ManifestCustomValueKind::PreciseDecimal,
            ManifestCustomValue::NonFungibleLocalId(_) => ManifestCustomValueKind::NonFungibleLocalId,
            ManifestCustomValue::AddressReservation(_) => ManifestCustomValueKind::AddressReservation,
        }),
    }
}

pub const STRINGS: [&str; 26] = [
    "",
    "a",
    "\"",
    "\\",
    "\r",
    "\n",
    "\r\n",
    "\t",
    "\0",
    "\u{7f}",
    "\u{8}",
    "\u{c}",
    "/",
    "é",
    "😀",
    "\u{2028}",
    "\u{feff}",
    "${x}",
    "e\u{301}",
    "\u{202e}",
    "\u{ffff}",
    "\u{10ffff}",
    "\u{e000}",
    "\\u0041",
    "a\"b\\c\nd # not a comment ; Tuple(",
    "\u{1}\u{1f}\u{80}\u{9f}\u{a0}\u{ad}",
];

fn dec_raw(bytes: [u8; 24]) -> MV {
    custom(ManifestCustomValue::Decimal(ManifestDecimal(bytes)))
}
fn dec(d: Decimal) -> MV {
    let v = manifest_decode::<MV>(&manifest_encode(&d).unwrap()).unwrap();
    v
}
fn pdec(d: PreciseDecimal) -> MV {
    manifest_decode::<MV>(&manifest_encode(&d).unwrap()).unwrap()
}
fn local_id(id: NonFungibleLocalId) -> MV {
    manifest_decode::<MV>(&manifest_encode(&id).unwrap()).unwrap()
}
fn static_address(n: &NodeId) -> MV {
    custom(ManifestCustomValue::Address(ManifestAddress::Static(*n)))
}

/// All context-free leaves, grouped by value kind (every leaf of one group has the same kind).
pub fn literal_leaves() -> Vec<Vec<MV>> {
    let mut g: Vec<Vec<MV>> = vec![];
    g.push(vec![MV::Bool { value: false }, MV::Bool { value: true }]);
    g.push([i8::MIN, -1, 0, 1, i8::MAX].iter().map(|v| MV::I8 { value: *v }).collect());
    g.push([i16::MIN, -1, 0, 1, i16::MAX].iter().map(|v| MV::I16 { value: *v }).collect());
    g.push([i32::MIN, -1, 0, 1, i32::MAX].iter().map(|v| MV::I32 { value: *v }).collect());
    g.push([i64::MIN, -1, 0, 1, i64::MAX].iter().map(|v| MV::I64 { value: *v }).collect());
    g.push([i128::MIN, -1, 0, 1, i128::MAX].iter().map(|v| MV::I128 { value: *v }).collect());
    g.push([0u8, 1, u8::MAX].iter().map(|v| MV::U8 { value: *v }).collect());
    g.push([0u16, 1, u16::MAX].iter().map(|v| MV::U16 { value: *v }).collect());
    g.push([0u32, 1, u32::MAX].iter().map(|v| MV::U32 { value: *v }).collect());
    g.push([0u64, 1, u64::MAX].iter().map(|v| MV::U64 { value: *v }).collect());
    g.push([0u128, 1, u128::MAX].iter().map(|v| MV::U128 { value: *v }).collect());
    g.push(STRINGS.iter().map(|s| MV::String { value: s.to_string() }).collect());
    // addresses: one per interesting entity type (static)
    g.push(vec![
        static_address(XRD.as_node_id()),
        static_address(nf_resource().as_node_id()),
        static_address(FAUCET.as_node_id()),
        static_address(FAUCET_PACKAGE.as_node_id()),
        static_address(CONSENSUS_MANAGER.as_node_id()),
        static_address(fake_consensus_manager().as_node_id()),
        static_address(some_account().as_node_id()),
        static_address(some_vault().as_node_id()),
        static_address(some_kv_store().as_node_id()),
        static_address(TRANSACTION_TRACKER.as_node_id()),
    ]);
    g.push(vec![custom(ManifestCustomValue::Expression(ManifestExpression::EntireWorktop)), custom(ManifestCustomValue::Expression(ManifestExpression::EntireAuthZone))]);
    g.push(vec![
        dec(Decimal::ZERO),
        dec(Decimal::ONE),
        dec(Decimal::MIN),
        dec(Decimal::MAX),
        dec(Decimal::from_attos(I192::from(-1))),
        dec(Decimal::from_attos(I192::from(1_500_000_000_000_000_000i128))),
        dec(Decimal::from_attos(I192::from(10))),
    ]);
    g.push(vec![
        pdec(PreciseDecimal::ZERO),
        pdec(PreciseDecimal::ONE),
        pdec(PreciseDecimal::MIN),
        pdec(PreciseDecimal::MAX),
        pdec(PreciseDecimal::from_precise_subunits(I256::from(-1))),
        pdec(PreciseDecimal::from_precise_subunits(I256::from(1_000_000_000_000_000_000i128))),
    ]);
    g.push(vec![
        local_id(NonFungibleLocalId::integer(0)),
        local_id(NonFungibleLocalId::integer(u64::MAX)),
        local_id(NonFungibleLocalId::string("a").unwrap()),
        local_id(NonFungibleLocalId::string("Z_9".repeat(21) + "z").unwrap()),
        local_id(NonFungibleLocalId::bytes(vec![0u8]).unwrap()),
        local_id(NonFungibleLocalId::bytes(vec![0xFFu8; 64]).unwrap()),
        local_id(NonFungibleLocalId::ruid([0u8; 32])),
        local_id(NonFungibleLocalId::ruid([0xFFu8; 32])),
    ]);
    g
}

/// Leaves incl. the context-requiring ones, grouped by kind. Index 0 of each group is the group's representative.
pub fn leaf_groups() -> Vec<Vec<VT>> {
    let mut g: Vec<Vec<VT>> = literal_leaves().into_iter().map(|grp| grp.into_iter().map(VT::Lit).collect()).collect();
    // the address group also gets a named address
    for grp in g.iter_mut() {
        if grp[0].kind() == MVK::Custom(ManifestCustomValueKind::Address) {
            grp.push(VT::NamedAddress);
        }
    }
    g.push(vec![VT::Bucket]);
    g.push(vec![VT::Proof]);
    g.push(vec![VT::Reservation]);
    g.push(vec![VT::Blob(BLOB_A), VT::Blob(BLOB_B)]);
    g
}

pub const ALL_KINDS: [MVK; 25] = [
    MVK::Bool,
    MVK::I8,
    MVK::I16,
    MVK::I32,
    MVK::I64,
    MVK::I128,
    MVK::U8,
    MVK::U16,
    MVK::U32,
    MVK::U64,
    MVK::U128,
    MVK::String,
    MVK::Enum,
    MVK::Array,
    MVK::Tuple,
    MVK::Map,
    MVK::Custom(ManifestCustomValueKind::Address),
    MVK::Custom(ManifestCustomValueKind::Bucket),
    MVK::Custom(ManifestCustomValueKind::Proof),
    MVK::Custom(ManifestCustomValueKind::Expression),
    MVK::Custom(ManifestCustomValueKind::Blob),
    MVK::Custom(ManifestCustomValueKind::Decimal),
    MVK::Custom(ManifestCustomValueKind::PreciseDecimal),
    MVK::Custom(ManifestCustomValueKind::NonFungibleLocalId),
    MVK::Custom(ManifestCustomValueKind::AddressReservation),
];

pub struct TreeSpace {
    pub d1: Vec<VT>,
    pub d2: Vec<VT>,
    pub d3: Vec<VT>,
}

/// The stratified space of value trees of depth <= 3, width <= 2 (see c30.rs header for the exact definition).
pub fn value_trees(thorough: bool) -> TreeSpace {
    let groups = leaf_groups();
    let d1: Vec<VT> = groups.iter().flatten().cloned().collect();
    // representatives: first and last of each group
    let reps: Vec<VT> = groups.iter().map(|g| g[0].clone()).collect();
    let reps2: Vec<VT> = groups.iter().flat_map(|g| if g.len() > 1 { vec![g[0].clone(), g[g.len() - 1].clone()] } else { vec![g[0].clone()] }).collect();
    // thorough: every ordered pair of leaves
    let pair_pool: &Vec<VT> = if thorough { &d1 } else { &reps };
    let _ = &reps2;

    let mut d2: Vec<VT> = vec![];
    // tuples and enums over leaves
    d2.push(VT::Tuple(vec![]));
    for x in &d1 {
        d2.push(VT::Tuple(vec![x.clone()]));
    }
    for x in pair_pool {
        for y in pair_pool {
            d2.push(VT::Tuple(vec![x.clone(), y.clone()]));
        }
    }
    // NonFungibleGlobalId look-alikes: Tuple(Address, NonFungibleLocalId) for every address x a few ids
    {
        let addr = groups.iter().find(|g| g[0].kind() == MVK::Custom(ManifestCustomValueKind::Address)).unwrap();
        let ids = groups.iter().find(|g| g[0].kind() == MVK::Custom(ManifestCustomValueKind::NonFungibleLocalId)).unwrap();
        for a in addr {
            for i in ids {
                d2.push(VT::Tuple(vec![a.clone(), i.clone()]));
            }
        }
    }
    for d in [0u8, 1, 255] {
        d2.push(VT::Enum(d, vec![]));
        for x in &d1 {
            d2.push(VT::Enum(d, vec![x.clone()]));
        }
        let pool: &Vec<VT> = if thorough && d == 1 { &d1 } else { &reps };
        for x in pool {
            for y in pool {
                d2.push(VT::Enum(d, vec![x.clone(), y.clone()]));
            }
        }
    }
    // arrays: every element kind empty; per leaf group: each single element, all ordered pairs within the group
    for k in ALL_KINDS {
        d2.push(VT::Array(k, vec![]));
    }
    for g in &groups {
        let k = g[0].kind();
        for x in g {
            d2.push(VT::Array(k, vec![x.clone()]));
        }
        let pool: Vec<&VT> = if g.len() > 8 && !thorough { vec![&g[0], &g[1], &g[g.len() - 1]] } else { g.iter().collect() };
        for x in &pool {
            for y in &pool {
                d2.push(VT::Array(k, vec![(*x).clone(), (*y).clone()]));
            }
        }
    }
    // maps: every (key kind, value kind) empty; one entry: every leaf as key with a representative value and every
    // leaf as value with a representative key; two entries: duplicate keys and distinct keys per leaf group
    for kk in ALL_KINDS {
        for vk in ALL_KINDS {
            d2.push(VT::Map(kk, vk, vec![]));
        }
    }
    let u8rep = VT::Lit(MV::U8 { value: 7 });
    let strrep = VT::Lit(MV::String { value: "k".into() });
    for x in &d1 {
        d2.push(VT::Map(x.kind(), MVK::U8, vec![(x.clone(), u8rep.clone())]));
        d2.push(VT::Map(MVK::String, x.kind(), vec![(strrep.clone(), x.clone())]));
    }
    for g in &groups {
        let k = g[0].kind();
        let a = g[0].clone();
        let z = g[g.len() - 1].clone();
        d2.push(VT::Map(k, k, vec![(a.clone(), a.clone()), (a.clone(), z.clone())])); // duplicate key
        d2.push(VT::Map(k, k, vec![(a.clone(), z.clone()), (z.clone(), a.clone())]));
    }
    let map_pool: &Vec<VT> = if thorough { &d1 } else { &reps };
    for x in map_pool {
        for y in map_pool {
            d2.push(VT::Map(x.kind(), y.kind(), vec![(x.clone(), y.clone())]));
        }
    }

    // depth 3: containers over a reduced set of depth-2 values (one or two per container form)
    let bytes = |v: Vec<u8>| VT::Array(MVK::U8, v.into_iter().map(|b| VT::Lit(MV::U8 { value: b })).collect());
    let s = |x: &str| VT::Lit(MV::String { value: x.to_string() });
    let r2: Vec<VT> = vec![
        VT::Tuple(vec![]),
        VT::Tuple(vec![s("\""), VT::Lit(MV::I8 { value: i8::MIN })]),
        VT::Tuple(vec![VT::Lit(static_address(nf_resource().as_node_id())), VT::Lit(local_id(NonFungibleLocalId::integer(1)))]),
        VT::Enum(0, vec![]),
        VT::Enum(1, vec![s("\n")]),
        VT::Enum(255, vec![VT::Bucket, VT::Lit(dec(Decimal::MIN))]),
        bytes(vec![]),
        bytes(vec![0, 255]),
        VT::Array(MVK::String, vec![]),
        VT::Array(MVK::String, vec![s("é"), s("")]),
        VT::Array(MVK::Custom(ManifestCustomValueKind::Bucket), vec![VT::Bucket, VT::Bucket]),
        VT::Array(MVK::Custom(ManifestCustomValueKind::Address), vec![VT::NamedAddress, VT::Lit(static_address(XRD.as_node_id()))]),
        VT::Map(MVK::String, MVK::U8, vec![]),
        VT::Map(MVK::String, MVK::U8, vec![(s("k"), u8rep.clone())]),
        VT::Map(MVK::Custom(ManifestCustomValueKind::NonFungibleLocalId), MVK::Custom(ManifestCustomValueKind::Decimal), vec![(VT::Lit(local_id(NonFungibleLocalId::string("k").unwrap())), VT::Lit(dec(Decimal::MAX)))]),
    ];
    let mut d3: Vec<VT> = vec![];
    for x in &r2 {
        d3.push(VT::Tuple(vec![x.clone()]));
        for d in [0u8, 255] {
            d3.push(VT::Enum(d, vec![x.clone()]));
        }
        d3.push(VT::Array(x.kind(), vec![x.clone()]));
        d3.push(VT::Map(MVK::U8, x.kind(), vec![(u8rep.clone(), x.clone())]));
        d3.push(VT::Map(x.kind(), MVK::U8, vec![(x.clone(), u8rep.clone())]));
        for y in &r2 {
            d3.push(VT::Tuple(vec![x.clone(), y.clone()]));
            d3.push(VT::Enum(1, vec![x.clone(), y.clone()]));
            if x.kind() == y.kind() {
                d3.push(VT::Array(x.kind(), vec![x.clone(), y.clone()]));
            }
            d3.push(VT::Map(x.kind(), y.kind(), vec![(x.clone(), y.clone())]));
        }
    }
    // depth 4 spot checks (nesting of each container in each container twice)
    if thorough {
        let base: Vec<VT> = d3.iter().step_by(7).cloned().collect();
        for x in base {
            d3.push(VT::Tuple(vec![x.clone()]));
            d3.push(VT::Array(x.kind(), vec![x.clone(), x.clone()]));
            d3.push(VT::Enum(7, vec![x.clone()]));
            d3.push(VT::Map(MVK::String, x.kind(), vec![(s("k"), x.clone())]));
        }
    }
    TreeSpace { d1, d2, d3 }
}

// ---------------------------------------------------------------------------------------------------------------
// blocks: one per instruction variant (and per alias / address form), self-contained
// ---------------------------------------------------------------------------------------------------------------

pub fn ids(n: u64) -> Vec<NonFungibleLocalId> {
    (0..n).map(NonFungibleLocalId::integer).collect()
}

pub fn constraints_all_shapes() -> Vec<ManifestResourceConstraint> {
    let idset = |v: Vec<NonFungibleLocalId>| -> IndexSet<NonFungibleLocalId> { v.into_iter().collect() };
    vec![
        ManifestResourceConstraint::NonZeroAmount,
        ManifestResourceConstraint::ExactAmount(Decimal::ONE),
        ManifestResourceConstraint::AtLeastAmount(Decimal::ZERO),
        ManifestResourceConstraint::ExactNonFungibles(idset(vec![])),
        ManifestResourceConstraint::ExactNonFungibles(idset(vec![NonFungibleLocalId::integer(2), NonFungibleLocalId::integer(1)])),
        ManifestResourceConstraint::AtLeastNonFungibles(idset(vec![NonFungibleLocalId::string("x").unwrap()])),
        ManifestResourceConstraint::General(GeneralResourceConstraint { required_ids: idset(vec![]), lower_bound: LowerBound::NonZero, upper_bound: UpperBound::Unbounded, allowed_ids: AllowedIds::Any }),
        ManifestResourceConstraint::General(GeneralResourceConstraint {
            required_ids: idset(vec![NonFungibleLocalId::integer(1)]),
            lower_bound: LowerBound::Inclusive(Decimal::ONE),
            upper_bound: UpperBound::Inclusive(Decimal::from(2)),
            allowed_ids: AllowedIds::Allowlist(idset(vec![NonFungibleLocalId::integer(1), NonFungibleLocalId::integer(2)])),
        }),
    ]
}

pub struct Block {
    pub name: String,
    pub v2_only: bool,
    pub subintent_only: bool,
    pub apply: Box<dyn Fn(&mut B) + Send + Sync>,
}

fn blk(name: &str, f: impl Fn(&mut B) + Send + Sync + 'static) -> Block {
    Block { name: name.to_string(), v2_only: false, subintent_only: false, apply: Box::new(f) }
}
fn blk2(name: &str, f: impl Fn(&mut B) + Send + Sync + 'static) -> Block {
    Block { name: name.to_string(), v2_only: true, subintent_only: false, apply: Box::new(f) }
}
fn blk_sub(name: &str, f: impl Fn(&mut B) + Send + Sync + 'static) -> Block {
    Block { name: name.to_string(), v2_only: true, subintent_only: true, apply: Box::new(f) }
}

pub fn unit() -> MV {
    MV::Tuple { fields: vec![] }
}
pub fn tuple(f: Vec<MV>) -> MV {
    MV::Tuple { fields: f }
}

pub fn blocks() -> Vec<Block> {
    let mut v: Vec<Block> = vec![];
    let nf = nf_resource();
    // ---- bucket lifecycle
    v.push(blk("TAKE_FROM_WORKTOP+RETURN", |b| {
        let x = b.take_amount(XRD, Decimal::from_attos(I192::from(1)));
        b.ret(x);
    }));
    v.push(blk("TAKE_FROM_WORKTOP(max)+BURN", |b| {
        let x = b.take_amount(other_fungible(), Decimal::MAX);
        b.burn(x);
    }));
    v.push(blk("TAKE_NON_FUNGIBLES+RETURN", move |b| {
        let x = b.take_ids(nf, vec![NonFungibleLocalId::integer(1), NonFungibleLocalId::string("a_b").unwrap(), NonFungibleLocalId::bytes(vec![1, 2]).unwrap(), NonFungibleLocalId::ruid([3; 32])]);
        b.ret(x);
    }));
    v.push(blk("TAKE_NON_FUNGIBLES(empty,dups)+RETURN", move |b| {
        let x = b.take_ids(nf, vec![]);
        let y = b.take_ids(nf, vec![NonFungibleLocalId::integer(1), NonFungibleLocalId::integer(1)]);
        b.ret(y);
        b.ret(x);
    }));
    v.push(blk("TAKE_ALL+BURN", |b| {
        let x = b.take_all(XRD);
        b.burn(x);
    }));
    // ---- assertions (V1)
    v.push(blk("ASSERT_WORKTOP_CONTAINS_ANY", |b| b.push(AssertWorktopContainsAny { resource_address: XRD })));
    v.push(blk("ASSERT_WORKTOP_CONTAINS", |b| b.push(AssertWorktopContains { resource_address: XRD, amount: Decimal::from_attos(I192::from(15)) })));
    v.push(blk("ASSERT_WORKTOP_CONTAINS_NON_FUNGIBLES", move |b| b.push(AssertWorktopContainsNonFungibles { resource_address: nf, ids: ids(2) })));
    // ---- assertions (V2)
    v.push(blk2("ASSERT_WORKTOP_RESOURCES_ONLY(empty)", |b| b.push(AssertWorktopResourcesOnly { constraints: ManifestResourceConstraints::new() })));
    for (i, c) in constraints_all_shapes().into_iter().enumerate() {
        let c1 = c.clone();
        let res = if c.is_valid_for(&XRD) { XRD } else { nf };
        v.push(blk2(&format!("ASSERT_WORKTOP_RESOURCES_ONLY#{i}"), move |b| b.push(AssertWorktopResourcesOnly { constraints: ManifestResourceConstraints::new().with_unchecked(res, c1.clone()) })));
        let c2 = c.clone();
        v.push(blk2(&format!("ASSERT_WORKTOP_RESOURCES_INCLUDE#{i}"), move |b| {
            b.push(AssertWorktopResourcesInclude { constraints: ManifestResourceConstraints::new().with_unchecked(res, c2.clone()).with_unchecked(other_fungible(), ManifestResourceConstraint::NonZeroAmount) })
        }));
        let c3 = c.clone();
        v.push(blk2(&format!("ASSERT_NEXT_CALL_RETURNS_ONLY#{i}+CALL"), move |b| {
            b.push(AssertNextCallReturnsOnly { constraints: ManifestResourceConstraints::new().with_unchecked(res, c3.clone()) });
            b.call_method(FAUCET, "free", unit());
        }));
        let c4 = c.clone();
        v.push(blk2(&format!("ASSERT_NEXT_CALL_RETURNS_INCLUDE#{i}+CALL"), move |b| {
            b.push(AssertNextCallReturnsInclude { constraints: ManifestResourceConstraints::new().with_unchecked(res, c4.clone()) });
            b.call_function(FAUCET_PACKAGE, "Faucet", "new", unit());
        }));
        let c5 = c.clone();
        v.push(blk2(&format!("ASSERT_BUCKET_CONTENTS#{i}"), move |b| {
            let x = b.take_all(res);
            b.push(AssertBucketContents { bucket_id: x, constraint: c5.clone() });
            b.ret(x);
        }));
    }
    // ---- proofs
    v.push(blk("CREATE_PROOF_FROM_BUCKET_OF_AMOUNT", |b| {
        let x = b.take_all(XRD);
        b.push(CreateProofFromBucketOfAmount { bucket_id: x, amount: Decimal::ONE });
        let p = b.new_proof_id();
        b.drop_proof(p);
        b.ret(x);
    }));
    v.push(blk("CREATE_PROOF_FROM_BUCKET_OF_NON_FUNGIBLES", move |b| {
        let x = b.take_all(nf);
        b.push(CreateProofFromBucketOfNonFungibles { bucket_id: x, ids: ids(2) });
        let p = b.new_proof_id();
        b.drop_proof(p);
        b.ret(x);
    }));
    v.push(blk("CREATE_PROOF_FROM_BUCKET_OF_ALL+CLONE+PUSH", |b| {
        let x = b.take_all(XRD);
        b.push(CreateProofFromBucketOfAll { bucket_id: x });
        let p = b.new_proof_id();
        b.push(CloneProof { proof_id: p });
        let q = b.new_proof_id();
        b.push(PushToAuthZone { proof_id: p });
        b.drop_proof(q);
        b.push(DropAuthZoneProofs);
        b.ret(x);
    }));
    v.push(blk("CREATE_PROOF_FROM_AUTH_ZONE_OF_AMOUNT", |b| {
        b.push(CreateProofFromAuthZoneOfAmount { resource_address: XRD, amount: Decimal::MAX });
        let p = b.new_proof_id();
        b.drop_proof(p);
    }));
    v.push(blk("CREATE_PROOF_FROM_AUTH_ZONE_OF_NON_FUNGIBLES", move |b| {
        b.push(CreateProofFromAuthZoneOfNonFungibles { resource_address: nf, ids: ids(1) });
        let p = b.new_proof_id();
        b.drop_proof(p);
    }));
    v.push(blk("CREATE_PROOF_FROM_AUTH_ZONE_OF_ALL(left-open)", |b| {
        let _ = b.proof_from_auth_zone(XRD);
    }));
    v.push(blk("POP_FROM_AUTH_ZONE", |b| {
        b.push(PopFromAuthZone);
        let p = b.new_proof_id();
        b.drop_proof(p);
    }));
    v.push(blk("DROP_AUTH_ZONE_PROOFS", |b| b.push(DropAuthZoneProofs)));
    v.push(blk("DROP_AUTH_ZONE_REGULAR_PROOFS", |b| b.push(DropAuthZoneRegularProofs)));
    v.push(blk("DROP_AUTH_ZONE_SIGNATURE_PROOFS", |b| b.push(DropAuthZoneSignatureProofs)));
    v.push(blk("DROP_NAMED_PROOFS", |b| b.push(DropNamedProofs)));
    v.push(blk("DROP_ALL_PROOFS", |b| b.push(DropAllProofs)));
    // ---- invocations: plain and every alias the decompiler knows
    let arg = || tuple(vec![MV::String { value: "x\"y".into() }, dec(Decimal::ONE)]);
    v.push(blk("CALL_FUNCTION", move |b| b.call_function(FAUCET_PACKAGE, "Faucet é", "new\n", arg())));
    v.push(blk("CALL_FUNCTION(named package)", move |b| {
        let (_, a) = b.allocate(PACKAGE_PACKAGE, "Package");
        b.call_function(ManifestPackageAddress::Named(a), "Bp", "f", arg());
    }));
    let fn_aliases: Vec<(PackageAddress, &str, &str)> = vec![
        (PACKAGE_PACKAGE, PACKAGE_BLUEPRINT, PACKAGE_PUBLISH_WASM_IDENT),
        (PACKAGE_PACKAGE, PACKAGE_BLUEPRINT, PACKAGE_PUBLISH_WASM_ADVANCED_IDENT),
        (ACCOUNT_PACKAGE, ACCOUNT_BLUEPRINT, ACCOUNT_CREATE_ADVANCED_IDENT),
        (ACCOUNT_PACKAGE, ACCOUNT_BLUEPRINT, ACCOUNT_CREATE_IDENT),
        (IDENTITY_PACKAGE, IDENTITY_BLUEPRINT, IDENTITY_CREATE_ADVANCED_IDENT),
        (IDENTITY_PACKAGE, IDENTITY_BLUEPRINT, IDENTITY_CREATE_IDENT),
        (ACCESS_CONTROLLER_PACKAGE, ACCESS_CONTROLLER_BLUEPRINT, ACCESS_CONTROLLER_CREATE_IDENT),
        (RESOURCE_PACKAGE, FUNGIBLE_RESOURCE_MANAGER_BLUEPRINT, FUNGIBLE_RESOURCE_MANAGER_CREATE_IDENT),
        (RESOURCE_PACKAGE, FUNGIBLE_RESOURCE_MANAGER_BLUEPRINT, FUNGIBLE_RESOURCE_MANAGER_CREATE_WITH_INITIAL_SUPPLY_IDENT),
        (RESOURCE_PACKAGE, NON_FUNGIBLE_RESOURCE_MANAGER_BLUEPRINT, NON_FUNGIBLE_RESOURCE_MANAGER_CREATE_IDENT),
        (RESOURCE_PACKAGE, NON_FUNGIBLE_RESOURCE_MANAGER_BLUEPRINT, NON_FUNGIBLE_RESOURCE_MANAGER_CREATE_WITH_INITIAL_SUPPLY_IDENT),
        // near misses: right names, other package / other blueprint
        (some_package(), ACCOUNT_BLUEPRINT, ACCOUNT_CREATE_IDENT),
        (ACCOUNT_PACKAGE, IDENTITY_BLUEPRINT, ACCOUNT_CREATE_IDENT),
    ];
    for (p, bp, f) in fn_aliases {
        let name = format!("CALL_FUNCTION alias {}:{}:{}", if p == some_package() { "other" } else { "native" }, bp, f);
        v.push(blk(&name, move |b| b.call_function(p, bp, f, unit())));
        let name2 = format!("{name} (untyped args)");
        v.push(blk(&name2, move |b| b.call_function(p, bp, f, tuple(vec![MV::U8 { value: 1 }, MV::String { value: "not the typed input".into() }]))));
    }
    v.push(blk("CALL_METHOD", move |b| b.call_method(FAUCET, "free", arg())));
    v.push(blk("CALL_METHOD(named)", move |b| {
        let (_, a) = b.allocate(FAUCET_PACKAGE, "Faucet");
        b.call_method(ManifestGlobalAddress::Named(a), "free", arg());
    }));
    let method_aliases: Vec<(GlobalAddress, &str)> = vec![
        (FAUCET_PACKAGE.into(), PACKAGE_CLAIM_ROYALTIES_IDENT),
        (some_package().into(), PACKAGE_CLAIM_ROYALTIES_IDENT),
        (XRD.into(), FUNGIBLE_RESOURCE_MANAGER_MINT_IDENT),
        (nf.into(), NON_FUNGIBLE_RESOURCE_MANAGER_MINT_IDENT),
        (nf.into(), NON_FUNGIBLE_RESOURCE_MANAGER_MINT_RUID_IDENT),
        (XRD.into(), NON_FUNGIBLE_RESOURCE_MANAGER_MINT_RUID_IDENT),
        (CONSENSUS_MANAGER.into(), CONSENSUS_MANAGER_CREATE_VALIDATOR_IDENT),
        (fake_consensus_manager(), CONSENSUS_MANAGER_CREATE_VALIDATOR_IDENT),
        (FAUCET.into(), CONSENSUS_MANAGER_CREATE_VALIDATOR_IDENT),
        (FAUCET.into(), PACKAGE_CLAIM_ROYALTIES_IDENT),
    ];
    for (i, (a, m)) in method_aliases.into_iter().enumerate() {
        v.push(blk(&format!("CALL_METHOD alias#{i} {m}"), move |b| b.call_method(a, m, unit())));
        v.push(blk(&format!("CALL_METHOD alias#{i} {m} (untyped args)"), move |b| b.call_method(a, m, tuple(vec![MV::Bool { value: true }]))));
    }
    for m in [COMPONENT_ROYALTY_SET_ROYALTY_IDENT, COMPONENT_ROYALTY_LOCK_ROYALTY_IDENT, COMPONENT_ROYALTY_CLAIM_ROYALTIES_IDENT, "other"] {
        v.push(blk(&format!("CALL_ROYALTY_METHOD {m}"), move |b| b.push(CallRoyaltyMethod { address: FAUCET.into(), method_name: m.to_string(), args: arg() })));
    }
    for m in [METADATA_SET_IDENT, METADATA_REMOVE_IDENT, METADATA_LOCK_IDENT, "other"] {
        v.push(blk(&format!("CALL_METADATA_METHOD {m}"), move |b| b.push(CallMetadataMethod { address: XRD.into(), method_name: m.to_string(), args: arg() })));
    }
    v.push(blk("CALL_METADATA_METHOD set (named address)", move |b| {
        let (_, a) = b.allocate(FAUCET_PACKAGE, "Faucet");
        b.push(CallMetadataMethod { address: ManifestGlobalAddress::Named(a), method_name: METADATA_SET_IDENT.to_string(), args: arg() });
    }));
    for m in [ROLE_ASSIGNMENT_SET_OWNER_IDENT, ROLE_ASSIGNMENT_LOCK_OWNER_IDENT, ROLE_ASSIGNMENT_SET_IDENT, "get"] {
        v.push(blk(&format!("CALL_ROLE_ASSIGNMENT_METHOD {m}"), move |b| b.push(CallRoleAssignmentMethod { address: some_account().into(), method_name: m.to_string(), args: arg() })));
    }
    for m in [VAULT_RECALL_IDENT, VAULT_FREEZE_IDENT, VAULT_UNFREEZE_IDENT, NON_FUNGIBLE_VAULT_RECALL_NON_FUNGIBLES_IDENT, "other"] {
        v.push(blk(&format!("CALL_DIRECT_VAULT_METHOD {m}"), move |b| b.push(CallDirectVaultMethod { address: some_vault(), method_name: m.to_string(), args: arg() })));
    }
    v.push(blk("CALL_DIRECT_VAULT_METHOD(nf vault)", move |b| b.push(CallDirectVaultMethod { address: some_nf_vault(), method_name: VAULT_RECALL_IDENT.to_string(), args: unit() })));
    // ---- calls consuming buckets / proofs / expressions / blobs
    v.push(blk("CALL_METHOD(bucket,proof,expression,blob)", |b| {
        let x = b.take_all(XRD);
        let p = b.proof_from_auth_zone(XRD);
        let blob = b.blob(BLOB_A);
        b.call_method(
            some_account(),
            "deposit_batch",
            tuple(vec![
                custom(ManifestCustomValue::Bucket(x)),
                custom(ManifestCustomValue::Proof(p)),
                custom(ManifestCustomValue::Expression(ManifestExpression::EntireWorktop)),
                custom(ManifestCustomValue::Expression(ManifestExpression::EntireAuthZone)),
                custom(ManifestCustomValue::Blob(blob)),
            ]),
        );
    }));
    // ---- address allocation
    v.push(blk("ALLOCATE_GLOBAL_ADDRESS+use", |b| {
        let (r, a) = b.allocate(some_package(), "Bp \"q\"");
        b.pending_reservations.retain(|x| *x != r);
        b.call_function(some_package(), "Bp", "new_at", tuple(vec![custom(ManifestCustomValue::AddressReservation(r)), custom(ManifestCustomValue::Address(ManifestAddress::Named(a)))]));
        b.call_method(ManifestGlobalAddress::Named(a), "poke", unit());
    }));
    v.push(blk("ALLOCATE_GLOBAL_ADDRESS(reservation consumed at end)", |b| {
        let _ = b.allocate(FAUCET_PACKAGE, "Faucet");
    }));
    // ---- other intents
    v.push(blk2("YIELD_TO_CHILD", |b| {
        let c = b.child(0);
        b.push(YieldToChild { child_index: c, args: unit() });
    }));
    v.push(blk2("YIELD_TO_CHILD(second child, bucket)", |b| {
        let _ = b.child(0);
        let c = b.child(1);
        let x = b.take_all(XRD);
        b.push(YieldToChild { child_index: c, args: tuple(vec![custom(ManifestCustomValue::Bucket(x)), MV::String { value: "é".into() }]) });
    }));
    v.push(blk_sub("YIELD_TO_PARENT(mid)", |b| {
        let x = b.take_all(XRD);
        b.push(YieldToParent { args: tuple(vec![custom(ManifestCustomValue::Bucket(x))]) });
    }));
    for (i, rule) in [
        AccessRule::AllowAll,
        AccessRule::DenyAll,
        rule!(require(XRD)),
        rule!(require(NonFungibleGlobalId::new(nf_resource(), NonFungibleLocalId::integer(1)))),
        rule!(require_amount(Decimal::ONE, XRD)),
        rule!(require_any_of(vec![XRD, nf_resource()])),
        rule!(require(XRD) && require(nf_resource()) || require_n_of(1, vec![XRD])),
    ]
    .into_iter()
    .enumerate()
    {
        v.push(blk_sub(&format!("VERIFY_PARENT#{i}"), move |b| b.push(VerifyParent { access_rule: rule.clone() })));
    }
    v
}

/// System-only header: preallocated addresses (become USE_PREALLOCATED_ADDRESS pseudo-instructions).
pub fn preallocation_variants() -> Vec<Vec<(PackageAddress, &'static str, GlobalAddress)>> {
    vec![
        vec![],
        vec![(FAUCET_PACKAGE, "Faucet", FAUCET.into())],
        vec![(PACKAGE_PACKAGE, "Package", some_package().into()), (RESOURCE_PACKAGE, "Fungible \"R\"", XRD.into())],
    ]
}
