//! C33 — only valid signatures authorize a transaction.
//!
//! Every payload (seed, signature-list perturbation, byte mutation) goes through the real
//! `RawNotarizedTransaction::validate`. Oracle, from the statement:
//!   * accepted  =>  the reference (below) says every intent signature verifies over the hash of the intent it is
//!     attached to and the notary signature verifies over the signed-intent hash, and the signer sets handed out
//!     (root intent, each subintent) equal the reference sets: keys whose signatures verified, plus the notary iff it is
//!     declared a signatory, as sets;
//!   * a single-byte alteration of a valid transaction that is still accepted must leave the signed content (signed
//!     intent hash) and the signer sets unchanged (i.e. it can only be an equivalent notary-signature encoding);
//!   * well-formed seeds whose signers are distinct from each other and from the notary must be accepted.
//! Reference: typed decode of the payload; hashes as reported by the real preparation (their correctness is C32); each
//! secp256k1 signature: recover the key, then verify it with the non-recovering primitive; each ed25519 signature:
//! verify with the attached key (primitives are C48's subject); notary: verify(signed-intent hash, notary key).
//!
//! Enumerated: (1) V1: every subset of signers {secp a, secp b, ed c} x notary in {a, c, n} x notary_is_signatory;
//! V2: the same for the root x {no subintent, one subintent with every signer subset, two nested subintents with
//! signer subsets from a 4-element menu each}; (2) on 7 seeds every signature-list perturbation (duplicate / drop /
//! copy into another intent's list / sign another hash / reuse the notary signature / wrong attached ed25519 key /
//! recovery-id flip / reversed order), each re-notarized and also with the stale notary signature; (3) every offset of
//! the 7 seeds' raw bytes x substitutions (quick: orig^1, orig^0x80, 0x00, 0xFF; thorough: all 255, plus all 255x255
//! substitutions of two adjacent bytes on the two smallest seeds).
//! (4) signature reuse, with no cryptographic reference at all: a family of degenerate (key, signature) byte pairs
//! (ed25519: 15 small-order / non-canonical point encodings as key x as R x s in {0,1,L,L-1}; secp256k1: r,s in
//! {0,1,n-1,n,ff..ff} x 6 recovery-id bytes x 7 invalid / special keys) plus honest signatures made for one content is
//! placed, byte-identical, as V1 intent signature, V1 notary signature (+- signatory), V2 root intent signature, V2
//! subintent signature and V2 notary signature on 3 transactions that differ only in nonce / discriminator: the same
//! (key, signature) must never be accepted as authorising the same key on two different contents.
use crate::txseeds::*;
use mc_core::{catch, par_range, Ctx, Level, Local};
use radix_common::prelude::*;
use radix_transactions::errors::*;
use radix_transactions::model::*;
use radix_transactions::signing::Signer;
use radix_transactions::validation::*;
use serde_json::{json, Map, Value};
use std::collections::BTreeSet;
use std::sync::atomic::{AtomicU64, Ordering};

type KeySet = BTreeSet<String>;

fn key_str(k: &PublicKey) -> String {
    match k {
        PublicKey::Secp256k1(k) => format!("secp:{}", mc_core::hex(&k.0)),
        PublicKey::Ed25519(k) => format!("ed:{}", mc_core::hex(&k.0)),
    }
}

#[derive(Debug, Clone, PartialEq, Eq)]
struct SignerSets {
    root: KeySet,
    subs: Vec<KeySet>,
}

#[derive(Debug, Clone, PartialEq, Eq)]
enum Ref {
    Valid(SignerSets),
    Invalid(&'static str),
    Undecided(&'static str),
}

fn ref_list(sigs: &[IntentSignatureV1], h: &Hash) -> Result<KeySet, Ref> {
    let mut out = KeySet::new();
    for s in sigs {
        match &s.0 {
            SignatureWithPublicKeyV1::Secp256k1 { signature } => {
                let Some(pk) = verify_and_recover_secp256k1(h, signature) else { return Err(Ref::Invalid("intent-signature-does-not-recover")) };
                if !verify_secp256k1(h, &pk, signature) {
                    return Err(Ref::Undecided("recovered-key-does-not-verify-with-the-plain-primitive"));
                }
                out.insert(key_str(&PublicKey::Secp256k1(pk)));
            }
            SignatureWithPublicKeyV1::Ed25519 { public_key, signature } => {
                if !verify_ed25519(h, public_key, signature) {
                    return Err(Ref::Invalid("intent-signature-does-not-verify"));
                }
                out.insert(key_str(&PublicKey::Ed25519(*public_key)));
            }
        }
    }
    Ok(out)
}

fn ref_notary(pk: &PublicKey, sig: &SignatureV1, h: &Hash) -> bool {
    match (pk, sig) {
        (PublicKey::Secp256k1(pk), SignatureV1::Secp256k1(sig)) => verify_secp256k1(h, pk, sig),
        (PublicKey::Ed25519(pk), SignatureV1::Ed25519(sig)) => verify_ed25519(h, pk, sig),
        _ => false,
    }
}

struct Hashes {
    intent: Hash,
    signed: Hash,
    subs: Vec<Hash>,
}

fn reference(t: &UserTransaction, h: &Hashes) -> Ref {
    let run = || -> Result<SignerSets, Ref> {
        match t {
            UserTransaction::V1(t) => {
                let mut root = ref_list(&t.signed_intent.intent_signatures.signatures, &h.intent)?;
                let header = &t.signed_intent.intent.header;
                if !ref_notary(&header.notary_public_key, &t.notary_signature.0, &h.signed) {
                    return Err(Ref::Invalid("notary-signature-does-not-verify"));
                }
                if header.notary_is_signatory {
                    root.insert(key_str(&header.notary_public_key));
                }
                Ok(SignerSets { root, subs: vec![] })
            }
            UserTransaction::V2(t) => {
                let si = &t.signed_transaction_intent;
                let mut root = ref_list(&si.transaction_intent_signatures.signatures, &h.intent)?;
                if si.non_root_subintent_signatures.by_subintent.len() != h.subs.len() {
                    return Err(Ref::Invalid("signature-batches-do-not-match-subintents"));
                }
                let mut subs = vec![];
                for (batch, sh) in si.non_root_subintent_signatures.by_subintent.iter().zip(&h.subs) {
                    subs.push(ref_list(&batch.signatures, sh)?);
                }
                let header = &si.transaction_intent.transaction_header;
                if !ref_notary(&header.notary_public_key, &t.notary_signature.0, &h.signed) {
                    return Err(Ref::Invalid("notary-signature-does-not-verify"));
                }
                if header.notary_is_signatory {
                    root.insert(key_str(&header.notary_public_key));
                }
                Ok(SignerSets { root, subs })
            }
        }
    };
    match run() {
        Ok(s) => Ref::Valid(s),
        Err(r) => r,
    }
}

// ------------------------------------------------------------------------------------------------

fn err_label(e: &TransactionValidationError) -> String {
    let head = |s: String| s.split(|c: char| c == '(' || c == '{' || c == ' ').next().unwrap_or("").to_string();
    match e {
        TransactionValidationError::PrepareError(PrepareError::DecodeError(d)) => format!("prepare:DecodeError:{}", head(format!("{d:?}"))),
        TransactionValidationError::PrepareError(p) => format!("prepare:{}", head(format!("{p:?}"))),
        TransactionValidationError::SignatureValidationError(_, s) => format!("signature:{}", head(format!("{s:?}"))),
        TransactionValidationError::IntentValidationError(_, i) => format!("intent:{}", head(format!("{i:?}"))),
        TransactionValidationError::SubintentStructureError(_, s) => format!("structure:{}", head(format!("{s:?}"))),
        other => head(format!("{other:?}")),
    }
}

fn reached_signature_verification(e: &TransactionValidationError) -> bool {
    matches!(
        e,
        TransactionValidationError::SignatureValidationError(
            _,
            SignatureValidationError::InvalidIntentSignature
                | SignatureValidationError::InvalidNotarySignature
                | SignatureValidationError::DuplicateSigner
                | SignatureValidationError::NotaryIsSignatorySoShouldNotAlsoBeASigner
        )
    )
}

struct SeedFacts {
    signed_hash: Hash,
    sets: SignerSets,
}

struct Stats {
    reached: AtomicU64,
    accepted: AtomicU64,
    payloads: AtomicU64,
}

#[derive(Clone, Copy, PartialEq, Eq)]
enum Expect {
    MustAccept,
    Any,
}

/// `seed`: for byte mutations, the facts of the unmutated transaction (single-byte rule of the statement).
#[allow(clippy::too_many_arguments)]
fn check(validator: &TransactionValidator, bytes: &[u8], family: &str, how: &dyn Fn() -> Value, expect: Expect, seed: Option<&SeedFacts>, l: &mut Local, stats: &Stats) -> Option<SeedFacts> {
    l.eval();
    stats.payloads.fetch_add(1, Ordering::Relaxed);
    let raw = RawNotarizedTransaction::from_slice(bytes);
    let case = || json!({"family": family, "derivation": how(), "payload_hex": mc_core::hex(bytes)});
    let real = match catch(|| raw.validate(validator)) {
        Ok(r) => r,
        Err(p) => {
            l.class(&format!("{family}:panicked"));
            l.info(&format!("panic:{}", mc_core::truncate(&p, 80)));
            return None;
        }
    };
    let validated = match real {
        Err(e) => {
            if reached_signature_verification(&e) {
                stats.reached.fetch_add(1, Ordering::Relaxed);
            }
            if expect == Expect::MustAccept {
                l.violation(format!("{family}:valid-transaction-rejected:{}", err_label(&e)), format!("a correctly signed transaction with distinct signers is rejected: {e:?}"), case());
            } else {
                l.class(&format!("{family}:rejected:{}", err_label(&e)));
            }
            return None;
        }
        Ok(v) => v,
    };
    stats.reached.fetch_add(1, Ordering::Relaxed);
    stats.accepted.fetch_add(1, Ordering::Relaxed);
    let (got, hashes) = match &validated {
        ValidatedUserTransaction::V1(v) => (
            SignerSets { root: v.signer_keys.iter().map(key_str).collect(), subs: vec![] },
            Hashes { intent: v.prepared.transaction_intent_hash().0, signed: v.prepared.signed_transaction_intent_hash().0, subs: vec![] },
        ),
        ValidatedUserTransaction::V2(v) => (
            SignerSets { root: v.transaction_intent_info.signer_keys.iter().map(key_str).collect(), subs: v.non_root_subintents_info.iter().map(|i| i.signer_keys.iter().map(key_str).collect()).collect() },
            Hashes {
                intent: v.prepared.transaction_intent_hash().0,
                signed: v.prepared.signed_transaction_intent_hash().0,
                subs: v.prepared.non_root_subintent_hashes().into_iter().map(|h| h.0).collect(),
            },
        ),
    };
    // the signer collections handed out must not contain duplicates (they are sets by type; compare sizes anyway)
    let listed = match &validated {
        ValidatedUserTransaction::V1(v) => v.signer_keys.len(),
        ValidatedUserTransaction::V2(v) => v.transaction_intent_info.signer_keys.len(),
    };
    if listed != got.root.len() {
        l.violation(format!("{family}:duplicate-in-signer-set"), "the root signer collection lists a key twice", case());
    }
    let typed = match UserTransaction::from_raw(&raw) {
        Ok(t) => t,
        Err(_) => {
            l.info(&format!("{family}:accepted-but-typed-decode-fails"));
            return None;
        }
    };
    match reference(&typed, &hashes) {
        Ref::Valid(want) => {
            if want != got {
                l.violation(format!("{family}:signer-set-differs"), format!("signer sets handed out {got:?}, reference (keys whose signatures verify + notary iff signatory) {want:?}"), case());
                return None;
            }
        }
        Ref::Invalid(why) => {
            l.violation(format!("{family}:accepted-but-{why}"), format!("validation succeeded although the reference says: {why}"), case());
            return None;
        }
        Ref::Undecided(why) => {
            // no verdict from the reference, but the acceptance itself is a fact other oracles (signature reuse) use
            l.info(&format!("{family}:accepted:undecided:{why}"));
            return Some(SeedFacts { signed_hash: hashes.signed, sets: got });
        }
    }
    if let Some(seed) = seed {
        if hashes.signed != seed.signed_hash {
            l.violation(format!("{family}:byte-altered-signed-content-accepted"), "a single-byte alteration changed the signed content and the transaction is still accepted", case());
            return None;
        }
        if got != seed.sets {
            l.violation(format!("{family}:byte-altered-signer-set-accepted"), format!("a single-byte alteration changed the signer sets from {:?} to {got:?}", seed.sets), case());
            return None;
        }
        l.class(&format!("{family}:accepted:same-content-same-signers"));
        let d = how();
        l.info(&format!(
            "{family}:accepted-alteration:{}@offset{}(of {})={}",
            d.get("seed").and_then(|x| x.as_str()).unwrap_or("?"),
            d.get("offset").and_then(|x| x.as_u64()).unwrap_or(0),
            bytes.len(),
            d.get("value").and_then(|x| x.as_u64()).unwrap_or(0)
        ));
    } else {
        l.class(&format!("{family}:accepted:signers={}", got.root.len() + got.subs.iter().map(|s| s.len()).sum::<usize>()));
        l.sample(|| json!({"family": family, "derivation": how(), "signers": {"root": got.root, "subintents": got.subs}}));
    }
    Some(SeedFacts { signed_hash: hashes.signed, sets: got })
}

// ------------------------------------------------------------------------------------------------
// (1) product of signer / notary choices
// ------------------------------------------------------------------------------------------------

const DOUBLE_WALL_CAP_S: f64 = 900.0;
const DOUBLE_SEEDS: [&str; 2] = ["v1-k0-notary-a", "v2-k1-no-subintents"];
const A: KeyId = KeyId::Secp(1);
const B: KeyId = KeyId::Secp(2);
const C: KeyId = KeyId::Ed(3);
const N: KeyId = KeyId::Secp(900);

fn subset(mask: u32) -> Vec<KeyId> {
    [A, B, C].iter().enumerate().filter(|(i, _)| mask & (1 << i) != 0).map(|(_, k)| *k).collect()
}

fn product_specs() -> Vec<TxSpec> {
    let mut out = vec![];
    for v2 in [false, true] {
        for root_mask in 0..8u32 {
            for notary in [A, C, N] {
                for sig in [false, true] {
                    let mut base = TxSpec::base(v2);
                    base.root.signers = subset(root_mask);
                    base.notary = notary;
                    base.notary_is_signatory = sig;
                    out.push(base.clone());
                    if v2 {
                        for m0 in 0..8u32 {
                            let mut s = base.clone();
                            let mut a = IntentSpec::base(1);
                            a.signers = subset(m0);
                            s.subs = vec![a];
                            s.root.children = vec![0];
                            out.push(s);
                        }
                        let menu: [Vec<KeyId>; 4] = [vec![], vec![A], vec![C, B], vec![A, B, C]];
                        for m0 in &menu {
                            for m1 in &menu {
                                let mut s = base.clone();
                                let mut a = IntentSpec::base(1);
                                a.signers = m0.clone();
                                a.children = vec![1];
                                let mut b = IntentSpec::base(2);
                                b.signers = m1.clone();
                                s.subs = vec![a, b];
                                s.root.children = vec![0];
                                out.push(s);
                            }
                        }
                    }
                }
            }
        }
    }
    out
}

fn plain_valid(s: &TxSpec) -> bool {
    // distinct signers per intent (by construction) and the notary is not among the root signers
    !s.root.signers.contains(&s.notary)
}

// ------------------------------------------------------------------------------------------------
// (2) signature-list perturbations
// ------------------------------------------------------------------------------------------------

fn mutation_seeds() -> Vec<(&'static str, TxSpec)> {
    let mut out = vec![];
    let mut s = TxSpec::base(false);
    s.notary = A;
    out.push(("v1-k0-notary-a", s));
    let mut s = TxSpec::base(false);
    s.root.signers = vec![A, C];
    s.notary = KeyId::Ed(901);
    s.notary_is_signatory = true;
    out.push(("v1-k2-ed-notary-signatory", s));
    let mut s = TxSpec::base(false);
    s.root.signers = vec![A, B, C];
    out.push(("v1-k3", s));
    let mut s = TxSpec::base(true);
    s.root.signers = vec![C];
    out.push(("v2-k1-no-subintents", s));
    let mut s = TxSpec::base(true);
    s.root.signers = vec![A];
    s.root.children = vec![0];
    let mut a = IntentSpec::base(1);
    a.signers = vec![B, C];
    s.subs = vec![a];
    out.push(("v2-k1-sub-k2", s));
    let mut s = TxSpec::base(true);
    s.root.signers = vec![A, C];
    s.root.children = vec![0];
    let mut a = IntentSpec::base(1);
    a.signers = vec![B];
    a.children = vec![1];
    let mut b = IntentSpec::base(2);
    b.signers = vec![KeyId::Ed(4)];
    s.subs = vec![a, b];
    s.notary = KeyId::Ed(901);
    s.notary_is_signatory = true;
    out.push(("v2-k2-two-nested-subs-ed-notary", s));
    let mut s = TxSpec::base(true);
    s.root.children = vec![0];
    let mut a = IntentSpec::base(1);
    a.signers = vec![A, B, C];
    s.subs = vec![a];
    out.push(("v2-k0-sub-k3", s));
    out
}

/// mutable access to the signature lists (index 0 = root intent) and the hashes they must sign
fn lists(t: &mut BuiltTx) -> Vec<&mut Vec<IntentSignatureV1>> {
    match t {
        BuiltTx::V1(t) => vec![&mut t.signed_intent.intent_signatures.signatures],
        BuiltTx::V2(t) => {
            let si = &mut t.signed_transaction_intent;
            let mut v = vec![&mut si.transaction_intent_signatures.signatures];
            v.extend(si.non_root_subintent_signatures.by_subintent.iter_mut().map(|b| &mut b.signatures));
            v
        }
    }
}

fn signed_hash_of(t: &BuiltTx) -> Hash {
    let s = permissive_settings();
    match t {
        BuiltTx::V1(t) => t.signed_intent.prepare(&s).expect("prepares").signed_transaction_intent_hash().0,
        BuiltTx::V2(t) => t.signed_transaction_intent.prepare(&s).expect("prepares").signed_transaction_intent_hash().0,
    }
}

fn intent_hashes_of(t: &BuiltTx) -> Vec<Hash> {
    let s = permissive_settings();
    match t {
        BuiltTx::V1(t) => vec![t.signed_intent.intent.prepare(&s).expect("prepares").transaction_intent_hash().0],
        BuiltTx::V2(t) => {
            let p = t.signed_transaction_intent.transaction_intent.prepare(&s).expect("prepares");
            let mut v = vec![p.transaction_intent_hash().0];
            v.extend(p.non_root_subintents.subintents.iter().map(|s| s.subintent_hash().0));
            v
        }
    }
}

fn renotarize(t: &mut BuiltTx, notary: KeyId) {
    let h = signed_hash_of(t);
    let sig = notary.private().sign_without_public_key(&h);
    match t {
        BuiltTx::V1(t) => t.notary_signature = NotarySignatureV1(sig),
        BuiltTx::V2(t) => t.notary_signature = NotarySignatureV2(sig),
    }
}

fn clone_built(t: &BuiltTx) -> BuiltTx {
    match t {
        BuiltTx::V1(t) => BuiltTx::V1(t.clone()),
        BuiltTx::V2(t) => BuiltTx::V2(t.clone()),
    }
}

/// every perturbation of the signature lists of `t` (labels + perturbed transactions, not yet re-notarized)
fn perturbations(spec: &TxSpec, t: &BuiltTx) -> Vec<(String, BuiltTx)> {
    let mut out = vec![];
    let hashes = intent_hashes_of(t);
    let signed = signed_hash_of(t);
    let signer_lists: Vec<Vec<KeyId>> = std::iter::once(spec.root.signers.clone()).chain(spec.subs.iter().map(|s| s.signers.clone())).collect();
    let n_lists = signer_lists.len();
    let mut push = |label: String, f: &dyn Fn(&mut Vec<&mut Vec<IntentSignatureV1>>)| {
        let mut c = clone_built(t);
        {
            let mut ls = lists(&mut c);
            f(&mut ls);
        }
        out.push((label, c));
    };
    let notary_as_intent_sig = IntentSignatureV1(spec.notary.private().sign_with_public_key(&signed));
    let mut other_hashes: Vec<(String, Hash)> = hashes.iter().enumerate().map(|(i, h)| (format!("intent-hash[{i}]"), *h)).collect();
    other_hashes.push(("signed-intent-hash".into(), signed));
    other_hashes.push(("zero-hash".into(), Hash([0u8; 32])));
    for i in 0..n_lists {
        let nsig = signer_lists[i].len();
        push(format!("list[{i}]:append-notary-signature-over-signed-hash"), &|ls| ls[i].push(notary_as_intent_sig.clone()));
        push(format!("list[{i}]:append-notary-key-signing-this-intent"), &|ls| ls[i].push(IntentSignatureV1(spec.notary.private().sign_with_public_key(&hashes[i]))));
        if nsig >= 2 {
            push(format!("list[{i}]:reverse"), &|ls| ls[i].reverse());
        }
        for j in 0..nsig {
            push(format!("list[{i}]:duplicate[{j}]"), &|ls| {
                let s = ls[i][j].clone();
                ls[i].push(s);
            });
            push(format!("list[{i}]:drop[{j}]"), &|ls| {
                ls[i].remove(j);
            });
            for i2 in 0..n_lists {
                if i2 != i {
                    push(format!("list[{i}][{j}]:copy-into-list[{i2}]"), &|ls| {
                        let s = ls[i][j].clone();
                        ls[i2].push(s);
                    });
                    push(format!("list[{i}][{j}]:move-into-list[{i2}]"), &|ls| {
                        let s = ls[i].remove(j);
                        ls[i2].push(s);
                    });
                }
            }
            for (name, h) in &other_hashes {
                if *h != hashes[i] {
                    let k = signer_lists[i][j];
                    push(format!("list[{i}][{j}]:signs-{name}-instead"), &|ls| ls[i][j] = IntentSignatureV1(k.private().sign_with_public_key(h)));
                }
            }
            match signer_lists[i][j] {
                KeyId::Ed(_) => {
                    push(format!("list[{i}][{j}]:ed25519-attached-key-swapped"), &|ls| {
                        if let SignatureWithPublicKeyV1::Ed25519 { public_key, .. } = &mut ls[i][j].0 {
                            *public_key = Ed25519PrivateKey::from_u64(4242).unwrap().public_key();
                        }
                    });
                }
                KeyId::Secp(_) => {
                    for flip in [1u8, 2, 3] {
                        push(format!("list[{i}][{j}]:secp-recovery-id^{flip}"), &|ls| {
                            if let SignatureWithPublicKeyV1::Secp256k1 { signature } = &mut ls[i][j].0 {
                                signature.0[0] ^= flip;
                            }
                        });
                    }
                }
            }
        }
    }
    out
}

// ------------------------------------------------------------------------------------------------
// (4) signature reuse: the same (key, signature) bytes on transactions with different content
// ------------------------------------------------------------------------------------------------
//
// No cryptographic reference is involved: whatever a (key, signature) pair is, it must not be accepted as
// authorising two different contents. The family is made of degenerate encodings (small-order / non-canonical
// ed25519 points as key and as R with s in {0, 1, L, L-1}; secp256k1 r, s in {0, 1, n-1, n, ff..ff} with every
// recovery id, invalid / infinity keys) plus honest signatures made for content 0.

#[derive(Clone, Copy, PartialEq, Eq, Debug)]
enum Pos {
    V1Intent,
    V1Notary(bool),
    V2Root,
    V2Sub,
    V2Notary(bool),
}

impl Pos {
    fn label(&self) -> &'static str {
        match self {
            Pos::V1Intent => "v1-intent-signature",
            Pos::V1Notary(false) => "v1-notary-signature",
            Pos::V1Notary(true) => "v1-notary-signature(signatory)",
            Pos::V2Root => "v2-root-intent-signature",
            Pos::V2Sub => "v2-subintent-signature",
            Pos::V2Notary(false) => "v2-notary-signature",
            Pos::V2Notary(true) => "v2-notary-signature(signatory)",
        }
    }
    fn is_notary(&self) -> bool {
        matches!(self, Pos::V1Notary(_) | Pos::V2Notary(_))
    }
}

const ALL_POS: [Pos; 7] = [Pos::V1Intent, Pos::V1Notary(false), Pos::V1Notary(true), Pos::V2Root, Pos::V2Sub, Pos::V2Notary(false), Pos::V2Notary(true)];
const REUSE_CONTENTS: usize = 3;

#[derive(Clone)]
struct Pair {
    label: String,
    ed: bool,
    /// 32 (ed25519) or 33 (secp256k1) bytes; for secp256k1 intent signatures there is no attached key
    key: Vec<u8>,
    /// 64 (ed25519) or 65 (secp256k1) bytes
    sig: Vec<u8>,
    /// honest signature made for content 0 of this position only
    honest_for: Option<Pos>,
}

impl Pair {
    fn public_key(&self) -> PublicKey {
        if self.ed {
            PublicKey::Ed25519(Ed25519PublicKey(self.key.clone().try_into().unwrap()))
        } else {
            PublicKey::Secp256k1(Secp256k1PublicKey(self.key.clone().try_into().unwrap()))
        }
    }
    fn intent_signature(&self) -> IntentSignatureV1 {
        IntentSignatureV1(if self.ed {
            SignatureWithPublicKeyV1::Ed25519 { public_key: Ed25519PublicKey(self.key.clone().try_into().unwrap()), signature: Ed25519Signature(self.sig.clone().try_into().unwrap()) }
        } else {
            SignatureWithPublicKeyV1::Secp256k1 { signature: Secp256k1Signature(self.sig.clone().try_into().unwrap()) }
        })
    }
    fn notary_signature(&self) -> SignatureV1 {
        if self.ed {
            SignatureV1::Ed25519(Ed25519Signature(self.sig.clone().try_into().unwrap()))
        } else {
            SignatureV1::Secp256k1(Secp256k1Signature(self.sig.clone().try_into().unwrap()))
        }
    }
}

fn reuse_spec(pos: Pos, content: usize) -> TxSpec {
    let v2 = matches!(pos, Pos::V2Root | Pos::V2Sub | Pos::V2Notary(_));
    let mut s = TxSpec::base(v2);
    s.root.discriminator = 5000 + content as u64;
    if pos == Pos::V2Sub {
        let mut a = IntentSpec::base(1);
        a.discriminator = 7000 + content as u64;
        s.subs = vec![a];
        s.root.children = vec![0];
    }
    s
}

/// The real transaction for (position, content) carrying `pair` at that position (None: nothing at that position; the
/// notary positions then use the pair-less default notary). Returns the payload and the hash the position's signature
/// has to cover.
fn reuse_assemble(pos: Pos, content: usize, notary_key: Option<&PublicKey>, isig: Option<IntentSignatureV1>, nsig: Option<SignatureV1>) -> (Vec<u8>, Hash) {
    let spec = reuse_spec(pos, content);
    let settings = permissive_settings();
    let honest_notary = spec.notary;
    match pos {
        Pos::V1Intent | Pos::V1Notary(_) => {
            let mut intent = build_intent_v1(&spec, None);
            if let (Pos::V1Notary(flag), Some(k)) = (pos, notary_key) {
                intent.header.notary_public_key = *k;
                intent.header.notary_is_signatory = flag;
            }
            let intent_hash = intent.prepare(&settings).expect("prepares").transaction_intent_hash().0;
            let signed_intent = SignedIntentV1 { intent, intent_signatures: IntentSignaturesV1 { signatures: if pos == Pos::V1Intent { isig.into_iter().collect() } else { vec![] } } };
            let signed_hash = signed_intent.prepare(&settings).expect("prepares").signed_transaction_intent_hash().0;
            let notary_signature = match (pos, nsig) {
                (Pos::V1Notary(_), Some(s)) => s,
                _ => honest_notary.private().sign_without_public_key(&signed_hash),
            };
            let t = NotarizedTransactionV1 { signed_intent, notary_signature: NotarySignatureV1(notary_signature) };
            (t.to_raw().expect("encodes").to_vec(), if pos == Pos::V1Intent { intent_hash } else { signed_hash })
        }
        Pos::V2Root | Pos::V2Sub | Pos::V2Notary(_) => {
            let (mut intent, sub_hashes) = build_transaction_intent_v2(&spec, None);
            if let (Pos::V2Notary(flag), Some(k)) = (pos, notary_key) {
                intent.transaction_header.notary_public_key = *k;
                intent.transaction_header.notary_is_signatory = flag;
            }
            let intent_hash = intent.prepare(&settings).expect("prepares").transaction_intent_hash().0;
            let signed = SignedTransactionIntentV2 {
                transaction_intent: intent,
                transaction_intent_signatures: IntentSignaturesV2 { signatures: if pos == Pos::V2Root { isig.clone().into_iter().collect() } else { vec![] } },
                non_root_subintent_signatures: NonRootSubintentSignaturesV2 {
                    by_subintent: sub_hashes.iter().map(|_| IntentSignaturesV2 { signatures: if pos == Pos::V2Sub { isig.clone().into_iter().collect() } else { vec![] } }).collect(),
                },
            };
            let signed_hash = signed.prepare(&settings).expect("prepares").signed_transaction_intent_hash().0;
            let notary_signature = match (pos, nsig) {
                (Pos::V2Notary(_), Some(s)) => s,
                _ => honest_notary.private().sign_without_public_key(&signed_hash),
            };
            let t = NotarizedTransactionV2 { signed_transaction_intent: signed, notary_signature: NotarySignatureV2(notary_signature) };
            let covered = match pos {
                Pos::V2Root => intent_hash,
                Pos::V2Sub => sub_hashes[0].0,
                _ => signed_hash,
            };
            (t.to_raw().expect("encodes").to_vec(), covered)
        }
    }
}

fn unhex32(s: &str) -> [u8; 32] {
    mc_core::unhex(s).try_into().expect("32 bytes")
}

fn degenerate_pairs() -> Vec<Pair> {
    let mut out = vec![];
    // ---- ed25519: the 8 small-order encodings, the non-canonical encodings of 0 / 1 (y = p, y = p + 1), sign-bit
    // variants, all-ones
    let mut points: Vec<(&str, [u8; 32])> = vec![
        ("identity", unhex32("0100000000000000000000000000000000000000000000000000000000000000")),
        ("order2", unhex32("ecffffffffffffffffffffffffffffffffffffffffffffffffffffffffffff7f")),
        ("order4a", unhex32("0000000000000000000000000000000000000000000000000000000000000000")),
        ("order4b", unhex32("0000000000000000000000000000000000000000000000000000000000000080")),
        ("order8a", unhex32("26e8958fc2b227b045c3f489f2ef98f0d5dfac05d3c63339b13802886d53fc05")),
        ("order8b", unhex32("c7176a703d4dd84fba3c0b760d10670f2a2053fa2c39ccc64ec7fd7792ac037a")),
        ("order8c", unhex32("26e8958fc2b227b045c3f489f2ef98f0d5dfac05d3c63339b13802886d53fc85")),
        ("order8d", unhex32("c7176a703d4dd84fba3c0b760d10670f2a2053fa2c39ccc64ec7fd7792ac03fa")),
        ("identity-signbit", unhex32("0100000000000000000000000000000000000000000000000000000000000080")),
        ("order2-signbit", unhex32("ecffffffffffffffffffffffffffffffffffffffffffffffffffffffffffffff")),
        ("y=p", unhex32("edffffffffffffffffffffffffffffffffffffffffffffffffffffffffffff7f")),
        ("y=p-signbit", unhex32("edffffffffffffffffffffffffffffffffffffffffffffffffffffffffffffff")),
        ("y=p+1", unhex32("eeffffffffffffffffffffffffffffffffffffffffffffffffffffffffffff7f")),
        ("y=p+1-signbit", unhex32("eeffffffffffffffffffffffffffffffffffffffffffffffffffffffffffffff")),
    ];
    points.push(("all-ones", [0xff; 32]));
    let l = unhex32("edd3f55c1a631258d69cf7a2def9de1400000000000000000000000000000010");
    let mut l_minus_1 = l;
    l_minus_1[0] -= 1;
    let mut one = [0u8; 32];
    one[0] = 1;
    let scalars: [(&str, [u8; 32]); 4] = [("0", [0u8; 32]), ("1", one), ("L", l), ("L-1", l_minus_1)];
    for (kn, k) in &points {
        for (rn, r) in &points {
            for (sn, sc) in &scalars {
                out.push(Pair { label: format!("ed25519:key={kn},R={rn},s={sn}"), ed: true, key: k.to_vec(), sig: [r.as_slice(), sc.as_slice()].concat(), honest_for: None });
            }
        }
    }
    // ---- secp256k1: r, s in {0, 1, n-1, n, ff..ff}, every recovery id byte in {0,1,2,3,4,255}; keys for the notary
    // positions: invalid / infinity-like encodings, the generator, an honest key
    let n = unhex32("fffffffffffffffffffffffffffffffebaaedce6af48a03bbfd25e8cd0364141");
    let mut n_minus_1 = n;
    n_minus_1[31] -= 1;
    let mut be_one = [0u8; 32];
    be_one[31] = 1;
    let vals: [(&str, [u8; 32]); 5] = [("0", [0u8; 32]), ("1", be_one), ("n-1", n_minus_1), ("n", n), ("ff", [0xff; 32])];
    let mut zero_key = vec![0u8; 33];
    let keys: Vec<(&str, Vec<u8>)> = vec![
        ("zeros", zero_key.clone()),
        ("02|zeros", {
            zero_key[0] = 2;
            zero_key.clone()
        }),
        ("03|zeros", {
            zero_key[0] = 3;
            zero_key.clone()
        }),
        ("04|zeros", {
            zero_key[0] = 4;
            zero_key.clone()
        }),
        ("02|ff", [vec![2u8], vec![0xff; 32]].concat()),
        ("generator", mc_core::unhex("0279be667ef9dcbbac55a06295ce870b07029bfcdb2dce28d959f2815b16f81798")),
        ("honest-key-b", match KeyId::Secp(2).public() {
            PublicKey::Secp256k1(k) => k.0.to_vec(),
            _ => unreachable!(),
        }),
    ];
    for (rn, r) in &vals {
        for (sn, sv) in &vals {
            for recid in [0u8, 1, 2, 3, 4, 255] {
                let sig = [vec![recid], r.to_vec(), sv.to_vec()].concat();
                for (kn, k) in &keys {
                    out.push(Pair { label: format!("secp256k1:key={kn},recid={recid},r={rn},s={sn}"), ed: false, key: k.clone(), sig: sig.clone(), honest_for: None });
                }
            }
        }
    }
    // ---- honest signatures made for content 0 of each position (transplants onto the other contents must fail)
    for pos in ALL_POS {
        for signer in [KeyId::Ed(3), KeyId::Secp(1)] {
            let pk = signer.public();
            let (_, covered) = reuse_assemble(pos, 0, Some(&pk), None, None);
            let (key, sig, ed) = match (signer.private().sign_without_public_key(&covered), &pk) {
                (SignatureV1::Ed25519(s), PublicKey::Ed25519(k)) => (k.0.to_vec(), s.0.to_vec(), true),
                (SignatureV1::Secp256k1(s), PublicKey::Secp256k1(k)) => (k.0.to_vec(), s.0.to_vec(), false),
                _ => unreachable!(),
            };
            out.push(Pair { label: format!("honest:{}:signed-for-content-0-of-{}", signer.label(), pos.label()), ed, key, sig, honest_for: Some(pos) });
        }
    }
    out
}

fn run_reuse(validator: &TransactionValidator, pair: &Pair, l: &mut Local, stats: &Stats, reuse_cases: &AtomicU64) {
    for pos in ALL_POS {
        if let Some(p) = pair.honest_for {
            if p != pos {
                continue;
            }
        }
        // a secp256k1 intent signature carries no key: the key variants only matter at the notary positions
        if !pair.ed && !pos.is_notary() && !pair.label.contains("key=zeros") && pair.honest_for.is_none() {
            continue;
        }
        let pk = pair.public_key();
        let mut accepted: Vec<(usize, Hash, KeySet, Vec<u8>)> = vec![];
        for content in 0..REUSE_CONTENTS {
            let (bytes, covered) = reuse_assemble(pos, content, Some(&pk), Some(pair.intent_signature()), Some(pair.notary_signature()));
            reuse_cases.fetch_add(1, Ordering::Relaxed);
            let expect = if pair.honest_for.is_some() && content == 0 { Expect::MustAccept } else { Expect::Any };
            let how = || json!({"pair": pair.label, "position": pos.label(), "content": content, "key_hex": mc_core::hex(&pair.key), "signature_hex": mc_core::hex(&pair.sig)});
            if let Some(f) = check(validator, &bytes, "sigreuse", &how, expect, None, l, stats) {
                // keys authorised at this position
                let keys: KeySet = match pos {
                    Pos::V1Intent | Pos::V2Root => f.sets.root.clone(),
                    Pos::V2Sub => f.sets.subs.first().cloned().unwrap_or_default(),
                    Pos::V1Notary(_) | Pos::V2Notary(_) => [key_str(&pk)].into_iter().collect(),
                };
                accepted.push((content, covered, keys, bytes));
            }
        }
        for a in 0..accepted.len() {
            for b in a + 1..accepted.len() {
                let (ca, ha, ka, bytes_a) = &accepted[a];
                let (cb, hb, kb, bytes_b) = &accepted[b];
                let common: Vec<&String> = ka.intersection(kb).collect();
                if ha != hb && !common.is_empty() {
                    l.violation(
                        format!("same-signature-accepted-for-two-contents:{}", pos.label()),
                        format!("{}: the same (key, signature) bytes are accepted on contents {ca} and {cb} (covered hashes {ha} / {hb}) and authorise key {} on both", pair.label, common[0]),
                        json!({"family": "sigreuse", "derivation": {"pair": pair.label, "position": pos.label(), "contents": [ca, cb], "key_hex": mc_core::hex(&pair.key), "signature_hex": mc_core::hex(&pair.sig), "other_payload_hex": mc_core::hex(bytes_a)}, "payload_hex": mc_core::hex(bytes_b)}),
                    );
                }
            }
        }
        l.class(&format!("sigreuse:{}:accepted-on-{}-of-{}-contents", if pos.is_notary() { "notary" } else { "intent" }, accepted.len(), REUSE_CONTENTS));
    }
}

// ------------------------------------------------------------------------------------------------

pub fn run(ctx: Ctx) -> ! {
    assert_signing_is_deterministic();
    let validator = TransactionValidator::new_with_static_config(TransactionValidationConfig::latest(), NETWORK);
    let babylon = TransactionValidator::new_with_static_config(TransactionValidationConfig::babylon(), NETWORK);
    let stats = Stats { reached: AtomicU64::new(0), accepted: AtomicU64::new(0), payloads: AtomicU64::new(0) };

    if let Some(case) = ctx.read_replay_case() {
        let bytes = mc_core::unhex(case.get("payload_hex").and_then(|x| x.as_str()).unwrap_or(""));
        let family = case.get("family").and_then(|x| x.as_str()).unwrap_or("replay").to_string();
        let mut l = Local::new();
        let raw = RawNotarizedTransaction::from_slice(&bytes);
        println!("real: {:?}", catch(|| raw.validate(&validator).map(|_| "accepted").map_err(|e| err_label(&e))));
        let d = case.get("derivation").cloned().unwrap_or(Value::Null);
        // for byte mutations the seed facts are recomputed from the recorded seed payload
        let seed = case.pointer("/derivation/seed_hex").and_then(|x| x.as_str()).and_then(|h| check(&validator, &mc_core::unhex(h), "seed", &|| json!("replay seed"), Expect::Any, None, &mut l, &stats));
        let second = check(&validator, &bytes, &family, &|| d.clone(), Expect::Any, seed.as_ref(), &mut l, &stats);
        // signature-reuse cases carry the other transaction that bears the same (key, signature) bytes
        if let Some(other) = case.pointer("/derivation/other_payload_hex").and_then(|x| x.as_str()) {
            let other = mc_core::unhex(other);
            println!("real (other content): {:?}", catch(|| RawNotarizedTransaction::from_slice(&other).validate(&validator).map(|_| "accepted").map_err(|e| err_label(&e))));
            let first = check(&validator, &other, &family, &|| d.clone(), Expect::Any, None, &mut l, &stats);
            if let (Some(a), Some(b)) = (first, second) {
                if a.signed_hash != b.signed_hash {
                    let pos = case.pointer("/derivation/position").and_then(|x| x.as_str()).unwrap_or("?");
                    l.violation(format!("same-signature-accepted-for-two-contents:{pos}"), "both transactions carrying the same (key, signature) bytes are accepted", case.clone());
                }
            }
        }
        ctx.merge(l);
        ctx.finish(Level::Exploration, "replay", 1, false, Map::new(), &[]);
    }

    // ---- (1) product ---------------------------------------------------------------------------------
    let specs = product_specs();
    par_range(&ctx, specs.len() as u64, 4, |i, l| {
        let spec = &specs[i as usize];
        let (_, raw) = build(spec).expect("builds");
        let expect = if plain_valid(spec) { Expect::MustAccept } else { Expect::Any };
        let how = || json!({"spec": spec.to_json()});
        check(&validator, raw.as_slice(), "product", &how, expect, None, l, &stats);
        if !spec.v2 {
            check(&babylon, raw.as_slice(), "product-babylon", &how, expect, None, l, &stats);
        }
    });

    // ---- (2) signature-list perturbations ---------------------------------------------------------------
    let seeds = mutation_seeds();
    let mut perturbed: Vec<(String, Vec<u8>)> = vec![];
    let mut seed_raws: Vec<(&'static str, Vec<u8>)> = vec![];
    for (name, spec) in &seeds {
        let (built, raw) = build(spec).expect("builds");
        seed_raws.push((name, raw.to_vec()));
        for (label, mut p) in perturbations(spec, &built) {
            perturbed.push((format!("{name}:{label}:stale-notary-signature"), p.to_raw().to_vec()));
            renotarize(&mut p, spec.notary);
            perturbed.push((format!("{name}:{label}:renotarized"), p.to_raw().to_vec()));
        }
    }
    par_range(&ctx, perturbed.len() as u64, 4, |i, l| {
        let (label, bytes) = &perturbed[i as usize];
        check(&validator, bytes, "siglist", &|| json!(label), Expect::Any, None, l, &stats);
    });

    // ---- (3) byte substitutions ---------------------------------------------------------------------------
    let mut facts = vec![];
    {
        let mut l = Local::new();
        for (name, raw) in &seed_raws {
            let f = check(&validator, raw, "seed", &|| json!(name), Expect::MustAccept, None, &mut l, &stats);
            facts.push(f);
        }
        ctx.merge(l);
    }
    let all = !ctx.quick();
    let double = AtomicU64::new(0);
    let mut jobs: Vec<(usize, usize)> = vec![];
    for (si, (_, raw)) in seed_raws.iter().enumerate() {
        if facts[si].is_some() {
            for off in 0..raw.len() {
                jobs.push((si, off));
            }
        }
    }
    par_range(&ctx, jobs.len() as u64, 4, |j, l| {
        let (si, off) = jobs[j as usize];
        let (name, raw) = &seed_raws[si];
        let orig = raw[off];
        let values: Vec<u8> = if all {
            (0..=255u8).filter(|b| *b != orig).collect()
        } else {
            let mut v = vec![];
            for b in [orig ^ 1, orig ^ 0x80, 0x00, 0xFF] {
                if b != orig && !v.contains(&b) {
                    v.push(b);
                }
            }
            v
        };
        let mut buf = raw.clone();
        for b in values {
            buf[off] = b;
            check(&validator, &buf, "byte", &|| json!({"seed": name, "offset": off, "value": b, "seed_hex": mc_core::hex(raw)}), Expect::Any, facts[si].as_ref(), l, &stats);
        }
    });

    // thorough: every substitution of two adjacent bytes on the two smallest seeds (the signature that covers the
    // content still has to break, whatever the pair); wall-capped, the sweeps above always complete
    let double_jobs: Vec<(usize, usize)> = if all { jobs.iter().copied().filter(|(si, off)| DOUBLE_SEEDS.contains(&seed_raws[*si].0) && off + 1 < seed_raws[*si].1.len()).collect() } else { vec![] };
    let double_capped = std::sync::atomic::AtomicBool::new(false);
    par_range(&ctx, double_jobs.len() as u64, 1, |j, l| {
        if ctx.elapsed_s() > DOUBLE_WALL_CAP_S {
            double_capped.store(true, Ordering::Relaxed);
            return;
        }
        let (si, off) = double_jobs[j as usize];
        let (name, raw) = &seed_raws[si];
        let mut buf = raw.clone();
        for b1 in 0..=255u8 {
            if b1 == raw[off] {
                continue;
            }
            buf[off] = b1;
            for b2 in 0..=255u8 {
                if b2 == raw[off + 1] {
                    continue;
                }
                buf[off + 1] = b2;
                check(&validator, &buf, "byte2", &|| json!({"seed": name, "offset": off, "value": b1, "value2": b2, "seed_hex": mc_core::hex(raw)}), Expect::Any, facts[si].as_ref(), l, &stats);
            }
        }
        double.fetch_add(255 * 255, Ordering::Relaxed);
    });
    let double_capped = double_capped.load(Ordering::Relaxed);
    if double_capped {
        ctx.note(format!("wall cap {DOUBLE_WALL_CAP_S}s hit during the adjacent-double-substitution sweep: {} of {} offsets completed; the product, signature-list and single-byte sweeps are complete", double.load(Ordering::Relaxed) / (255 * 255), double_jobs.len()));
    }

    // ---- (4) the same (key, signature) bytes on different contents -----------------------------------------
    let pairs = degenerate_pairs();
    let reuse_cases = AtomicU64::new(0);
    // contents really differ (else the sweep would be vacuous)
    for pos in ALL_POS {
        let pk = KeyId::Ed(3).public();
        let hs: BTreeSet<Hash> = (0..REUSE_CONTENTS).map(|c| reuse_assemble(pos, c, Some(&pk), None, None).1).collect();
        if hs.len() != REUSE_CONTENTS {
            mc_core::machinery_error("C33: the signature-reuse contents do not have distinct hashes");
        }
    }
    par_range(&ctx, pairs.len() as u64, 8, |i, l| run_reuse(&validator, &pairs[i as usize], l, &stats, &reuse_cases));

    let mut cov = Map::new();
    cov.insert("signature_reuse_pairs".into(), json!(pairs.len()));
    cov.insert("signature_reuse_payloads".into(), json!(reuse_cases.load(Ordering::Relaxed)));
    cov.insert("adjacent_double_substitution_offsets".into(), json!({"completed": double.load(Ordering::Relaxed) / (255 * 255), "planned": double_jobs.len()}));
    cov.insert("product_transactions".into(), json!(specs.len()));
    cov.insert("signature_list_perturbations".into(), json!(perturbed.len()));
    cov.insert("byte_mutation_seeds".into(), json!(seed_raws.iter().map(|(n, r)| json!({"name": n, "bytes": r.len()})).collect::<Vec<_>>()));
    cov.insert("byte_offsets".into(), json!(jobs.len()));
    cov.insert("substitution_values_per_offset".into(), json!(if all { "all 255" } else { "orig^1, orig^0x80, 0x00, 0xFF" }));
    cov.insert("adjacent_double_substitutions".into(), json!(double.load(Ordering::Relaxed)));
    cov.insert("payloads".into(), json!(stats.payloads.load(Ordering::Relaxed)));
    cov.insert("payloads_reaching_signature_verification".into(), json!(stats.reached.load(Ordering::Relaxed)));
    cov.insert("payloads_accepted".into(), json!(stats.accepted.load(Ordering::Relaxed)));
    ctx.finish(
        Level::Exploration,
        "a case is one payload validated from raw bytes by the real validator (latest configuration; V1 products also under babylon); non-trivial = payloads that got past preparation, limits and intent validation and were decided by signature verification (accepted, or rejected for an invalid / duplicate / notary-duplicating signature)",
        stats.reached.load(Ordering::Relaxed),
        !double_capped,
        cov,
        &[
            "the hashes a signature must cover are taken from the real preparation (their commitment to content is C32)",
            "the signature primitives (recover / verify) are trusted here (C48); a recovered secp256k1 key that the non-recovering verify rejects is only counted",
            "keys are fixed (from_u64), signing is deterministic (checked at start-up)",
            "whether a transaction whose notary also signs as a signer is accepted is version/config policy and not demanded either way; if accepted, its signer set must still equal the reference set",
        ],
    )
}
