//! C33 — only valid signatures authorize a transaction.
//!
//! Every payload (seed, signature-list perturbation, byte mutation) goes through the real
//! `RawNotarizedTransaction::validate`. Oracle, from the statement:
//!   * accepted  =>  the reference (below) says every intent signature verifies over the hash of the intent it is
//!     attached to and the notary signature verifies over the signed-intent hash, and the signer sets handed out
//!     (root intent, each subintent) equal the reference sets: keys whose signatures verified, plus the notary iff it is
//!     declared a signatory, as sets;
//!   * a single-byte alteration of a valid transaction that is still accepted must leave the signed content (signed
//!     intent hash) and the signer sets unchanged (i.e. it can only be an equivalent notary-signature encoding);
//!   * well-formed seeds whose signers are distinct from each other and from the notary must be accepted.
//! Reference: typed decode of the payload; hashes as reported by the real preparation (their correctness is C32); each
//! secp256k1 signature: recover the key, then verify it with the non-recovering primitive; each ed25519 signature:
//! verify with the attached key (primitives are C48's subject); notary: verify(signed-intent hash, notary key).
//!
//! Enumerated: (1) V1: every subset of signers {secp a, secp b, ed c} x notary in {a, c, n} x notary_is_signatory;
//! V2: the same for the root x {no subintent, one subintent with every signer subset, two nested subintents with
//! signer subsets from a 4-element menu each}; (2) on 7 seeds every signature-list perturbation (duplicate / drop /
//! copy into another intent's list / sign another hash / reuse the notary signature / wrong attached ed25519 key /
//! recovery-id flip / reversed order), each re-notarized and also with the stale notary signature; (3) every offset of
//! the 7 seeds' raw bytes x substitutions (quick: orig^1, orig^0x80, 0x00, 0xFF; thorough: all 255, plus all 255x255
//! substitutions of two adjacent bytes on the two smallest seeds).
use crate::txseeds::*;
use mc_core::{catch, par_range, Ctx, Level, Local};
use radix_common::prelude::*;
use radix_transactions::errors::*;
use radix_transactions::model::*;
use radix_transactions::signing::Signer;
use radix_transactions::validation::*;
use serde_json::{json, Map, Value};
use std::collections::BTreeSet;
use std::sync::atomic::{AtomicU64, Ordering};

type KeySet = BTreeSet<String>;

fn key_str(k: &PublicKey) -> String {
    match k {
        PublicKey::Secp256k1(k) => format!("secp:{}", mc_core::hex(&k.0)),
        PublicKey::Ed25519(k) => format!("ed:{}", mc_core::hex(&k.0)),
    }
}

#[derive(Debug, Clone, PartialEq, Eq)]
struct SignerSets {
    root: KeySet,
    subs: Vec<KeySet>,
}

#[derive(Debug, Clone, PartialEq, Eq)]
enum Ref {
    Valid(SignerSets),
    Invalid(&'static str),
    Undecided(&'static str),
}

fn ref_list(sigs: &[IntentSignatureV1], h: &Hash) -> Result<KeySet, Ref> {
    let mut out = KeySet::new();
    for s in sigs {
        match &s.0 {
            SignatureWithPublicKeyV1::Secp256k1 { signature } => {
                let Some(pk) = verify_and_recover_secp256k1(h, signature) else { return Err(Ref::Invalid("intent-signature-does-not-recover")) };
                if !verify_secp256k1(h, &pk, signature) {
                    return Err(Ref::Undecided("recovered-key-does-not-verify-with-the-plain-primitive"));
                }
                out.insert(key_str(&PublicKey::Secp256k1(pk)));
            }
            SignatureWithPublicKeyV1::Ed25519 { public_key, signature } => {
                if !verify_ed25519(h, public_key, signature) {
                    return Err(Ref::Invalid("intent-signature-does-not-verify"));
                }
                out.insert(key_str(&PublicKey::Ed25519(*public_key)));
            }
        }
    }
    Ok(out)
}

fn ref_notary(pk: &PublicKey, sig: &SignatureV1, h: &Hash) -> bool {
    match (pk, sig) {
        (PublicKey::Secp256k1(pk), SignatureV1::Secp256k1(sig)) => verify_secp256k1(h, pk, sig),
        (PublicKey::Ed25519(pk), SignatureV1::Ed25519(sig)) => verify_ed25519(h, pk, sig),
        _ => false,
    }
}

struct Hashes {
    intent: Hash,
    signed: Hash,
    subs: Vec<Hash>,
}

fn reference(t: &UserTransaction, h: &Hashes) -> Ref {
    let run = || -> Result<SignerSets, Ref> {
        match t {
            UserTransaction::V1(t) => {
                let mut root = ref_list(&t.signed_intent.intent_signatures.signatures, &h.intent)?;
                let header = &t.signed_intent.intent.header;
                if !ref_notary(&header.notary_public_key, &t.notary_signature.0, &h.signed) {
                    return Err(Ref::Invalid("notary-signature-does-not-verify"));
                }
                if header.notary_is_signatory {
                    root.insert(key_str(&header.notary_public_key));
                }
                Ok(SignerSets { root, subs: vec![] })
            }
            UserTransaction::V2(t) => {
                let si = &t.signed_transaction_intent;
                let mut root = ref_list(&si.transaction_intent_signatures.signatures, &h.intent)?;
                if si.non_root_subintent_signatures.by_subintent.len() != h.subs.len() {
                    return Err(Ref::Invalid("signature-batches-do-not-match-subintents"));
                }
                let mut subs = vec![];
                for (batch, sh) in si.non_root_subintent_signatures.by_subintent.iter().zip(&h.subs) {
                    subs.push(ref_list(&batch.signatures, sh)?);
                }
                let header = &si.transaction_intent.transaction_header;
                if !ref_notary(&header.notary_public_key, &t.notary_signature.0, &h.signed) {
                    return Err(Ref::Invalid("notary-signature-does-not-verify"));
                }
                if header.notary_is_signatory {
                    root.insert(key_str(&header.notary_public_key));
                }
                Ok(SignerSets { root, subs })
            }
        }
    };
    match run() {
        Ok(s) => Ref::Valid(s),
        Err(r) => r,
    }
}

// ------------------------------------------------------------------------------------------------

fn err_label(e: &TransactionValidationError) -> String {
    let head = |s: String| s.split(|c: char| c == '(' || c == '{' || c == ' ').next().unwrap_or("").to_string();
    match e {
        TransactionValidationError::PrepareError(PrepareError::DecodeError(d)) => format!("prepare:DecodeError:{}", head(format!("{d:?}"))),
        TransactionValidationError::PrepareError(p) => format!("prepare:{}", head(format!("{p:?}"))),
        TransactionValidationError::SignatureValidationError(_, s) => format!("signature:{}", head(format!("{s:?}"))),
        TransactionValidationError::IntentValidationError(_, i) => format!("intent:{}", head(format!("{i:?}"))),
        TransactionValidationError::SubintentStructureError(_, s) => format!("structure:{}", head(format!("{s:?}"))),
        other => head(format!("{other:?}")),
    }
}

fn reached_signature_verification(e: &TransactionValidationError) -> bool {
    matches!(
        e,
        TransactionValidationError::SignatureValidationError(
            _,
            SignatureValidationError::InvalidIntentSignature
                | SignatureValidationError::InvalidNotarySignature
                | SignatureValidationError::DuplicateSigner
                | SignatureValidationError::NotaryIsSignatorySoShouldNotAlsoBeASigner
        )
    )
}

struct SeedFacts {
    signed_hash: Hash,
    sets: SignerSets,
}

struct Stats {
    reached: AtomicU64,
    accepted: AtomicU64,
    payloads: AtomicU64,
}

#[derive(Clone, Copy, PartialEq, Eq)]
enum Expect {
    MustAccept,
    Any,
}

/// `seed`: for byte mutations, the facts of the unmutated transaction (single-byte rule of the statement).
#[allow(clippy::too_many_arguments)]
fn check(validator: &TransactionValidator, bytes: &[u8], family: &str, how: &dyn Fn() -> Value, expect: Expect, seed: Option<&SeedFacts>, l: &mut Local, stats: &Stats) -> Option<SeedFacts> {
    l.eval();
    stats.payloads.fetch_add(1, Ordering::Relaxed);
    let raw = RawNotarizedTransaction::from_slice(bytes);
    let case = || json!({"family": family, "derivation": how(), "payload_hex": mc_core::hex(bytes)});
    let real = match catch(|| raw.validate(validator)) {
        Ok(r) => r,
        Err(p) => {
            l.class(&format!("{family}:panicked"));
            l.info(&format!("panic:{}", mc_core::truncate(&p, 80)));
            return None;
        }
    };
    let validated = match real {
        Err(e) => {
            if reached_signature_verification(&e) {
                stats.reached.fetch_add(1, Ordering::Relaxed);
            }
            if expect == Expect::MustAccept {
                l.violation(format!("{family}:valid-transaction-rejected:{}", err_label(&e)), format!("a correctly signed transaction with distinct signers is rejected: {e:?}"), case());
            } else {
                l.class(&format!("{family}:rejected:{}", err_label(&e)));
            }
            return None;
        }
        Ok(v) => v,
    };
    stats.reached.fetch_add(1, Ordering::Relaxed);
    stats.accepted.fetch_add(1, Ordering::Relaxed);
    let (got, hashes) = match &validated {
        ValidatedUserTransaction::V1(v) => (
            SignerSets { root: v.signer_keys.iter().map(key_str).collect(), subs: vec![] },
            Hashes { intent: v.prepared.transaction_intent_hash().0, signed: v.prepared.signed_transaction_intent_hash().0, subs: vec![] },
        ),
        ValidatedUserTransaction::V2(v) => (
            SignerSets { root: v.transaction_intent_info.signer_keys.iter().map(key_str).collect(), subs: v.non_root_subintents_info.iter().map(|i| i.signer_keys.iter().map(key_str).collect()).collect() },
            Hashes {
                intent: v.prepared.transaction_intent_hash().0,
                signed: v.prepared.signed_transaction_intent_hash().0,
                subs: v.prepared.non_root_subintent_hashes().into_iter().map(|h| h.0).collect(),
            },
        ),
    };
    // the signer collections handed out must not contain duplicates (they are sets by type; compare sizes anyway)
    let listed = match &validated {
        ValidatedUserTransaction::V1(v) => v.signer_keys.len(),
        ValidatedUserTransaction::V2(v) => v.transaction_intent_info.signer_keys.len(),
    };
    if listed != got.root.len() {
        l.violation(format!("{family}:duplicate-in-signer-set"), "the root signer collection lists a key twice", case());
    }
    let typed = match UserTransaction::from_raw(&raw) {
        Ok(t) => t,
        Err(_) => {
            l.info(&format!("{family}:accepted-but-typed-decode-fails"));
            return None;
        }
    };
    match reference(&typed, &hashes) {
        Ref::Valid(want) => {
            if want != got {
                l.violation(format!("{family}:signer-set-differs"), format!("signer sets handed out {got:?}, reference (keys whose signatures verify + notary iff signatory) {want:?}"), case());
                return None;
            }
        }
        Ref::Invalid(why) => {
            l.violation(format!("{family}:accepted-but-{why}"), format!("validation succeeded although the reference says: {why}"), case());
            return None;
        }
        Ref::Undecided(why) => {
            l.info(&format!("{family}:accepted:undecided:{why}"));
            return None;
        }
    }
    if let Some(seed) = seed {
        if hashes.signed != seed.signed_hash {
            l.violation(format!("{family}:byte-altered-signed-content-accepted"), "a single-byte alteration changed the signed content and the transaction is still accepted", case());
            return None;
        }
        if got != seed.sets {
            l.violation(format!("{family}:byte-altered-signer-set-accepted"), format!("a single-byte alteration changed the signer sets from {:?} to {got:?}", seed.sets), case());
            return None;
        }
        l.class(&format!("{family}:accepted:same-content-same-signers"));
        let d = how();
        l.info(&format!(
            "{family}:accepted-alteration:{}@offset{}(of {})={}",
            d.get("seed").and_then(|x| x.as_str()).unwrap_or("?"),
            d.get("offset").and_then(|x| x.as_u64()).unwrap_or(0),
            bytes.len(),
            d.get("value").and_then(|x| x.as_u64()).unwrap_or(0)
        ));
    } else {
        l.class(&format!("{family}:accepted:signers={}", got.root.len() + got.subs.iter().map(|s| s.len()).sum::<usize>()));
        l.sample(|| json!({"family": family, "derivation": how(), "signers": {"root": got.root, "subintents": got.subs}}));
    }
    Some(SeedFacts { signed_hash: hashes.signed, sets: got })
}

// ------------------------------------------------------------------------------------------------
// (1) product of signer / notary choices
// ------------------------------------------------------------------------------------------------

const DOUBLE_WALL_CAP_S: f64 = 900.0;
const DOUBLE_SEEDS: [&str; 2] = ["v1-k0-notary-a", "v2-k1-no-subintents"];
const A: KeyId = KeyId::Secp(1);
const B: KeyId = KeyId::Secp(2);
const C: KeyId = KeyId::Ed(3);
const N: KeyId = KeyId::Secp(900);

fn subset(mask: u32) -> Vec<KeyId> {
    [A, B, C].iter().enumerate().filter(|(i, _)| mask & (1 << i) != 0).map(|(_, k)| *k).collect()
}

fn product_specs() -> Vec<TxSpec> {
    let mut out = vec![];
    for v2 in [false, true] {
        for root_mask in 0..8u32 {
            for notary in [A, C, N] {
                for sig in [false, true] {
                    let mut base = TxSpec::base(v2);
                    base.root.signers = subset(root_mask);
                    base.notary = notary;
                    base.notary_is_signatory = sig;
                    out.push(base.clone());
                    if v2 {
                        for m0 in 0..8u32 {
                            let mut s = base.clone();
                            let mut a = IntentSpec::base(1);
                            a.signers = subset(m0);
                            s.subs = vec![a];
                            s.root.children = vec![0];
                            out.push(s);
                        }
                        let menu: [Vec<KeyId>; 4] = [vec![], vec![A], vec![C, B], vec![A, B, C]];
                        for m0 in &menu {
                            for m1 in &menu {
                                let mut s = base.clone();
                                let mut a = IntentSpec::base(1);
                                a.signers = m0.clone();
                                a.children = vec![1];
                                let mut b = IntentSpec::base(2);
                                b.signers = m1.clone();
                                s.subs = vec![a, b];
                                s.root.children = vec![0];
                                out.push(s);
                            }
                        }
                    }
                }
            }
        }
    }
    out
}

fn plain_valid(s: &TxSpec) -> bool {
    // distinct signers per intent (by construction) and the notary is not among the root signers
    !s.root.signers.contains(&s.notary)
}

// ------------------------------------------------------------------------------------------------
// (2) signature-list perturbations
// ------------------------------------------------------------------------------------------------

fn mutation_seeds() -> Vec<(&'static str, TxSpec)> {
    let mut out = vec![];
    let mut s = TxSpec::base(false);
    s.notary = A;
    out.push(("v1-k0-notary-a", s));
    let mut s = TxSpec::base(false);
    s.root.signers = vec![A, C];
    s.notary = KeyId::Ed(901);
    s.notary_is_signatory = true;
    out.push(("v1-k2-ed-notary-signatory", s));
    let mut s = TxSpec::base(false);
    s.root.signers = vec![A, B, C];
    out.push(("v1-k3", s));
    let mut s = TxSpec::base(true);
    s.root.signers = vec![C];
    out.push(("v2-k1-no-subintents", s));
    let mut s = TxSpec::base(true);
    s.root.signers = vec![A];
    s.root.children = vec![0];
    let mut a = IntentSpec::base(1);
    a.signers = vec![B, C];
    s.subs = vec![a];
    out.push(("v2-k1-sub-k2", s));
    let mut s = TxSpec::base(true);
    s.root.signers = vec![A, C];
    s.root.children = vec![0];
    let mut a = IntentSpec::base(1);
    a.signers = vec![B];
    a.children = vec![1];
    let mut b = IntentSpec::base(2);
    b.signers = vec![KeyId::Ed(4)];
    s.subs = vec![a, b];
    s.notary = KeyId::Ed(901);
    s.notary_is_signatory = true;
    out.push(("v2-k2-two-nested-subs-ed-notary", s));
    let mut s = TxSpec::base(true);
    s.root.children = vec![0];
    let mut a = IntentSpec::base(1);
    a.signers = vec![A, B, C];
    s.subs = vec![a];
    out.push(("v2-k0-sub-k3", s));
    out
}

/// mutable access to the signature lists (index 0 = root intent) and the hashes they must sign
fn lists(t: &mut BuiltTx) -> Vec<&mut Vec<IntentSignatureV1>> {
    match t {
        BuiltTx::V1(t) => vec![&mut t.signed_intent.intent_signatures.signatures],
        BuiltTx::V2(t) => {
            let si = &mut t.signed_transaction_intent;
            let mut v = vec![&mut si.transaction_intent_signatures.signatures];
            v.extend(si.non_root_subintent_signatures.by_subintent.iter_mut().map(|b| &mut b.signatures));
            v
        }
    }
}

fn signed_hash_of(t: &BuiltTx) -> Hash {
    let s = permissive_settings();
    match t {
        BuiltTx::V1(t) => t.signed_intent.prepare(&s).expect("prepares").signed_transaction_intent_hash().0,
        BuiltTx::V2(t) => t.signed_transaction_intent.prepare(&s).expect("prepares").signed_transaction_intent_hash().0,
    }
}

fn intent_hashes_of(t: &BuiltTx) -> Vec<Hash> {
    let s = permissive_settings();
    match t {
        BuiltTx::V1(t) => vec![t.signed_intent.intent.prepare(&s).expect("prepares").transaction_intent_hash().0],
        BuiltTx::V2(t) => {
            let p = t.signed_transaction_intent.transaction_intent.prepare(&s).expect("prepares");
            let mut v = vec![p.transaction_intent_hash().0];
            v.extend(p.non_root_subintents.subintents.iter().map(|s| s.subintent_hash().0));
            v
        }
    }
}

fn renotarize(t: &mut BuiltTx, notary: KeyId) {
    let h = signed_hash_of(t);
    let sig = notary.private().sign_without_public_key(&h);
    match t {
        BuiltTx::V1(t) => t.notary_signature = NotarySignatureV1(sig),
        BuiltTx::V2(t) => t.notary_signature = NotarySignatureV2(sig),
    }
}

fn clone_built(t: &BuiltTx) -> BuiltTx {
    match t {
        BuiltTx::V1(t) => BuiltTx::V1(t.clone()),
        BuiltTx::V2(t) => BuiltTx::V2(t.clone()),
    }
}

/// every perturbation of the signature lists of `t` (labels + perturbed transactions, not yet re-notarized)
fn perturbations(spec: &TxSpec, t: &BuiltTx) -> Vec<(String, BuiltTx)> {
    let mut out = vec![];
    let hashes = intent_hashes_of(t);
    let signed = signed_hash_of(t);
    let signer_lists: Vec<Vec<KeyId>> = std::iter::once(spec.root.signers.clone()).chain(spec.subs.iter().map(|s| s.signers.clone())).collect();
    let n_lists = signer_lists.len();
    let mut push = |label: String, f: &dyn Fn(&mut Vec<&mut Vec<IntentSignatureV1>>)| {
        let mut c = clone_built(t);
        {
            let mut ls = lists(&mut c);
            f(&mut ls);
        }
        out.push((label, c));
    };
    let notary_as_intent_sig = IntentSignatureV1(spec.notary.private().sign_with_public_key(&signed));
    let mut other_hashes: Vec<(String, Hash)> = hashes.iter().enumerate().map(|(i, h)| (format!("intent-hash[{i}]"), *h)).collect();
    other_hashes.push(("signed-intent-hash".into(), signed));
    other_hashes.push(("zero-hash".into(), Hash([0u8; 32])));
    for i in 0..n_lists {
        let nsig = signer_lists[i].len();
        push(format!("list[{i}]:append-notary-signature-over-signed-hash"), &|ls| ls[i].push(notary_as_intent_sig.clone()));
        push(format!("list[{i}]:append-notary-key-signing-this-intent"), &|ls| ls[i].push(IntentSignatureV1(spec.notary.private().sign_with_public_key(&hashes[i]))));
        if nsig >= 2 {
            push(format!("list[{i}]:reverse"), &|ls| ls[i].reverse());
        }
        for j in 0..nsig {
            push(format!("list[{i}]:duplicate[{j}]"), &|ls| {
                let s = ls[i][j].clone();
                ls[i].push(s);
            });
            push(format!("list[{i}]:drop[{j}]"), &|ls| {
                ls[i].remove(j);
            });
            for i2 in 0..n_lists {
                if i2 != i {
                    push(format!("list[{i}][{j}]:copy-into-list[{i2}]"), &|ls| {
                        let s = ls[i][j].clone();
                        ls[i2].push(s);
                    });
                    push(format!("list[{i}][{j}]:move-into-list[{i2}]"), &|ls| {
                        let s = ls[i].remove(j);
                        ls[i2].push(s);
                    });
                }
            }
            for (name, h) in &other_hashes {
                if *h != hashes[i] {
                    let k = signer_lists[i][j];
                    push(format!("list[{i}][{j}]:signs-{name}-instead"), &|ls| ls[i][j] = IntentSignatureV1(k.private().sign_with_public_key(h)));
                }
            }
            match signer_lists[i][j] {
                KeyId::Ed(_) => {
                    push(format!("list[{i}][{j}]:ed25519-attached-key-swapped"), &|ls| {
                        if let SignatureWithPublicKeyV1::Ed25519 { public_key, .. } = &mut ls[i][j].0 {
                            *public_key = Ed25519PrivateKey::from_u64(4242).unwrap().public_key();
                        }
                    });
                }
                KeyId::Secp(_) => {
                    for flip in [1u8, 2, 3] {
                        push(format!("list[{i}][{j}]:secp-recovery-id^{flip}"), &|ls| {
                            if let SignatureWithPublicKeyV1::Secp256k1 { signature } = &mut ls[i][j].0 {
                                signature.0[0] ^= flip;
                            }
                        });
                    }
                }
            }
        }
    }
    out
}

// ------------------------------------------------------------------------------------------------

pub fn run(ctx: Ctx) -> ! {
    assert_signing_is_deterministic();
    let validator = TransactionValidator::new_with_static_config(TransactionValidationConfig::latest(), NETWORK);
    let babylon = TransactionValidator::new_with_static_config(TransactionValidationConfig::babylon(), NETWORK);
    let stats = Stats { reached: AtomicU64::new(0), accepted: AtomicU64::new(0), payloads: AtomicU64::new(0) };

    if let Some(case) = ctx.read_replay_case() {
        let bytes = mc_core::unhex(case.get("payload_hex").and_then(|x| x.as_str()).unwrap_or(""));
        let family = case.get("family").and_then(|x| x.as_str()).unwrap_or("replay").to_string();
        let mut l = Local::new();
        let raw = RawNotarizedTransaction::from_slice(&bytes);
        println!("real: {:?}", catch(|| raw.validate(&validator).map(|_| "accepted").map_err(|e| err_label(&e))));
        let d = case.get("derivation").cloned().unwrap_or(Value::Null);
        // for byte mutations the seed facts are recomputed from the recorded seed payload
        let seed = case.pointer("/derivation/seed_hex").and_then(|x| x.as_str()).and_then(|h| check(&validator, &mc_core::unhex(h), "seed", &|| json!("replay seed"), Expect::Any, None, &mut l, &stats));
        check(&validator, &bytes, &family, &|| d.clone(), Expect::Any, seed.as_ref(), &mut l, &stats);
        ctx.merge(l);
        ctx.finish(Level::Exploration, "replay", 1, false, Map::new(), &[]);
    }

    // ---- (1) product ---------------------------------------------------------------------------------
    let specs = product_specs();
    par_range(&ctx, specs.len() as u64, 4, |i, l| {
        let spec = &specs[i as usize];
        let (_, raw) = build(spec).expect("builds");
        let expect = if plain_valid(spec) { Expect::MustAccept } else { Expect::Any };
        let how = || json!({"spec": spec.to_json()});
        check(&validator, raw.as_slice(), "product", &how, expect, None, l, &stats);
        if !spec.v2 {
            check(&babylon, raw.as_slice(), "product-babylon", &how, expect, None, l, &stats);
        }
    });

    // ---- (2) signature-list perturbations ---------------------------------------------------------------
    let seeds = mutation_seeds();
    let mut perturbed: Vec<(String, Vec<u8>)> = vec![];
    let mut seed_raws: Vec<(&'static str, Vec<u8>)> = vec![];
    for (name, spec) in &seeds {
        let (built, raw) = build(spec).expect("builds");
        seed_raws.push((name, raw.to_vec()));
        for (label, mut p) in perturbations(spec, &built) {
            perturbed.push((format!("{name}:{label}:stale-notary-signature"), p.to_raw().to_vec()));
            renotarize(&mut p, spec.notary);
            perturbed.push((format!("{name}:{label}:renotarized"), p.to_raw().to_vec()));
        }
    }
    par_range(&ctx, perturbed.len() as u64, 4, |i, l| {
        let (label, bytes) = &perturbed[i as usize];
        check(&validator, bytes, "siglist", &|| json!(label), Expect::Any, None, l, &stats);
    });

    // ---- (3) byte substitutions ---------------------------------------------------------------------------
    let mut facts = vec![];
    {
        let mut l = Local::new();
        for (name, raw) in &seed_raws {
            let f = check(&validator, raw, "seed", &|| json!(name), Expect::MustAccept, None, &mut l, &stats);
            facts.push(f);
        }
        ctx.merge(l);
    }
    let all = !ctx.quick();
    let double = AtomicU64::new(0);
    let mut jobs: Vec<(usize, usize)> = vec![];
    for (si, (_, raw)) in seed_raws.iter().enumerate() {
        if facts[si].is_some() {
            for off in 0..raw.len() {
                jobs.push((si, off));
            }
        }
    }
    par_range(&ctx, jobs.len() as u64, 4, |j, l| {
        let (si, off) = jobs[j as usize];
        let (name, raw) = &seed_raws[si];
        let orig = raw[off];
        let values: Vec<u8> = if all {
            (0..=255u8).filter(|b| *b != orig).collect()
        } else {
            let mut v = vec![];
            for b in [orig ^ 1, orig ^ 0x80, 0x00, 0xFF] {
                if b != orig && !v.contains(&b) {
                    v.push(b);
                }
            }
            v
        };
        let mut buf = raw.clone();
        for b in values {
            buf[off] = b;
            check(&validator, &buf, "byte", &|| json!({"seed": name, "offset": off, "value": b, "seed_hex": mc_core::hex(raw)}), Expect::Any, facts[si].as_ref(), l, &stats);
        }
    });

    // thorough: every substitution of two adjacent bytes on the two smallest seeds (the signature that covers the
    // content still has to break, whatever the pair); wall-capped, the sweeps above always complete
    let double_jobs: Vec<(usize, usize)> = if all { jobs.iter().copied().filter(|(si, off)| DOUBLE_SEEDS.contains(&seed_raws[*si].0) && off + 1 < seed_raws[*si].1.len()).collect() } else { vec![] };
    let double_capped = std::sync::atomic::AtomicBool::new(false);
    par_range(&ctx, double_jobs.len() as u64, 1, |j, l| {
        if ctx.elapsed_s() > DOUBLE_WALL_CAP_S {
            double_capped.store(true, Ordering::Relaxed);
            return;
        }
        let (si, off) = double_jobs[j as usize];
        let (name, raw) = &seed_raws[si];
        let mut buf = raw.clone();
        for b1 in 0..=255u8 {
            if b1 == raw[off] {
                continue;
            }
            buf[off] = b1;
            for b2 in 0..=255u8 {
                if b2 == raw[off + 1] {
                    continue;
                }
                buf[off + 1] = b2;
                check(&validator, &buf, "byte2", &|| json!({"seed": name, "offset": off, "value": b1, "value2": b2, "seed_hex": mc_core::hex(raw)}), Expect::Any, facts[si].as_ref(), l, &stats);
            }
        }
        double.fetch_add(255 * 255, Ordering::Relaxed);
    });
    let double_capped = double_capped.load(Ordering::Relaxed);
    if double_capped {
        ctx.note(format!("wall cap {DOUBLE_WALL_CAP_S}s hit during the adjacent-double-substitution sweep: {} of {} offsets completed; the product, signature-list and single-byte sweeps are complete", double.load(Ordering::Relaxed) / (255 * 255), double_jobs.len()));
    }

    let mut cov = Map::new();
    cov.insert("adjacent_double_substitution_offsets".into(), json!({"completed": double.load(Ordering::Relaxed) / (255 * 255), "planned": double_jobs.len()}));
    cov.insert("product_transactions".into(), json!(specs.len()));
    cov.insert("signature_list_perturbations".into(), json!(perturbed.len()));
    cov.insert("byte_mutation_seeds".into(), json!(seed_raws.iter().map(|(n, r)| json!({"name": n, "bytes": r.len()})).collect::<Vec<_>>()));
    cov.insert("byte_offsets".into(), json!(jobs.len()));
    cov.insert("substitution_values_per_offset".into(), json!(if all { "all 255" } else { "orig^1, orig^0x80, 0x00, 0xFF" }));
    cov.insert("adjacent_double_substitutions".into(), json!(double.load(Ordering::Relaxed)));
    cov.insert("payloads".into(), json!(stats.payloads.load(Ordering::Relaxed)));
    cov.insert("payloads_reaching_signature_verification".into(), json!(stats.reached.load(Ordering::Relaxed)));
    cov.insert("payloads_accepted".into(), json!(stats.accepted.load(Ordering::Relaxed)));
    ctx.finish(
        Level::Exploration,
        "a case is one payload validated from raw bytes by the real validator (latest configuration; V1 products also under babylon); non-trivial = payloads that got past preparation, limits and intent validation and were decided by signature verification (accepted, or rejected for an invalid / duplicate / notary-duplicating signature)",
        stats.reached.load(Ordering::Relaxed),
        !double_capped,
        cov,
        &[
            "the hashes a signature must cover are taken from the real preparation (their commitment to content is C32)",
            "the signature primitives (recover / verify) are trusted here (C48); a recovered secp256k1 key that the non-recovering verify rejects is only counted",
            "keys are fixed (from_u64), signing is deterministic (checked at start-up)",
            "whether a transaction whose notary also signs as a signer is accepted is version/config policy and not demanded either way; if accepted, its signer set must still equal the reference set",
        ],
    )
}
