//! C35 — subintent structure validation accepts exactly well-formed trees.
//!
//! The harness implements the public `IntentTreeStructure` / `IntentStructure` traits with mock intents
//! (hash, children list, yield summary) and calls the real `TransactionValidator::validate_intents_and_structure`.
//!
//! Enumerated (exhaustive within the bound):
//!  * both root kinds (transaction intent root / subintent root = partial transaction),
//!  * `max_subintent_depth` N in {0,1,2,3,4} (0 = babylon, 3 = cuttlefish/latest),
//!  * every list of n <= 3 non-root subintent hashes over {S1,S2,S3} (so duplicates of a hash are included),
//!    thorough: also n = 4 over {S1..S4} (the distinct list and two lists with a repeated hash),
//!  * for each of the n+1 intents every children list of length <= 2 (thorough n<=3: also <= 3; for n = 3 there with the distinct
//!    hash list and two lists with a repeated hash) over
//!    {S1..Sk, Unknown}, duplicates allowed (cycles, islands, shared children, self-parents, missing children),
//!  * for every structure the reference calls well-formed: every yield-count assignment in {0,1,2} for both
//!    directions of every parent/child edge (and the root's own parent-yield count),
//!  * chains (and chains with a sibling leaf per level) of depth 0..=9 for N in {0..=7, usize::MAX}, listed in
//!    forward and reverse order.
//!
//! Reference (written from the statement, bottom-up over parent sets; the code under test works top-down with a
//! work list): pairwise distinct hashes AND every declared child present AND each subintent is the child of
//! exactly one intent AND each subintent reaches the root by following parents without revisiting, in at most
//! `allowed` steps AND the yield counts match on every edge. `allowed` = N for a transaction root; N-1 for a
//! subintent root (config doc: "a setting of N allows a total depth of N + 1 if you include the root transaction
//! intent", and a partial transaction's root is itself a subintent, i.e. occupies one of the N levels).
//!
//! Not decided by the statement (informational only):
//!  * the same child listed twice by the *same* parent (a real `ChildSubintentSpecifiersV2` is a set),
//!  * N = 0 with a subintent root (`N - 1` underflows in the code: panic with overflow checks),
//!  * hash values no real transaction can have: an all-zero transaction intent hash (the code's internal
//!    "no parent yet" sentinel) and a root subintent whose hash equals one of its descendants' hashes.
use mc_core::{catch, par_range, Ctx, Level, Local};
use radix_common::prelude::*;
use radix_transactions::errors::*;
use radix_transactions::prelude::*;
use radix_transactions::validation::*;
use serde_json::{json, Map, Value};
use std::sync::atomic::{AtomicU64, Ordering};

const UNKNOWN: u8 = 0xEE;
const ROOT_TX: u8 = 0xA0;
const ROOT_SUB: u8 = 0xB0;

#[derive(Clone, Debug)]
struct Shape {
    /// label byte of the root hash (32 x that byte)
    root_label: u8,
    root_is_sub: bool,
    /// labels of the non-root subintents, in list order
    hashes: Vec<u8>,
    /// children[0] = root's children labels, children[i+1] = those of non-root subintent i
    children: Vec<Vec<u8>>,
    /// parent_yields[i] = number of YIELD_TO_PARENT of intent i (0 = root)
    parent_yields: Vec<u8>,
    /// child_yields[i][j] = number of YIELD_TO_CHILD of intent i to its j-th children entry
    child_yields: Vec<Vec<u8>>,
}

impl Shape {
    fn new(root_is_sub: bool, hashes: Vec<u8>, children: Vec<Vec<u8>>) -> Shape {
        let py = vec![0; children.len()];
        let cy = children.iter().map(|c| vec![0; c.len()]).collect();
        Shape { root_label: if root_is_sub { ROOT_SUB } else { ROOT_TX }, root_is_sub, hashes, children, parent_yields: py, child_yields: cy }
    }
    fn to_json(&self, n_cfg: usize) -> Value {
        json!({
            "root": if self.root_is_sub { "subintent" } else { "transaction" },
            "root_label": self.root_label,
            "max_subintent_depth": if n_cfg == usize::MAX { json!("usize::MAX") } else { json!(n_cfg) },
            "subintents": self.hashes,
            "children": self.children,
            "parent_yields": self.parent_yields,
            "child_yields": self.child_yields,
        })
    }
    fn from_json(v: &Value) -> Option<(Shape, usize)> {
        let bytes = |x: &Value| -> Option<Vec<u8>> { x.as_array()?.iter().map(|b| b.as_u64().map(|b| b as u8)).collect() };
        let lists = |x: &Value| -> Option<Vec<Vec<u8>>> { x.as_array()?.iter().map(bytes).collect() };
        let n_cfg = match v.get("max_subintent_depth")? {
            Value::String(_) => usize::MAX,
            x => x.as_u64()? as usize,
        };
        Some((
            Shape {
                root_label: v.get("root_label")?.as_u64()? as u8,
                root_is_sub: v.get("root")?.as_str()? == "subintent",
                hashes: bytes(v.get("subintents")?)?,
                children: lists(v.get("children")?)?,
                parent_yields: bytes(v.get("parent_yields")?)?,
                child_yields: lists(v.get("child_yields")?)?,
            },
            n_cfg,
        ))
    }
}

// ---------------------------------------------------------------------------------------------
// mock intents implementing the public traits
// ---------------------------------------------------------------------------------------------

fn sub_hash(label: u8) -> SubintentHash {
    SubintentHash(Hash([label; Hash::LENGTH]))
}

struct MockIntent {
    hash: IntentHash,
    children: Vec<SubintentHash>,
    parent_yields: usize,
    child_yields: Vec<usize>,
}

impl IntentStructure for MockIntent {
    fn intent_hash(&self) -> IntentHash {
        self.hash
    }
    fn children(&self) -> impl ExactSizeIterator<Item = SubintentHash> {
        self.children.iter().copied()
    }
    fn validate_intent(&self, _validator: &TransactionValidator, _aggregation: &mut AcrossIntentAggregation) -> Result<ManifestYieldSummary, IntentValidationError> {
        // Same shape as the real summaries: one entry per declared child (`new_with_children`), then counts.
        let mut summary = ManifestYieldSummary::new_with_children(self.children.iter().copied());
        summary.parent_yields = self.parent_yields;
        for (c, n) in self.children.iter().zip(self.child_yields.iter()) {
            *summary.child_yields.get_mut(c).unwrap() += *n;
        }
        Ok(summary)
    }
}

impl HasSubintentHash for MockIntent {
    fn subintent_hash(&self) -> SubintentHash {
        match self.hash {
            IntentHash::Subintent(h) => h,
            IntentHash::Transaction(_) => unreachable!("non-root mock intents are subintents"),
        }
    }
}

struct MockTree {
    root: MockIntent,
    subs: Vec<MockIntent>,
}

impl IntentTreeStructure for MockTree {
    type RootIntentStructure = MockIntent;
    type SubintentStructure = MockIntent;
    fn root(&self) -> &MockIntent {
        &self.root
    }
    fn non_root_subintents(&self) -> impl ExactSizeIterator<Item = &MockIntent> {
        self.subs.iter()
    }
}

fn build(shape: &Shape) -> MockTree {
    let mk = |hash: IntentHash, i: usize| MockIntent {
        hash,
        children: shape.children[i].iter().map(|l| sub_hash(*l)).collect(),
        parent_yields: shape.parent_yields[i] as usize,
        child_yields: shape.child_yields[i].iter().map(|x| *x as usize).collect(),
    };
    let root_hash = if shape.root_is_sub {
        IntentHash::Subintent(sub_hash(shape.root_label))
    } else {
        IntentHash::Transaction(TransactionIntentHash(Hash([shape.root_label; Hash::LENGTH])))
    };
    MockTree { root: mk(root_hash, 0), subs: shape.hashes.iter().enumerate().map(|(i, l)| mk(IntentHash::Subintent(sub_hash(*l)), i + 1)).collect() }
}

// ---------------------------------------------------------------------------------------------
// reference predicate (from the statement)
// ---------------------------------------------------------------------------------------------

#[derive(Clone, Copy, PartialEq, Eq, Debug)]
enum Ref {
    WellFormed,
    Ill(&'static str),
    Undecided(&'static str),
}

/// `n_cfg` = configured max_subintent_depth.
fn reference(s: &Shape, n_cfg: usize) -> Ref {
    let n = s.hashes.len();
    // (a) pairwise distinct
    for i in 0..n {
        for j in 0..i {
            if s.hashes[i] == s.hashes[j] {
                return Ref::Ill("not-distinct");
            }
        }
    }
    // (b) every declared child is present
    for list in &s.children {
        for c in list {
            if !s.hashes.contains(c) {
                return Ref::Ill("declared-child-absent");
            }
        }
    }
    // (c) every subintent is the child of exactly one intent; parent[i] = index of that intent (0 = root)
    let mut parent = vec![usize::MAX; n];
    for (i, h) in s.hashes.iter().enumerate() {
        let ps: Vec<usize> = (0..=n).filter(|p| s.children[*p].contains(h)).collect();
        match ps.len() {
            0 => return Ref::Ill("no-parent"),
            1 => parent[i] = ps[0],
            _ => return Ref::Ill("multiple-parents"),
        }
    }
    // (d) reachable from the root without cycles, within the depth limit
    let allowed: Option<usize> = if s.root_is_sub { n_cfg.checked_sub(1) } else { Some(n_cfg) };
    for i in 0..n {
        let mut steps = 1usize;
        let mut cur = parent[i];
        while cur != 0 {
            cur = parent[cur - 1];
            steps += 1;
            if steps > n {
                return Ref::Ill("cycle-not-reachable");
            }
        }
        match allowed {
            None => return Ref::Undecided("subintent-root-with-max-depth-0"),
            Some(a) if steps > a => return Ref::Ill("too-deep"),
            _ => {}
        }
    }
    if allowed.is_none() {
        // root subintent alone, but the configuration allows no subintent level at all
        return Ref::Undecided("subintent-root-with-max-depth-0");
    }
    // same child listed twice by one parent: the statement does not say
    for list in &s.children {
        for (i, c) in list.iter().enumerate() {
            if list[..i].contains(c) {
                return Ref::Undecided("same-parent-lists-child-twice");
            }
        }
    }
    // (e) each child yields to its parent exactly as many times as the parent yields to it
    for i in 0..n {
        let p = parent[i];
        let j = s.children[p].iter().position(|c| *c == s.hashes[i]).unwrap();
        if s.child_yields[p][j] != s.parent_yields[i + 1] {
            return Ref::Ill("yield-count-mismatch");
        }
    }
    Ref::WellFormed
}

// ---------------------------------------------------------------------------------------------
// running the real validator
// ---------------------------------------------------------------------------------------------

fn validator(n_cfg: usize) -> TransactionValidator {
    let mut config = TransactionValidationConfig::latest();
    config.max_subintent_depth = n_cfg;
    TransactionValidator::new_with_static_config_network_agnostic(config)
}

#[derive(Debug, PartialEq, Eq, Clone)]
enum Real {
    Accepted,
    Rejected(&'static str),
}

fn run_real(v: &TransactionValidator, shape: &Shape) -> Real {
    run_real_on(v, &build(shape))
}

fn run_real_on(v: &TransactionValidator, tree: &MockTree) -> Real {
    match v.validate_intents_and_structure(tree) {
        Ok(_) => Real::Accepted,
        Err(TransactionValidationError::SubintentStructureError(_, e)) => Real::Rejected(match e {
            SubintentStructureError::DuplicateSubintent => "rejected:duplicate-subintent",
            SubintentStructureError::SubintentHasMultipleParents => "rejected:multiple-parents",
            SubintentStructureError::ChildSubintentNotIncludedInTransaction(_) => "rejected:child-not-included",
            SubintentStructureError::SubintentExceedsMaxDepth => "rejected:exceeds-max-depth",
            SubintentStructureError::SubintentIsNotReachableFromTheTransactionIntent => "rejected:not-reachable",
            SubintentStructureError::MismatchingYieldChildAndYieldParentCountsForSubintent => "rejected:yield-mismatch",
        }),
        Err(_) => Real::Rejected("rejected:other-error"),
    }
}

/// Compare one shape under one configuration. Returns true if the reference called it well-formed.
fn check_one(v: &TransactionValidator, shape: &Shape, n_cfg: usize, l: &mut Local, key_prefix: &str, informational_only: bool) -> bool {
    check_tree(v, &build(shape), shape, n_cfg, l, key_prefix, informational_only)
}

/// `tree` must be `build(shape)` (built once and reused across configurations).
fn check_tree(v: &TransactionValidator, tree: &MockTree, shape: &Shape, n_cfg: usize, l: &mut Local, key_prefix: &str, informational_only: bool) -> bool {
    l.eval();
    let r = reference(shape, n_cfg);
    let real = match catch(|| run_real_on(v, tree)) {
        Ok(x) => x,
        Err(p) => {
            // a panic is not an acceptance; the statement does not promise panic freedom
            l.info(&format!("{key_prefix}panic:{}:ref={:?}", mc_core::truncate(&p, 60), r));
            l.class("panicked");
            return false;
        }
    };
    let label = match &real {
        Real::Accepted => "accepted",
        Real::Rejected(s) => s,
    };
    if informational_only {
        let agree = matches!((&r, &real), (Ref::WellFormed, Real::Accepted) | (Ref::Ill(_), Real::Rejected(_)) | (Ref::Undecided(_), _));
        l.info(&format!("{key_prefix}{}:{}", if agree { "agrees-with-reference" } else { "DISAGREES-with-reference" }, label));
        if !agree {
            l.sample(|| json!({"informational_disagreement": key_prefix, "reference": format!("{r:?}"), "real": label, "case": shape.to_json(n_cfg)}));
        }
        return false;
    }
    match (&r, &real) {
        (Ref::WellFormed, Real::Accepted) => {
            l.class("accepted");
            l.sample(|| json!({"accepted": shape.to_json(n_cfg)}));
            true
        }
        (Ref::Ill(_), Real::Rejected(s)) => {
            l.class(s);
            false
        }
        (Ref::Undecided(why), _) => {
            l.info(&format!("undecided:{why}:{label}"));
            false
        }
        (Ref::Ill(why), Real::Accepted) => {
            l.violation(format!("{key_prefix}accepts-ill-formed:{why}"), format!("reference: ill-formed ({why}); validate_intents_and_structure returned Ok"), shape.to_json(n_cfg));
            false
        }
        (Ref::WellFormed, Real::Rejected(s)) => {
            l.violation(format!("{key_prefix}rejects-well-formed:{s}"), format!("reference: well-formed tree; validate_intents_and_structure returned {s}"), shape.to_json(n_cfg));
            true
        }
    }
}

/// All yield assignments in {0,1,2} over both directions of every edge (+ the root's own parent yields).
fn yield_sweep(v: &TransactionValidator, base: &Shape, n_cfg: usize, l: &mut Local) -> u64 {
    // slots: parent_yields[0..=n], then each child_yields entry
    let n_int = base.children.len();
    let entries: Vec<(usize, usize)> = base.children.iter().enumerate().flat_map(|(i, c)| (0..c.len()).map(move |j| (i, j))).collect();
    let slots = n_int + entries.len();
    let mut count = 0;
    let mut shape = base.clone();
    mc_core::gen::seqs_exact(3, slots, &mut |digits| {
        if digits.iter().all(|d| *d == 0) {
            return; // already done by the caller
        }
        for i in 0..n_int {
            shape.parent_yields[i] = digits[i] as u8;
        }
        for (k, (i, j)) in entries.iter().enumerate() {
            shape.child_yields[*i][*j] = digits[n_int + k] as u8;
        }
        check_one(v, &shape, n_cfg, l, "", false);
        count += 1;
    });
    count
}

fn children_options(alphabet: &[u8], max_len: u32) -> Vec<Vec<u8>> {
    let mut out = vec![];
    let mut buf = vec![];
    for i in 0..mc_core::gen::count_upto(alphabet.len() as u64, max_len) {
        mc_core::gen::nth_string(alphabet, i, &mut buf);
        out.push(buf.clone());
    }
    out
}

/// hash lists of length n over labels 1..=k.
/// mode 0: all k^n lists; mode 2: the distinct list 1..=n, the list whose first two entries are the same hash and
/// the list whose last two entries are the same hash (duplicates are rejected whatever the children are, so the
/// large spaces keep two representatives of "some hash occurs twice").
fn hash_lists(n: usize, k: usize, mode: u8) -> Vec<Vec<u8>> {
    let mut out = vec![];
    if mode == 0 {
        mc_core::gen::seqs_exact(k, n, &mut |d| out.push(d.iter().map(|x| *x as u8 + 1).collect()));
    } else {
        let distinct: Vec<u8> = (1..=n as u8).collect();
        out.push(distinct.clone());
        if n >= 2 {
            let mut first = distinct.clone();
            first[1] = first[0];
            out.push(first);
            let mut last = distinct.clone();
            last[n - 1] = last[n - 2];
            if !out.contains(&last) {
                out.push(last);
            }
        }
    }
    out
}

pub fn run(ctx: Ctx) -> ! {
    if let Some(case) = ctx.read_replay_case() {
        let Some((shape, n_cfg)) = Shape::from_json(&case) else { mc_core::machinery_error("C35: replay case not understood") };
        let mut l = Local::new();
        let v = validator(n_cfg);
        println!("reference: {:?}", reference(&shape, n_cfg));
        println!("real:      {:?}", catch(|| run_real(&v, &shape)));
        check_one(&v, &shape, n_cfg, &mut l, "", false);
        ctx.merge(l);
        ctx.finish(Level::Exploration, "replay", 1, false, Map::new(), &[]);
    }

    let n_cfgs: [usize; 5] = [0, 1, 2, 3, 4];
    let validators: Vec<TransactionValidator> = n_cfgs.iter().map(|n| validator(*n)).collect();
    let nontrivial = AtomicU64::new(0); // structures that get past "distinct" and "every child present"
    let structures = AtomicU64::new(0);
    let wellformed = AtomicU64::new(0);
    let yield_cases = AtomicU64::new(0);

    // ---- (1) generic structures ------------------------------------------------------------------
    // (n, label count k, children list max length, hash-list mode (see hash_lists), skip assignments whose
    //  lists are all <= this long because an earlier plan already covers them for these hash lists)
    let mut plans: Vec<(usize, usize, u32, u8, u32)> = vec![(0, 3, 2, 0, 0), (1, 3, 2, 0, 0), (2, 3, 2, 0, 0), (3, 3, 2, 0, 0)];
    if !ctx.quick() {
        plans = vec![(0, 3, 3, 0, 0), (1, 3, 3, 0, 0), (2, 3, 3, 0, 0), (3, 3, 2, 0, 0), (3, 3, 3, 2, 2), (4, 4, 2, 2, 0)];
    }
    let mut plan_notes = vec![];
    let mut capped: Vec<String> = vec![];
    const BLOCK: u64 = 4096;
    const WALL_CAP_S: f64 = 1000.0;
    for (n, k, max_len, mode, skip_len) in plans.iter().copied() {
        let mut alphabet: Vec<u8> = (1..=k as u8).collect();
        alphabet.push(UNKNOWN);
        let opts = children_options(&alphabet, max_len);
        let lists = hash_lists(n, k, mode);
        let total = (opts.len() as u64).pow(n as u32 + 1);
        plan_notes.push(format!(
            "n={n}, children lists <= {max_len}{}: {} hash lists x {}^{} children assignments x 2 root kinds x 5 depth limits",
            if skip_len > 0 { format!(" (at least one list longer than {skip_len})") } else { String::new() },
            lists.len(),
            opts.len(),
            n + 1
        ));
        for hashes in &lists {
            for root_is_sub in [false, true] {
                if ctx.elapsed_s() > WALL_CAP_S {
                    capped.push(format!("n={n}, children lists <= {max_len}, hash list {hashes:?}, root {}", if root_is_sub { "subintent" } else { "transaction" }));
                    continue;
                }
                par_range(&ctx, total.div_ceil(BLOCK), 1, |blk, l| {
                    let (mut c_struct, mut c_nontrivial, mut c_well, mut c_yield) = (0u64, 0u64, 0u64, 0u64);
                    for idx in blk * BLOCK..((blk + 1) * BLOCK).min(total) {
                        let mut rem = idx;
                        let mut children = Vec::with_capacity(n + 1);
                        for _ in 0..=n {
                            children.push(opts[(rem % opts.len() as u64) as usize].clone());
                            rem /= opts.len() as u64;
                        }
                        if skip_len > 0 && children.iter().all(|c| c.len() as u32 <= skip_len) {
                            continue;
                        }
                        let shape = Shape::new(root_is_sub, hashes.clone(), children);
                        c_struct += 1;
                        if !matches!(reference(&shape, 3), Ref::Ill("not-distinct") | Ref::Ill("declared-child-absent")) {
                            c_nontrivial += 1;
                        }
                        let tree = build(&shape);
                        for (ci, n_cfg) in n_cfgs.iter().enumerate() {
                            let ok = check_tree(&validators[ci], &tree, &shape, *n_cfg, l, "", false);
                            if ok {
                                c_well += 1;
                                // every yield assignment on well-formed shapes (n <= 3 keeps 3^slots small)
                                if n <= 3 {
                                    c_yield += yield_sweep(&validators[ci], &shape, *n_cfg, l);
                                }
                            }
                        }
                    }
                    structures.fetch_add(c_struct, Ordering::Relaxed);
                    nontrivial.fetch_add(c_nontrivial, Ordering::Relaxed);
                    wellformed.fetch_add(c_well, Ordering::Relaxed);
                    yield_cases.fetch_add(c_yield, Ordering::Relaxed);
                });
            }
        }
    }

    // ---- (2) depth chains ------------------------------------------------------------------------
    let mut chain_cases = 0u64;
    {
        let mut l = Local::new();
        let chain_cfgs: [usize; 9] = [0, 1, 2, 3, 4, 5, 6, 7, usize::MAX];
        for n_cfg in chain_cfgs {
            let v = validator(n_cfg);
            for root_is_sub in [false, true] {
                for depth in 0..=9usize {
                    for bushy in [false, true] {
                        for reverse in [false, true] {
                            // chain labels 1..=depth; bushy adds a leaf sibling (label 100+d) under every chain node and the root
                            let mut entries: Vec<(u8, Vec<u8>)> = vec![]; // (label, children)
                            let mut root_children = vec![];
                            if depth >= 1 {
                                root_children.push(1u8);
                            }
                            for d in 1..=depth {
                                let mut ch = vec![];
                                if d < depth {
                                    ch.push(d as u8 + 1);
                                }
                                if bushy {
                                    ch.push(100 + d as u8);
                                    entries.push((100 + d as u8, vec![]));
                                }
                                entries.push((d as u8, ch));
                            }
                            if bushy {
                                root_children.push(100);
                                entries.push((100, vec![]));
                            }
                            if reverse {
                                entries.reverse();
                            }
                            let mut children = vec![root_children];
                            children.extend(entries.iter().map(|e| e.1.clone()));
                            let shape = Shape::new(root_is_sub, entries.iter().map(|e| e.0).collect(), children);
                            check_one(&v, &shape, n_cfg, &mut l, "chain:", false);
                            chain_cases += 1;
                        }
                    }
                }
            }
        }
        ctx.merge(l);
    }

    // ---- (3) informational: hash values outside the domain of real transactions --------------------
    {
        let mut l = Local::new();
        let alphabet = [1u8, 2, UNKNOWN];
        let opts = children_options(&alphabet, 2);
        let v = validator(3);
        for n in 0..=2usize {
            for hashes in hash_lists(n, 2, 0) {
                let total = opts.len().pow(n as u32 + 1);
                for idx in 0..total {
                    let mut rem = idx;
                    let mut children = vec![];
                    for _ in 0..=n {
                        children.push(opts[rem % opts.len()].clone());
                        rem /= opts.len();
                    }
                    // (i) transaction intent hash = 32 zero bytes (the validator's internal "no parent" sentinel)
                    let mut s = Shape::new(false, hashes.clone(), children.clone());
                    s.root_label = 0;
                    check_one(&v, &s, 3, &mut l, "zero-tx-intent-hash:", true);
                    // (ii) root subintent whose hash equals the hash S1 (a hash cycle no real payload can have)
                    let mut s = Shape::new(true, hashes.clone(), children);
                    s.root_label = 1;
                    l.eval();
                    let real = catch(|| run_real(&v, &s));
                    l.info(&format!("root-subintent-hash-equals-S1:{}", match &real { Ok(Real::Accepted) => "accepted", Ok(Real::Rejected(x)) => x, Err(_) => "panic" }));
                }
            }
        }
        ctx.merge(l);
    }

    let mut cov = Map::new();
    cov.insert("structures".into(), json!(structures.load(Ordering::Relaxed)));
    cov.insert("structures_past_distinct_and_child_presence".into(), json!(nontrivial.load(Ordering::Relaxed)));
    cov.insert("wellformed_structure_x_config".into(), json!(wellformed.load(Ordering::Relaxed)));
    cov.insert("yield_assignments".into(), json!(yield_cases.load(Ordering::Relaxed)));
    cov.insert("chain_cases".into(), json!(chain_cases));
    cov.insert("plans".into(), json!(plan_notes));
    if !capped.is_empty() {
        ctx.note(format!("wall cap {WALL_CAP_S}s hit; sub-sweeps skipped (everything else completed): {capped:?}"));
    }
    cov.insert("max_subintent_depth_values".into(), json!("generic: 0,1,2,3,4; chains: 0..=7 and usize::MAX"));
    ctx.finish(
        Level::Exploration,
        "a case is one (root kind, max_subintent_depth, subintent hash list, children list per intent, yield counts) evaluated by the real validate_intents_and_structure and by the reference; non-trivial = distinct structures (root kind x hash list x children assignment) that the reference lets past 'pairwise distinct' and 'every declared child present'",
        nontrivial.load(Ordering::Relaxed),
        capped.is_empty(),
        cov,
        &[
            "mock intents: validate_intent always succeeds and reports one child_yields entry per declared child, as the real summaries do",
            "hash labels are arbitrary 32-byte patterns; the all-zero transaction-intent hash and a root subintent hash equal to a descendant's are outside the domain (informational)",
            "a child listed twice by the same parent and max_subintent_depth = 0 with a subintent root are not decided by the statement (informational)",
        ],
    )
}
