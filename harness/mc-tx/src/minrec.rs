//! Minimal-reproducer funnel: per violation key only the *smallest* failing case is kept (size, then a
//! lexicographic tie-break), so that the reported reproducer is minimal and identical in every run regardless of
//! thread scheduling; the number of failing cases per key is counted as informational.
#![allow(dead_code)]
use mc_core::{Ctx, Local};
use serde_json::Value;
use std::collections::BTreeMap;
use std::sync::Mutex;

pub struct MinRec {
    inner: Mutex<BTreeMap<String, (usize, String, String, Value)>>,
}

impl MinRec {
    pub const fn new() -> MinRec {
        MinRec { inner: Mutex::new(BTreeMap::new()) }
    }
    /// `size`/`tiebreak` order the candidates for one key.
    pub fn record(&self, l: &mut Local, key: impl Into<String>, what: impl Into<String>, size: usize, tiebreak: impl Into<String>, case: Value) {
        let key = key.into();
        l.info(&format!("failing-cases:{key}"));
        let cand = (size, tiebreak.into(), what.into(), case);
        let mut g = self.inner.lock().unwrap();
        match g.get(&key) {
            Some(cur) if (cur.0, &cur.1) <= (cand.0, &cand.1) => {}
            _ => {
                g.insert(key, cand);
            }
        }
    }
    pub fn keys(&self) -> Vec<String> {
        self.inner.lock().unwrap().keys().cloned().collect()
    }
    pub fn is_empty(&self) -> bool {
        self.inner.lock().unwrap().is_empty()
    }
    pub fn flush(&self, ctx: &Ctx) {
        let g = std::mem::take(&mut *self.inner.lock().unwrap());
        for (key, (_, _, what, case)) in g {
            ctx.violation(key, what, case);
        }
    }
}
