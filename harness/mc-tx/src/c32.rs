//! C32 — transaction identifiers commit to the whole transaction.
//!
//! Seeds (built with the real models / signers, txseeds.rs): 3 V1 notarized transactions (with/without signatures,
//! blobs, plaintext / encrypted messages, references), 2 V2 notarized transactions (0 subintents + timestamps + tip;
//! 2 subintents with a nested child, signatures, messages, blobs), a signed partial transaction, and ledger
//! transactions (round update, genesis flash, genesis system transaction, protocol-update flash, user V1 / V2 wrappers).
//!
//! Every payload P derived from a seed O (below) is pushed through the real `prepare`. The oracle is written from the
//! statement, using the typed model only to name the *content* of each hashed part (its canonical encoding):
//!   (a) canonical: if P prepares it must decode as the typed model, and re-encoding must reproduce P byte for byte;
//!   (b) per hashed part present in O and P (intent / signed intent / notarized; transaction intent / each subintent;
//!       ledger / inner): content equal <=> hash equal ("a function of the content only" and "changing any field of a
//!       hashed part changes the corresponding hash"); in particular P != O  =>  top-level hash differs;
//!   (c) must be rejected: any appended byte, any other payload-prefix byte, any other top-level discriminator, counts
//!       over the PreparationSettings limits (blobs, subintents, children per intent, user / ledger payload bytes;
//!       the values at the limit must prepare).
//! Derived payloads: (1) O itself, re-prepared, re-encoded, and prepared from the typed model; (2) structural: O is
//! decoded to a ManifestValue tree and EVERY node gets every local perturbation (ints +-1, bool flip, string
//! append/drop/change, enum discriminator +-1, add/remove a field / element / entry, EVERY array element / map entry
//! duplicated in place and appended as a copy, custom values altered) and is
//! re-encoded; (3) byte level: every single-byte substitution (all 255 values at every offset), every deletion,
//! duplication, truncation, and all 256 appended bytes; thorough: additionally every substitution of two adjacent bytes
//! (255 x 255 per offset) on six of the seeds.
use crate::txseeds::*;
use mc_core::{catch, par_range, Ctx, Level, Local};
use radix_common::prelude::*;
use radix_engine_interface::prelude::*;
use radix_transactions::model::*;
use radix_transactions::prelude::ManifestBuilder;
use serde_json::{json, Map, Value};
use std::collections::BTreeMap;
use std::sync::atomic::{AtomicU64, Ordering};

#[derive(Clone, Copy, Debug, PartialEq, Eq)]
enum Kind {
    User,
    Partial,
    Ledger,
}

struct Seed {
    name: &'static str,
    kind: Kind,
    raw: Vec<u8>,
}

// ------------------------------------------------------------------------------------------------
// seeds
// ------------------------------------------------------------------------------------------------

fn seed_specs() -> Vec<(&'static str, TxSpec)> {
    let mut out = vec![];
    // V1, bare
    out.push(("v1-bare", TxSpec::base(false)));
    // V1, 2 signatures (both curves), blobs, plaintext message, ed25519 notary that is a signatory
    let mut s = TxSpec::base(false);
    s.root.signers = vec![KeyId::Secp(1), KeyId::Ed(3)];
    s.root.blobs = 2;
    s.root.blob_size = 6;
    s.root.message = MsgSpec::Plain { mime_len: 10, bytes: false, len: 12 };
    s.notary = KeyId::Ed(901);
    s.notary_is_signatory = true;
    s.tip = 7;
    out.push(("v1-signed-blobs-plaintext", s));
    // V1, encrypted message on both curves, references
    let mut s = TxSpec::base(false);
    s.root.signers = vec![KeyId::Secp(2)];
    s.root.refs = 2;
    s.root.message = MsgSpec::Enc { len: 20, ed: Some(1), secp: Some(2), swap_curves: false };
    out.push(("v1-encrypted-refs", s));
    // V2, no subintents, timestamps, tip, one signature
    let mut s = TxSpec::base(true);
    s.root.signers = vec![KeyId::Ed(3)];
    s.root.min_ts = Some(1_700_000_000);
    s.root.max_ts = Some(1_700_000_600);
    s.tip = 250;
    out.push(("v2-no-subintents-timestamps", s));
    // V2, root -> sub0 -> sub1, signatures everywhere, messages, blobs, references
    let mut s = TxSpec::base(true);
    s.root.signers = vec![KeyId::Secp(1)];
    s.root.children = vec![0];
    s.root.message = MsgSpec::Plain { mime_len: 4, bytes: true, len: 5 };
    s.root.blobs = 1;
    let mut a = IntentSpec::base(1);
    a.children = vec![1];
    a.signers = vec![KeyId::Secp(2), KeyId::Ed(3)];
    a.message = MsgSpec::Enc { len: 8, ed: Some(1), secp: None, swap_curves: false };
    a.refs = 1;
    let mut b = IntentSpec::base(2);
    b.signers = vec![KeyId::Ed(4)];
    b.max_ts = Some(99);
    b.blobs = 1;
    s.subs = vec![a, b];
    s.notary_is_signatory = true;
    out.push(("v2-nested-subintents", s));
    out
}

fn partial_spec() -> TxSpec {
    let mut s = TxSpec::base(true);
    s.root.signers = vec![KeyId::Secp(1), KeyId::Ed(3)];
    s.root.children = vec![0];
    let mut a = IntentSpec::base(1);
    a.signers = vec![KeyId::Secp(2)];
    a.message = MsgSpec::Plain { mime_len: 3, bytes: false, len: 3 };
    s.subs = vec![a];
    s
}

fn seeds() -> Vec<Seed> {
    let mut out = vec![];
    let mut user_v1 = None;
    let mut user_v2 = None;
    for (name, spec) in seed_specs() {
        let (built, raw) = build(&spec).expect("seed builds");
        match built {
            BuiltTx::V1(t) if name == "v1-signed-blobs-plaintext" => user_v1 = Some(t),
            BuiltTx::V2(t) if name == "v2-nested-subintents" => user_v2 = Some(t),
            _ => {}
        }
        out.push(Seed { name, kind: Kind::User, raw: raw.to_vec() });
    }
    out.push(Seed { name: "partial-signed", kind: Kind::Partial, raw: build_signed_partial_v2(&partial_spec()).to_raw().expect("encodes").to_vec() });
    let ledger = |name: &'static str, t: LedgerTransaction| Seed { name, kind: Kind::Ledger, raw: t.to_raw().expect("encodes").to_vec() };
    out.push(ledger(
        "ledger-round-update",
        LedgerTransaction::RoundUpdateV1(Box::new(RoundUpdateTransactionV1 {
            proposer_timestamp_ms: 1_700_000_000_123,
            epoch: Epoch::of(3),
            round: Round::of(7),
            leader_proposal_history: LeaderProposalHistory { gap_round_leaders: vec![1, 2], current_leader: 3, is_fallback: false },
        })),
    ));
    out.push(ledger("ledger-genesis-flash", LedgerTransaction::Genesis(Box::new(GenesisTransaction::Flash))));
    out.push(ledger(
        "ledger-genesis-system",
        LedgerTransaction::Genesis(Box::new(GenesisTransaction::Transaction(Box::new(SystemTransactionV1 {
            instructions: InstructionsV1(ManifestBuilder::new().drop_auth_zone_proofs().build().instructions),
            blobs: BlobsV1 { blobs: vec![BlobV1(vec![1, 2, 3])] },
            pre_allocated_addresses: vec![],
            hash_for_execution: hash(b"genesis seed"),
        })))),
    ));
    out.push(ledger(
        "ledger-flash",
        LedgerTransaction::FlashV1(Box::new(FlashTransactionV1 {
            name: "flash".to_string(),
            state_updates: StateUpdates::empty().set_substate(CONSENSUS_MANAGER, PartitionNumber(5), SubstateKey::Field(1), 17u32),
        })),
    ));
    out.push(ledger("ledger-user-v1", LedgerTransaction::UserV1(Box::new(user_v1.unwrap()))));
    out.push(ledger("ledger-user-v2", LedgerTransaction::UserV2(Box::new(user_v2.unwrap()))));
    out
}

// ------------------------------------------------------------------------------------------------
// what the real code says about a payload, and the typed content of each hashed part
// ------------------------------------------------------------------------------------------------

struct Analysis {
    /// part name -> hash, from the real preparation
    hashes: BTreeMap<String, Hash>,
    /// part name -> canonical encoding of the typed part; None if the typed decode failed
    contents: Option<BTreeMap<String, Vec<u8>>>,
    /// typed re-encoding of the whole payload
    reencoded: Option<Vec<u8>>,
    top: Option<&'static str>,
}

fn user_hashes(p: &PreparedUserTransaction, prefix: &str, out: &mut BTreeMap<String, Hash>) {
    let h = p.hashes();
    out.insert(format!("{prefix}intent"), h.transaction_intent_hash.0);
    out.insert(format!("{prefix}signed_intent"), h.signed_transaction_intent_hash.0);
    out.insert(format!("{prefix}notarized"), h.notarized_transaction_hash.0);
    for (i, s) in h.non_root_subintent_hashes.iter().enumerate() {
        out.insert(format!("{prefix}subintent[{i}]"), s.0);
    }
}

fn user_contents(t: &UserTransaction, prefix: &str, out: &mut BTreeMap<String, Vec<u8>>) {
    match t {
        UserTransaction::V1(t) => {
            out.insert(format!("{prefix}intent"), manifest_encode(&t.signed_intent.intent).unwrap());
            out.insert(format!("{prefix}signed_intent"), manifest_encode(&t.signed_intent).unwrap());
            out.insert(format!("{prefix}notarized"), t.to_raw().unwrap().to_vec());
        }
        UserTransaction::V2(t) => {
            let si = &t.signed_transaction_intent;
            out.insert(format!("{prefix}intent"), manifest_encode(&si.transaction_intent).unwrap());
            out.insert(format!("{prefix}signed_intent"), manifest_encode(si).unwrap());
            out.insert(format!("{prefix}notarized"), t.to_raw().unwrap().to_vec());
            for (i, s) in si.transaction_intent.non_root_subintents.0.iter().enumerate() {
                out.insert(format!("{prefix}subintent[{i}]"), manifest_encode(s).unwrap());
            }
        }
    }
}

fn analyse(kind: Kind, bytes: &[u8], settings: &PreparationSettings) -> Result<Analysis, String> {
    let label = |e: PrepareError| -> String {
        let d = format!("{e:?}");
        let head: String = d.split(|c: char| c == '(' || c == '{' || c == ' ').next().unwrap_or("").to_string();
        if let PrepareError::DecodeError(de) = &e {
            format!("DecodeError:{}", format!("{de:?}").split(|c: char| c == '(' || c == '{' || c == ' ').next().unwrap_or(""))
        } else {
            head
        }
    };
    let mut hashes = BTreeMap::new();
    let mut contents = BTreeMap::new();
    match kind {
        Kind::User => {
            let raw = RawNotarizedTransaction::from_slice(bytes);
            let prepared = raw.prepare(settings).map_err(label)?;
            user_hashes(&prepared, "", &mut hashes);
            let typed = UserTransaction::from_raw(&raw).ok();
            let reencoded = typed.as_ref().map(|t| match t {
                UserTransaction::V1(t) => t.to_raw().unwrap().to_vec(),
                UserTransaction::V2(t) => t.to_raw().unwrap().to_vec(),
            });
            if let Some(t) = &typed {
                user_contents(t, "", &mut contents);
            }
            Ok(Analysis { hashes, contents: typed.map(|_| contents), reencoded, top: Some("notarized") })
        }
        Kind::Partial => {
            let raw = RawSignedPartialTransaction::from_slice(bytes);
            let prepared = PreparedSignedPartialTransactionV2::prepare(&raw, settings).map_err(label)?;
            hashes.insert("root_subintent".into(), prepared.partial_transaction.root_subintent.subintent_hash().0);
            for (i, s) in prepared.partial_transaction.non_root_subintents.subintents.iter().enumerate() {
                hashes.insert(format!("subintent[{i}]"), s.subintent_hash().0);
            }
            let typed = SignedPartialTransactionV2::from_raw(&raw).ok();
            if let Some(t) = &typed {
                contents.insert("root_subintent".into(), manifest_encode(&t.partial_transaction.root_subintent).unwrap());
                for (i, s) in t.partial_transaction.non_root_subintents.0.iter().enumerate() {
                    contents.insert(format!("subintent[{i}]"), manifest_encode(s).unwrap());
                }
            }
            let reencoded = typed.as_ref().map(|t| t.to_raw().unwrap().to_vec());
            Ok(Analysis { hashes, contents: typed.map(|_| contents), reencoded, top: None })
        }
        Kind::Ledger => {
            let raw = RawLedgerTransaction::from_slice(bytes);
            let prepared = raw.prepare(settings).map_err(label)?;
            let h = prepared.create_hashes();
            hashes.insert("ledger".into(), h.ledger_transaction_hash.0);
            match &prepared.inner {
                PreparedLedgerTransactionInner::Genesis(g) => {
                    hashes.insert("inner:genesis".into(), g.system_transaction_hash().0);
                }
                PreparedLedgerTransactionInner::User(u) => user_hashes(u, "inner:", &mut hashes),
                PreparedLedgerTransactionInner::Validator(v) => {
                    hashes.insert("inner:round_update".into(), v.round_update_transaction_hash().0);
                }
                PreparedLedgerTransactionInner::ProtocolUpdate(f) => {
                    hashes.insert("inner:flash".into(), f.flash_transaction_hash().0);
                }
            }
            let typed = LedgerTransaction::from_raw(&raw).ok();
            if let Some(t) = &typed {
                contents.insert("ledger".into(), manifest_encode(t).unwrap());
                match t {
                    LedgerTransaction::Genesis(g) => {
                        contents.insert("inner:genesis".into(), manifest_encode(g.as_ref()).unwrap());
                    }
                    LedgerTransaction::UserV1(u) => user_contents(&UserTransaction::V1(u.as_ref().clone()), "inner:", &mut contents),
                    LedgerTransaction::UserV2(u) => user_contents(&UserTransaction::V2(u.as_ref().clone()), "inner:", &mut contents),
                    LedgerTransaction::RoundUpdateV1(r) => {
                        contents.insert("inner:round_update".into(), manifest_encode(r.as_ref()).unwrap());
                    }
                    LedgerTransaction::FlashV1(f) => {
                        contents.insert("inner:flash".into(), manifest_encode(f.as_ref()).unwrap());
                    }
                }
            }
            let reencoded = typed.as_ref().map(|t| t.to_raw().unwrap().to_vec());
            Ok(Analysis { hashes, contents: typed.map(|_| contents), reencoded, top: Some("ledger") })
        }
    }
}

// ------------------------------------------------------------------------------------------------
// the oracle for one derived payload
// ------------------------------------------------------------------------------------------------

#[derive(Clone, Copy, PartialEq, Eq)]
enum Demand {
    /// the statement says this payload must be rejected
    MustReject,
    None,
}

struct Stats {
    accepted_mutants: AtomicU64,
    payloads: AtomicU64,
}

#[allow(clippy::too_many_arguments)]
fn check_payload(seed: &Seed, orig: &Analysis, p: &[u8], how: &str, family: &str, demand: Demand, settings: &PreparationSettings, l: &mut Local, stats: &Stats) {
    l.eval();
    stats.payloads.fetch_add(1, Ordering::Relaxed);
    let case = || json!({"seed": seed.name, "kind": format!("{:?}", seed.kind), "derivation": how, "payload_hex": mc_core::hex(p), "seed_hex": mc_core::hex(&seed.raw)});
    let res = match catch(|| analyse(seed.kind, p, settings)) {
        Ok(r) => r,
        Err(panic) => {
            l.class(&format!("{family}:panicked"));
            l.info(&format!("panic:{}:{}", seed.name, mc_core::truncate(&panic, 80)));
            return;
        }
    };
    let a = match res {
        Err(why) => {
            l.class(&format!("{family}:rejected:{why}"));
            return;
        }
        Ok(a) => a,
    };
    if p == seed.raw.as_slice() {
        l.class(&format!("{family}:identical-to-seed"));
        return;
    }
    stats.accepted_mutants.fetch_add(1, Ordering::Relaxed);
    if demand == Demand::MustReject {
        l.violation(format!("{family}:accepted-but-must-be-rejected"), format!("{how}: the payload prepares"), case());
        return;
    }
    // (a) canonical
    match &a.reencoded {
        Some(r) if r.as_slice() != p => {
            l.violation(format!("{family}:accepted-non-canonical-payload"), format!("{how}: prepares, decodes, but re-encodes to different bytes"), case());
            return;
        }
        None => {
            l.violation(
                format!("{family}:accepted-but-not-decodable-as-the-typed-model"),
                format!("{how}: the payload prepares (gets identifiers) but the typed model's decoder rejects it, so it cannot be the canonical encoding of any transaction"),
                case(),
            );
            return;
        }
        _ => {}
    }
    // (b) top level: different canonical bytes => different identifier
    if let Some(top) = a.top {
        if a.hashes.get(top) == orig.hashes.get(top) {
            l.violation(format!("{family}:different-payload-same-{top}-hash"), format!("{how}: payload differs from the seed but the {top} hash is unchanged"), case());
            return;
        }
    }
    let mut changed_parts = vec![];
    if let (Some(c0), Some(c1)) = (&orig.contents, &a.contents) {
        for (name, h1) in &a.hashes {
            let (Some(h0), Some(b0), Some(b1)) = (orig.hashes.get(name), c0.get(name), c1.get(name)) else { continue };
            let same_content = b0 == b1;
            let same_hash = h0 == h1;
            if !same_content {
                changed_parts.push(name.as_str());
            }
            if same_content != same_hash {
                let key = if same_hash { format!("{family}:content-changed-hash-unchanged:{}", strip_index(name)) } else { format!("{family}:hash-changed-content-unchanged:{}", strip_index(name)) };
                l.violation(key, format!("{how}: part {name}: content {} but hash {}", if same_content { "unchanged" } else { "changed" }, if same_hash { "unchanged" } else { "changed" }), case());
                return;
            }
        }
    }
    let cls = if changed_parts.is_empty() { "none-of-the-hashed-parts".to_string() } else { changed_parts.iter().map(|s| strip_index(s)).collect::<std::collections::BTreeSet<_>>().into_iter().collect::<Vec<_>>().join("+") };
    l.class(&format!("{family}:accepted:changes:{cls}"));
    if family == "tree" {
        l.sample(|| json!({"seed": seed.name, "derivation": how, "changed_parts": changed_parts}));
    }
}

fn strip_index(s: &str) -> String {
    match s.find('[') {
        Some(i) => s[..i].to_string(),
        None => s.to_string(),
    }
}

// ------------------------------------------------------------------------------------------------
// structural perturbations of the ManifestValue tree
// ------------------------------------------------------------------------------------------------

fn child_count(v: &ManifestValue) -> usize {
    match v {
        ManifestValue::Enum { fields, .. } | ManifestValue::Tuple { fields } => fields.len(),
        ManifestValue::Array { elements, .. } => elements.len(),
        ManifestValue::Map { entries, .. } => entries.len() * 2,
        _ => 0,
    }
}

fn child_mut(v: &mut ManifestValue, i: usize) -> &mut ManifestValue {
    match v {
        ManifestValue::Enum { fields, .. } | ManifestValue::Tuple { fields } => &mut fields[i],
        ManifestValue::Array { elements, .. } => &mut elements[i],
        ManifestValue::Map { entries, .. } => {
            if i % 2 == 0 {
                &mut entries[i / 2].0
            } else {
                &mut entries[i / 2].1
            }
        }
        _ => unreachable!(),
    }
}

fn child_ref(v: &ManifestValue, i: usize) -> &ManifestValue {
    match v {
        ManifestValue::Enum { fields, .. } | ManifestValue::Tuple { fields } => &fields[i],
        ManifestValue::Array { elements, .. } => &elements[i],
        ManifestValue::Map { entries, .. } => {
            if i % 2 == 0 {
                &entries[i / 2].0
            } else {
                &entries[i / 2].1
            }
        }
        _ => unreachable!(),
    }
}

/// Apply local perturbation k to this node; returns its label, or None if k is out of range / not applicable.
fn perturb_local(v: &mut ManifestValue, k: usize) -> Option<String> {
    macro_rules! int {
        ($value:expr) => {
            match k {
                0 => {
                    *$value = $value.wrapping_add(1);
                    Some("+1".to_string())
                }
                1 => {
                    *$value = $value.wrapping_sub(1);
                    Some("-1".to_string())
                }
                _ => None,
            }
        };
    }
    match v {
        ManifestValue::Bool { value } => (k == 0).then(|| {
            *value = !*value;
            "flip".to_string()
        }),
        ManifestValue::I8 { value } => int!(value),
        ManifestValue::I16 { value } => int!(value),
        ManifestValue::I32 { value } => int!(value),
        ManifestValue::I64 { value } => int!(value),
        ManifestValue::I128 { value } => int!(value),
        ManifestValue::U8 { value } => int!(value),
        ManifestValue::U16 { value } => int!(value),
        ManifestValue::U32 { value } => int!(value),
        ManifestValue::U64 { value } => int!(value),
        ManifestValue::U128 { value } => int!(value),
        ManifestValue::String { value } => match k {
            0 => {
                value.push('x');
                Some("append-char".into())
            }
            1 if !value.is_empty() => {
                value.pop();
                Some("drop-char".into())
            }
            2 if !value.is_empty() => {
                let first = value.remove(0);
                value.insert(0, if first == 'q' { 'r' } else { 'q' });
                Some("change-char".into())
            }
            _ => None,
        },
        ManifestValue::Enum { discriminator, fields } => match k {
            0 => {
                *discriminator = discriminator.wrapping_add(1);
                Some("discriminator+1".into())
            }
            1 => {
                *discriminator = discriminator.wrapping_sub(1);
                Some("discriminator-1".into())
            }
            2 => {
                fields.push(ManifestValue::U8 { value: 0 });
                Some("add-field".into())
            }
            3 if !fields.is_empty() => {
                fields.pop();
                Some("remove-field".into())
            }
            _ => None,
        },
        ManifestValue::Tuple { fields } => match k {
            0 => {
                fields.push(ManifestValue::U8 { value: 0 });
                Some("add-field".into())
            }
            1 if !fields.is_empty() => {
                fields.pop();
                Some("remove-field".into())
            }
            _ => None,
        },
        ManifestValue::Array { element_value_kind, elements } => match k {
            0 => {
                if let Some(last) = elements.last().cloned() {
                    elements.push(last);
                    Some("duplicate-last-element".into())
                } else if *element_value_kind == ManifestValueKind::U8 {
                    elements.push(ManifestValue::U8 { value: 0 });
                    Some("add-element".into())
                } else if *element_value_kind == ManifestValueKind::Tuple {
                    elements.push(ManifestValue::Tuple { fields: vec![] });
                    Some("add-empty-tuple-element".into())
                } else {
                    None
                }
            }
            1 if !elements.is_empty() => {
                elements.pop();
                Some("remove-last-element".into())
            }
            2 if elements.len() >= 2 => {
                elements.swap(0, 1);
                Some("swap-first-two-elements".into())
            }
            k if k >= 3 && (k - 3) / 2 < elements.len() => {
                let i = (k - 3) / 2;
                let e = elements[i].clone();
                if (k - 3) % 2 == 0 {
                    elements.insert(i + 1, e);
                    Some(format!("duplicate-element[{i}]-in-place"))
                } else {
                    elements.push(e);
                    Some(format!("append-copy-of-element[{i}]"))
                }
            }
            _ => None,
        },
        ManifestValue::Map { entries, .. } => match k {
            0 if !entries.is_empty() => {
                entries.pop();
                Some("remove-last-entry".into())
            }
            1 if entries.len() >= 2 => {
                entries.swap(0, 1);
                Some("swap-first-two-entries".into())
            }
            k if k >= 2 && (k - 2) / 2 < entries.len() => {
                let i = (k - 2) / 2;
                let e = entries[i].clone();
                if (k - 2) % 2 == 0 {
                    entries.insert(i + 1, e);
                    Some(format!("duplicate-entry[{i}]-in-place"))
                } else {
                    entries.push(e);
                    Some(format!("append-copy-of-entry[{i}]"))
                }
            }
            _ => None,
        },
        ManifestValue::Custom { value } => {
            if k != 0 {
                return None;
            }
            match value {
                ManifestCustomValue::Address(ManifestAddress::Static(node)) => {
                    node.0[29] ^= 1;
                    Some("address-flip-bit".into())
                }
                ManifestCustomValue::Address(ManifestAddress::Named(n)) => {
                    n.0 = n.0.wrapping_add(1);
                    Some("named-address+1".into())
                }
                ManifestCustomValue::Bucket(b) => {
                    b.0 = b.0.wrapping_add(1);
                    Some("bucket+1".into())
                }
                ManifestCustomValue::Proof(b) => {
                    b.0 = b.0.wrapping_add(1);
                    Some("proof+1".into())
                }
                ManifestCustomValue::AddressReservation(b) => {
                    b.0 = b.0.wrapping_add(1);
                    Some("reservation+1".into())
                }
                ManifestCustomValue::Expression(e) => {
                    *e = match e {
                        ManifestExpression::EntireWorktop => ManifestExpression::EntireAuthZone,
                        ManifestExpression::EntireAuthZone => ManifestExpression::EntireWorktop,
                    };
                    Some("expression-toggle".into())
                }
                ManifestCustomValue::Blob(b) => {
                    b.0[0] ^= 1;
                    Some("blob-ref-flip-bit".into())
                }
                ManifestCustomValue::Decimal(d) => {
                    d.0[0] ^= 1;
                    Some("decimal-flip-bit".into())
                }
                ManifestCustomValue::PreciseDecimal(d) => {
                    d.0[0] ^= 1;
                    Some("precise-decimal-flip-bit".into())
                }
                ManifestCustomValue::NonFungibleLocalId(_) => None,
            }
        }
    }
}

/// upper bound of the local perturbation indices of a node (arrays / maps: + 2 per element / entry)
fn local_count(v: &ManifestValue) -> usize {
    match v {
        ManifestValue::Array { elements, .. } => 3 + 2 * elements.len(),
        ManifestValue::Map { entries, .. } => 2 + 2 * entries.len(),
        _ => 4,
    }
}

fn collect_paths(v: &ManifestValue, cur: &mut Vec<usize>, out: &mut Vec<Vec<usize>>) {
    out.push(cur.clone());
    for i in 0..child_count(v) {
        cur.push(i);
        collect_paths(child_ref(v, i), cur, out);
        cur.pop();
    }
}

// ------------------------------------------------------------------------------------------------

/// seeds that additionally get every substitution of two adjacent bytes (thorough tier)
const DOUBLE_WALL_CAP_S: f64 = 900.0;
const DOUBLE_MUTATION_SEEDS: [&str; 6] = ["v1-signed-blobs-plaintext", "v2-nested-subintents", "partial-signed", "ledger-round-update", "ledger-genesis-system", "ledger-flash"];

pub fn run(ctx: Ctx) -> ! {
    assert_signing_is_deterministic();
    let settings = PreparationSettings::latest();
    let seeds = seeds();
    let stats = Stats { accepted_mutants: AtomicU64::new(0), payloads: AtomicU64::new(0) };

    if let Some(case) = ctx.read_replay_case() {
        let name = case.get("seed").and_then(|x| x.as_str()).unwrap_or("");
        let Some(seed) = seeds.iter().find(|s| s.name == name) else { mc_core::machinery_error("C32 replay: unknown seed") };
        let p = mc_core::unhex(case.get("payload_hex").and_then(|x| x.as_str()).unwrap_or(""));
        let orig = analyse(seed.kind, &seed.raw, &settings).unwrap_or_else(|e| mc_core::machinery_error(&format!("seed does not prepare: {e}")));
        let how = case.get("derivation").and_then(|x| x.as_str()).unwrap_or("replay").to_string();
        let family = how.split(':').next().unwrap_or("byte").to_string();
        let demand = if how.contains("[must-reject]") { Demand::MustReject } else { Demand::None };
        let mut l = Local::new();
        match analyse(seed.kind, &p, &settings) {
            Ok(a) => {
                for (k, h) in &a.hashes {
                    println!("  {k}: {h} (seed: {})", orig.hashes.get(k).map(|h| h.to_string()).unwrap_or("-".into()));
                }
            }
            Err(e) => println!("  rejected: {e}"),
        }
        check_payload(seed, &orig, &p, &how, &family, demand, &settings, &mut l, &stats);
        ctx.merge(l);
        ctx.finish(Level::Exploration, "replay", 1, false, Map::new(), &[]);
    }

    // ---- (1) seeds: canonical form, stable hashes --------------------------------------------------------
    let mut origs = vec![];
    {
        let mut l = Local::new();
        for seed in &seeds {
            l.eval();
            let a = match analyse(seed.kind, &seed.raw, &settings) {
                Ok(a) => a,
                Err(e) => mc_core::machinery_error(&format!("C32: seed {} does not prepare: {e}", seed.name)),
            };
            let case = || json!({"seed": seed.name, "seed_hex": mc_core::hex(&seed.raw)});
            match &a.reencoded {
                Some(r) if *r == seed.raw => l.class("seed:roundtrips-and-prepares"),
                Some(_) => l.violation("seed:reencoding-differs", "to_raw(from_raw(raw)) != raw for a payload produced by the encoder", case()),
                None => l.violation("seed:typed-decode-fails", "a payload produced by the encoder does not decode", case()),
            }
            let again = analyse(seed.kind, &seed.raw, &settings).unwrap();
            if again.hashes != a.hashes {
                l.violation("seed:hashes-not-stable", "preparing the same payload twice gives different hashes", case());
            }
            // preparing from the typed model (encode + prepare) must agree with preparing the raw payload
            let via_typed: Option<BTreeMap<String, Hash>> = match seed.kind {
                Kind::User => UserTransaction::from_raw(&RawNotarizedTransaction::from_slice(&seed.raw)).ok().and_then(|t| t.prepare(&settings).ok()).map(|p| {
                    let mut m = BTreeMap::new();
                    user_hashes(&p, "", &mut m);
                    m
                }),
                _ => None,
            };
            if let Some(m) = via_typed {
                if m != a.hashes {
                    l.violation("seed:typed-prepare-differs", "hashes via the typed model differ from hashes via the raw payload", case());
                }
            }
            // distinct hashed parts of one payload have distinct hashes (domain separation of intent / signed / notarized)
            let mut seen: BTreeMap<Hash, &String> = BTreeMap::new();
            for (k, h) in &a.hashes {
                if let Some(other) = seen.insert(*h, k) {
                    let same_content = a.contents.as_ref().map(|c| c.get(k) == c.get(other)).unwrap_or(false);
                    if !same_content && !(k.starts_with("inner:") || other.starts_with("inner:") || k == "ledger" || other == "ledger") {
                        l.violation("seed:two-parts-share-a-hash", format!("{k} and {other} have the same hash"), case());
                    }
                }
            }
            l.sample(|| json!({"seed": seed.name, "bytes": seed.raw.len(), "hashes": a.hashes.iter().map(|(k, h)| (k.clone(), h.to_string())).collect::<BTreeMap<_, _>>()}));
            origs.push(a);
        }
        ctx.merge(l);
    }

    // ---- (2) structural perturbations ------------------------------------------------------------------
    let mut tree_jobs: Vec<(usize, Vec<usize>)> = vec![];
    let mut trees = vec![];
    for (si, seed) in seeds.iter().enumerate() {
        let tree: ManifestValue = manifest_decode(&seed.raw).unwrap_or_else(|e| mc_core::machinery_error(&format!("seed {} is not a manifest value: {e:?}", seed.name)));
        if manifest_encode(&tree).unwrap() != seed.raw {
            mc_core::machinery_error("value-tree round trip of a seed is not the identity; structural perturbations would be meaningless");
        }
        let mut paths = vec![];
        collect_paths(&tree, &mut vec![], &mut paths);
        for p in paths {
            tree_jobs.push((si, p));
        }
        trees.push(tree);
    }
    let tree_nodes = tree_jobs.len();
    let tree_cases = AtomicU64::new(0);
    par_range(&ctx, tree_jobs.len() as u64, 64, |j, l| {
        let (si, path) = &tree_jobs[j as usize];
        let mut probe = &trees[*si];
        for i in path {
            probe = child_ref(probe, *i);
        }
        for k in 0..local_count(probe) {
            let mut t = trees[*si].clone();
            let mut node = &mut t;
            for i in path {
                node = child_mut(node, *i);
            }
            let Some(label) = perturb_local(node, k) else { continue };
            let Ok(p) = manifest_encode(&t) else {
                l.info("tree:perturbed-tree-not-encodable");
                continue;
            };
            tree_cases.fetch_add(1, Ordering::Relaxed);
            let how = format!("tree:/{}:{label}", path.iter().map(|x| x.to_string()).collect::<Vec<_>>().join("/"));
            check_payload(&seeds[*si], &origs[*si], &p, &how, "tree", Demand::None, &settings, l, &stats);
        }
    });

    // ---- (3) byte-level mutations ------------------------------------------------------------------------
    let double = !ctx.quick();
    let double_payloads = AtomicU64::new(0);
    let mut byte_jobs: Vec<(usize, usize)> = vec![]; // (seed, offset)
    for (si, seed) in seeds.iter().enumerate() {
        for off in 0..seed.raw.len() {
            byte_jobs.push((si, off));
        }
    }
    par_range(&ctx, byte_jobs.len() as u64, 4, |j, l| {
        let (si, off) = byte_jobs[j as usize];
        let seed = &seeds[si];
        let orig = &origs[si];
        let mut buf = seed.raw.clone();
        for b in 0..=255u8 {
            if b == seed.raw[off] {
                continue;
            }
            buf[off] = b;
            // statement: wrong payload prefix / wrong top-level discriminator must be rejected
            let must = off == 0 || off == 2;
            let how = format!("byte:substitute@{off}={b:#04x}{}", if must { "[must-reject]" } else { "" });
            check_payload(seed, orig, &buf, &how, "byte", if must { Demand::MustReject } else { Demand::None }, &settings, l, &stats);
        }
        let mut v = seed.raw.clone();
        v.remove(off);
        check_payload(seed, orig, &v, &format!("byte:delete@{off}"), "byte", Demand::None, &settings, l, &stats);
        let mut v = seed.raw.clone();
        v.insert(off, seed.raw[off]);
        check_payload(seed, orig, &v, &format!("byte:duplicate@{off}"), "byte", Demand::None, &settings, l, &stats);
        check_payload(seed, orig, &seed.raw[..off], &format!("byte:truncate@{off}"), "byte", Demand::None, &settings, l, &stats);
    });
    // thorough: every substitution of two adjacent bytes; wall-capped (the single-point sweeps above always complete)
    let double_jobs: Vec<(usize, usize)> = if double { byte_jobs.iter().copied().filter(|(si, off)| DOUBLE_MUTATION_SEEDS.contains(&seeds[*si].name) && off + 1 < seeds[*si].raw.len()).collect() } else { vec![] };
    let double_capped = std::sync::atomic::AtomicBool::new(false);
    par_range(&ctx, double_jobs.len() as u64, 1, |j, l| {
        if ctx.elapsed_s() > DOUBLE_WALL_CAP_S {
            double_capped.store(true, Ordering::Relaxed);
            return;
        }
        let (si, off) = double_jobs[j as usize];
        let seed = &seeds[si];
        let orig = &origs[si];
        let mut buf = seed.raw.clone();
        let must = off == 0 || off == 2 || off + 1 == 2;
        for b1 in 0..=255u8 {
            if b1 == seed.raw[off] {
                continue;
            }
            buf[off] = b1;
            for b2 in 0..=255u8 {
                if b2 == seed.raw[off + 1] {
                    continue;
                }
                buf[off + 1] = b2;
                let how = format!("byte2:substitute@{off}={b1:#04x},{b2:#04x}{}", if must { "[must-reject]" } else { "" });
                check_payload(seed, orig, &buf, &how, "byte2", if must { Demand::MustReject } else { Demand::None }, &settings, l, &stats);
            }
        }
        double_payloads.fetch_add(255 * 255, Ordering::Relaxed);
    });
    let double_capped = double_capped.load(Ordering::Relaxed);
    if double_capped {
        ctx.note(format!("wall cap {DOUBLE_WALL_CAP_S}s hit during the adjacent-double-substitution sweep: {} of {} offsets completed; all single-point sweeps, structural perturbations and limit probes are complete", double_payloads.load(Ordering::Relaxed) / (255 * 255), double_jobs.len()));
    }
    {
        let mut l = Local::new();
        for (si, seed) in seeds.iter().enumerate() {
            for b in 0..=255u8 {
                let mut v = seed.raw.clone();
                v.push(b);
                check_payload(seed, &origs[si], &v, &format!("trailing:append={b:#04x}[must-reject]"), "trailing", Demand::MustReject, &settings, &mut l, &stats);
            }
        }
        ctx.merge(l);
    }

    // ---- (c) PreparationSettings limits at lim / lim+1 ------------------------------------------------------
    let limit_cases = std::cell::Cell::new(0u64);
    {
        let mut l = Local::new();
        let one = |name: &str, raw: Vec<u8>, kind: Kind, within: bool, l: &mut Local| {
            l.eval();
            limit_cases.set(limit_cases.get() + 1);
            let r = analyse(kind, &raw, &settings);
            match (within, r.is_ok()) {
                (true, true) => l.class("limit:at-limit-prepares"),
                (false, false) => l.class("limit:over-limit-rejected"),
                (true, false) => l.violation(format!("limit:{name}:rejected-at-limit"), format!("{name}: a payload exactly at the limit is rejected: {:?}", r.err()), json!({"limit": name, "payload_len": raw.len()})),
                (false, true) => l.violation(format!("limit:{name}:accepted-over-limit"), format!("{name}: a payload over the limit prepares"), json!({"limit": name, "payload_len": raw.len()})),
            }
        };
        for v2 in [false, true] {
            for n in [settings.max_blobs, settings.max_blobs + 1] {
                let mut s = TxSpec::base(v2);
                s.root.blobs = n;
                one("max_blobs", build(&s).unwrap().1.to_vec(), Kind::User, n <= settings.max_blobs, &mut l);
            }
            for n in [settings.max_user_payload_length, settings.max_user_payload_length + 1] {
                let mut s = TxSpec::base(v2);
                s.pad_payload_to = Some(n);
                let raw = build(&s).expect("padding reachable").1.to_vec();
                assert_eq!(raw.len(), n);
                one("max_user_payload_length", raw, Kind::User, n <= settings.max_user_payload_length, &mut l);
            }
        }
        for n in [settings.max_subintents_per_transaction, settings.max_subintents_per_transaction + 1] {
            // breadth-first fill with at most max_child_subintents_per_intent children each
            let cap = settings.max_child_subintents_per_intent;
            let mut s = TxSpec::base(true);
            for i in 0..n {
                s.subs.push(IntentSpec::base(i as u32 + 1));
                if i < cap {
                    s.root.children.push(i);
                } else {
                    s.subs[(i - cap) / cap].children.push(i);
                }
            }
            one("max_subintents_per_transaction", build(&s).unwrap().1.to_vec(), Kind::User, n <= settings.max_subintents_per_transaction, &mut l);
        }
        {
            // children per intent: the limit equals the subintent limit in the real settings, so use custom settings for lim+1
            let mut custom = settings;
            custom.max_child_subintents_per_intent = 3;
            for n in [3usize, 4] {
                let mut s = TxSpec::base(true);
                for i in 0..n {
                    s.subs.push(IntentSpec::base(i as u32 + 1));
                    s.root.children.push(i);
                }
                let raw = build(&s).unwrap().1;
                l.eval();
                limit_cases.set(limit_cases.get() + 1);
                let ok = raw.prepare(&custom).is_ok();
                if ok != (n <= 3) {
                    l.violation("limit:max_child_subintents_per_intent", format!("{n} children with a limit of 3: prepares = {ok}"), json!({"children": n}));
                } else {
                    l.class(if ok { "limit:at-limit-prepares" } else { "limit:over-limit-rejected" });
                }
            }
        }
        // ledger payload length: wrap a padded user transaction
        for n in [settings.max_ledger_payload_length, settings.max_ledger_payload_length + 1] {
            let mut found = None;
            for inner in (n.saturating_sub(16)..=n).rev() {
                let mut s = TxSpec::base(false);
                s.pad_payload_to = Some(inner);
                if let Some((BuiltTx::V1(t), _)) = build(&s) {
                    let raw = LedgerTransaction::UserV1(Box::new(t)).to_raw().unwrap().to_vec();
                    if raw.len() == n {
                        found = Some(raw);
                        break;
                    }
                }
            }
            match found {
                Some(raw) => one("max_ledger_payload_length", raw, Kind::Ledger, n <= settings.max_ledger_payload_length, &mut l),
                None => l.info("limit:ledger-payload-length-not-constructible"),
            }
        }
        // V2 payloads when V2 is not permitted
        {
            l.eval();
            limit_cases.set(limit_cases.get() + 1);
            let raw = build(&TxSpec::base(true)).unwrap().1;
            if raw.prepare(&PreparationSettings::babylon()).is_ok() {
                l.violation("limit:v2-prepares-under-babylon-settings", "a V2 payload prepares with v2_transactions_permitted = false", json!({}));
            } else {
                l.class("limit:over-limit-rejected");
            }
        }
        ctx.merge(l);
    }

    let mut cov = Map::new();
    cov.insert("seeds".into(), json!(seeds.iter().map(|s| json!({"name": s.name, "bytes": s.raw.len()})).collect::<Vec<_>>()));
    cov.insert("tree_nodes".into(), json!(tree_nodes));
    cov.insert("tree_perturbations".into(), json!(tree_cases.load(Ordering::Relaxed)));
    cov.insert("byte_offsets".into(), json!(byte_jobs.len()));
    cov.insert("substitution_values_per_offset".into(), json!("all 255"));
    cov.insert("adjacent_double_substitutions".into(), json!(double_payloads.load(Ordering::Relaxed)));
    cov.insert("adjacent_double_substitution_offsets".into(), json!({"completed": double_payloads.load(Ordering::Relaxed) / (255 * 255), "planned": double_jobs.len()}));
    cov.insert("adjacent_double_substitution_seeds".into(), json!(if double { DOUBLE_MUTATION_SEEDS.to_vec() } else { vec![] }));
    cov.insert("derived_payloads".into(), json!(stats.payloads.load(Ordering::Relaxed)));
    cov.insert("derived_payloads_that_prepare".into(), json!(stats.accepted_mutants.load(Ordering::Relaxed)));
    cov.insert("limit_cases".into(), json!(limit_cases.get()));
    ctx.finish(
        Level::Exploration,
        "a case is one payload derived from a seed (structural perturbation of one value-tree node, or one byte-level mutation, or a limit probe) prepared by the real code; non-trivial = derived payloads different from their seed that the real preparation accepts (they are the ones on which the content<=>hash oracle actually bites)",
        stats.accepted_mutants.load(Ordering::Relaxed),
        !double_capped,
        cov,
        &[
            "blake2b is collision free on the explored payloads",
            "the content of a hashed part is named by the canonical encoding of its typed model (typed PartialEq is not used: IndexMap equality ignores order)",
            "a payload that prepares must also decode as the typed model (canonical form); this never fails on the unchanged tree",
            "signed partial transactions have no hash of their own (only subintent hashes); mutations of their signature lists are not covered by any hash, by design of the model",
        ],
    )
}
