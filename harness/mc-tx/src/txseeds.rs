//! Shared by C32 / C33 / C34: fixed keys and a plain-data transaction specification (`TxSpec`) from which real
//! V1 / V2 notarized transactions (and signed partial transactions) are assembled field by field, hashed with the
//! real preparation code and signed with the real (deterministic) signers.
//!
//! Nothing here uses OS randomness: keys are `from_u64(n)`, secp256k1 signing is RFC 6979, ed25519 signing is
//! deterministic by construction; `assert_signing_is_deterministic` re-checks that at run time (exit 2 otherwise).
#![allow(dead_code)]
use radix_common::prelude::*;
use radix_transactions::manifest::*;
use radix_transactions::model::*;
use radix_transactions::prelude::*;
use serde_json::{json, Value};

pub const NETWORK: u8 = 0xf2; // simulator

#[derive(Clone, Copy, Debug, PartialEq, Eq, PartialOrd, Ord, Hash)]
pub enum KeyId {
    Secp(u64),
    Ed(u64),
}

impl KeyId {
    pub fn private(&self) -> PrivateKey {
        match self {
            KeyId::Secp(n) => PrivateKey::Secp256k1(Secp256k1PrivateKey::from_u64(*n).unwrap()),
            KeyId::Ed(n) => PrivateKey::Ed25519(Ed25519PrivateKey::from_u64(*n).unwrap()),
        }
    }
    pub fn public(&self) -> PublicKey {
        self.private().public_key()
    }
    pub fn label(&self) -> String {
        match self {
            KeyId::Secp(n) => format!("secp{n}"),
            KeyId::Ed(n) => format!("ed{n}"),
        }
    }
}

pub fn assert_signing_is_deterministic() {
    let h = hash(b"mc-tx determinism probe");
    for k in [KeyId::Secp(1), KeyId::Secp(2), KeyId::Ed(3)] {
        let a = k.private().sign_with_public_key(&h);
        let b = k.private().sign_with_public_key(&h);
        let c = k.private().sign_without_public_key(&h);
        let d = k.private().sign_without_public_key(&h);
        if a != b || c != d {
            mc_core::machinery_error(&format!("signing with {} is not deterministic; the harness would not own its nondeterminism", k.label()));
        }
    }
}

/// settings that never reject, used only to compute hashes while assembling (the checked validators use their own)
pub fn permissive_settings() -> PreparationSettings {
    PreparationSettings {
        v2_transactions_permitted: true,
        max_user_payload_length: usize::MAX,
        max_ledger_payload_length: usize::MAX,
        max_child_subintents_per_intent: usize::MAX,
        max_subintents_per_transaction: usize::MAX,
        max_blobs: usize::MAX,
    }
}

#[derive(Clone, Debug, PartialEq, Eq)]
pub enum MsgSpec {
    None,
    /// mime type of `mime_len` ASCII chars, content of `len` bytes as String or Bytes
    Plain { mime_len: usize, bytes: bool, len: usize },
    /// encrypted payload of `len` bytes; per curve `Some(k)` = an entry with k decryptors.
    /// `swap_curves`: the entries are filed under the other curve's map key.
    Enc { len: usize, ed: Option<usize>, secp: Option<usize>, swap_curves: bool },
}

#[derive(Clone, Debug)]
pub struct IntentSpec {
    pub network_id: u8,
    pub start: u64,
    pub end: u64,
    pub min_ts: Option<i64>,
    pub max_ts: Option<i64>,
    /// V1: nonce (low 32 bits); V2: intent discriminator
    pub discriminator: u64,
    pub message: MsgSpec,
    /// number of DROP_AUTH_ZONE_PROOFS filler instructions (ignored if `target_instructions` is reachable)
    pub fillers: usize,
    /// if Some(t): fillers are chosen so that the manifest has exactly t instructions (if t >= the other ones)
    pub target_instructions: Option<usize>,
    /// number of CALL_METHOD instructions, each on a distinct static component address (#ref_base + i)
    pub refs: usize,
    pub ref_base: u32,
    pub blobs: usize,
    pub blob_size: usize,
    pub signers: Vec<KeyId>,
    /// V2: indices into `TxSpec::subs`
    pub children: Vec<usize>,
}

impl IntentSpec {
    pub fn base(tag: u32) -> IntentSpec {
        IntentSpec {
            network_id: NETWORK,
            start: 10,
            end: 15,
            min_ts: None,
            max_ts: None,
            discriminator: 1000 + tag as u64,
            message: MsgSpec::None,
            fillers: 1,
            target_instructions: None,
            refs: 0,
            ref_base: tag * 100_000,
            blobs: 0,
            blob_size: 4,
            signers: vec![],
            children: vec![],
        }
    }
    /// instructions other than fillers: one YIELD_TO_CHILD per child, the CALL_METHODs, the final YIELD_TO_PARENT
    pub fn fixed_instructions(&self, is_subintent: bool) -> usize {
        self.children.len() + self.refs + if is_subintent { 1 } else { 0 }
    }
    pub fn filler_count(&self, is_subintent: bool) -> usize {
        match self.target_instructions {
            Some(t) if t >= self.fixed_instructions(is_subintent) => t - self.fixed_instructions(is_subintent),
            _ => self.fillers,
        }
    }
    pub fn instruction_count(&self, is_subintent: bool) -> usize {
        self.fixed_instructions(is_subintent) + self.filler_count(is_subintent)
    }
    pub fn to_json(&self) -> Value {
        json!({
            "network_id": self.network_id, "start": self.start.to_string(), "end": self.end.to_string(),
            "min_ts": self.min_ts, "max_ts": self.max_ts, "discriminator": self.discriminator.to_string(),
            "message": format!("{:?}", self.message), "fillers": self.fillers, "target_instructions": self.target_instructions,
            "refs": self.refs, "blobs": self.blobs, "blob_size": self.blob_size,
            "signers": self.signers.iter().map(|k| k.label()).collect::<Vec<_>>(), "children": self.children,
        })
    }
}

#[derive(Clone, Debug)]
pub struct TxSpec {
    pub v2: bool,
    pub root: IntentSpec,
    pub subs: Vec<IntentSpec>,
    /// V1: tip percentage (low 16 bits); V2: tip basis points
    pub tip: u32,
    pub notary: KeyId,
    pub notary_is_signatory: bool,
    /// if Some(n): one extra blob is added to the root intent, sized so that the raw payload has exactly n bytes
    pub pad_payload_to: Option<usize>,
}

impl TxSpec {
    pub fn base(v2: bool) -> TxSpec {
        TxSpec { v2, root: IntentSpec::base(0), subs: vec![], tip: 0, notary: KeyId::Secp(900), notary_is_signatory: false, pad_payload_to: None }
    }
    pub fn to_json(&self) -> Value {
        json!({
            "version": if self.v2 { 2 } else { 1 }, "tip": self.tip, "notary": self.notary.label(), "notary_is_signatory": self.notary_is_signatory,
            "pad_payload_to": self.pad_payload_to, "root": self.root.to_json(), "subintents": self.subs.iter().map(|s| s.to_json()).collect::<Vec<_>>(),
        })
    }
    /// depth of sub i below the root (1 = child of root); None if not attached
    pub fn depth_of(&self, i: usize) -> Option<usize> {
        if self.root.children.contains(&i) {
            return Some(1);
        }
        for (p, s) in self.subs.iter().enumerate() {
            if p != i && s.children.contains(&i) {
                return self.depth_of(p).map(|d| d + 1);
            }
        }
        None
    }
}

fn component(n: u32) -> ComponentAddress {
    let mut raw = [0u8; NodeId::LENGTH];
    raw[0] = EntityType::GlobalGenericComponent as u8;
    raw[1..5].copy_from_slice(&n.to_be_bytes());
    raw[29] = 0x5a;
    ComponentAddress::new_or_panic(raw)
}

fn message_v1(m: &MsgSpec) -> MessageV1 {
    match m {
        MsgSpec::None => MessageV1::None,
        MsgSpec::Plain { mime_len, bytes, len } => MessageV1::Plaintext(PlaintextMessageV1 {
            mime_type: "m".repeat(*mime_len),
            message: if *bytes { MessageContentsV1::Bytes(vec![0x42; *len]) } else { MessageContentsV1::String("s".repeat(*len)) },
        }),
        MsgSpec::Enc { len, ed, secp, swap_curves } => {
            let mut map = IndexMap::default();
            let decs = |k: usize, salt: u8| -> IndexMap<PublicKeyFingerprint, AesWrapped128BitKey> {
                (0..k).map(|i| (PublicKeyFingerprint([salt, (i >> 8) as u8, i as u8, 0, 0, 0, 0, 1]), AesWrapped128BitKey([i as u8; AesWrapped128BitKey::LENGTH]))).collect()
            };
            if let Some(k) = ed {
                let v = DecryptorsByCurve::Ed25519 { dh_ephemeral_public_key: Ed25519PrivateKey::from_u64(77).unwrap().public_key(), decryptors: decs(*k, 1) };
                map.insert(if *swap_curves { CurveType::Secp256k1 } else { CurveType::Ed25519 }, v);
            }
            if let Some(k) = secp {
                let v = DecryptorsByCurve::Secp256k1 { dh_ephemeral_public_key: Secp256k1PrivateKey::from_u64(78).unwrap().public_key(), decryptors: decs(*k, 2) };
                map.insert(if *swap_curves { CurveType::Ed25519 } else { CurveType::Secp256k1 }, v);
            }
            MessageV1::Encrypted(EncryptedMessageV1 { encrypted: AesGcmPayload(vec![0x37; *len]), decryptors_by_curve: map })
        }
    }
}

fn message_v2(m: &MsgSpec) -> MessageV2 {
    match m {
        MsgSpec::None => MessageV2::None,
        MsgSpec::Plain { .. } => match message_v1(m) {
            MessageV1::Plaintext(p) => MessageV2::Plaintext(p),
            _ => unreachable!(),
        },
        MsgSpec::Enc { len, ed, secp, swap_curves } => {
            let mut map = IndexMap::default();
            let decs = |k: usize, salt: u8| -> IndexMap<PublicKeyFingerprint, AesWrapped256BitKey> {
                (0..k).map(|i| (PublicKeyFingerprint([salt, (i >> 8) as u8, i as u8, 0, 0, 0, 0, 2]), AesWrapped256BitKey([i as u8; AesWrapped256BitKey::LENGTH]))).collect()
            };
            if let Some(k) = ed {
                let v = DecryptorsByCurveV2::Ed25519 { dh_ephemeral_public_key: Ed25519PrivateKey::from_u64(77).unwrap().public_key(), decryptors: decs(*k, 1) };
                map.insert(if *swap_curves { CurveType::Secp256k1 } else { CurveType::Ed25519 }, v);
            }
            if let Some(k) = secp {
                let v = DecryptorsByCurveV2::Secp256k1 { dh_ephemeral_public_key: Secp256k1PrivateKey::from_u64(78).unwrap().public_key(), decryptors: decs(*k, 2) };
                map.insert(if *swap_curves { CurveType::Ed25519 } else { CurveType::Secp256k1 }, v);
            }
            MessageV2::Encrypted(EncryptedMessageV2 { encrypted: AesGcmPayload(vec![0x37; *len]), decryptors_by_curve: map })
        }
    }
}

fn blobs_of(s: &IntentSpec, extra: Option<usize>) -> BlobsV1 {
    let mut blobs: Vec<BlobV1> = (0..s.blobs)
        .map(|i| {
            let mut content = vec![0u8; s.blob_size.max(4)];
            content[0] = (s.ref_base / 100_000) as u8;
            content[1] = 0xb1;
            content[2] = (i >> 8) as u8;
            content[3] = i as u8;
            BlobV1(content)
        })
        .collect();
    if let Some(n) = extra {
        let mut content = vec![0xEEu8; n];
        if n > 0 {
            content[0] = 0xfd;
        }
        blobs.push(BlobV1(content));
    }
    BlobsV1 { blobs }
}

pub fn intent_header_v2(s: &IntentSpec) -> IntentHeaderV2 {
    IntentHeaderV2 {
        network_id: s.network_id,
        start_epoch_inclusive: Epoch::of(s.start),
        end_epoch_exclusive: Epoch::of(s.end),
        min_proposer_timestamp_inclusive: s.min_ts.map(Instant::new),
        max_proposer_timestamp_exclusive: s.max_ts.map(Instant::new),
        intent_discriminator: s.discriminator,
    }
}

fn sign_all(signers: &[KeyId], h: &Hash) -> Vec<IntentSignatureV1> {
    signers.iter().map(|k| IntentSignatureV1(k.private().sign_with_public_key(h))).collect()
}

// ------------------------------------------------------------------------------------------------
// V1
// ------------------------------------------------------------------------------------------------

pub fn build_intent_v1(spec: &TxSpec, extra_blob: Option<usize>) -> IntentV1 {
    let s = &spec.root;
    let mut b = ManifestBuilder::new();
    for i in 0..s.refs {
        b = b.call_method(component(s.ref_base + i as u32), "m", ());
    }
    for _ in 0..s.filler_count(false) {
        b = b.drop_auth_zone_proofs();
    }
    let manifest = b.build();
    IntentV1 {
        header: TransactionHeaderV1 {
            network_id: s.network_id,
            start_epoch_inclusive: Epoch::of(s.start),
            end_epoch_exclusive: Epoch::of(s.end),
            nonce: s.discriminator as u32,
            notary_public_key: spec.notary.public(),
            notary_is_signatory: spec.notary_is_signatory,
            tip_percentage: spec.tip as u16,
        },
        instructions: InstructionsV1(manifest.instructions),
        blobs: blobs_of(s, extra_blob),
        message: message_v1(&s.message),
    }
}

pub fn sign_and_notarize_v1(spec: &TxSpec, intent: IntentV1) -> NotarizedTransactionV1 {
    let settings = permissive_settings();
    let intent_hash = intent.prepare(&settings).expect("intent v1 prepares").transaction_intent_hash();
    let signed_intent = SignedIntentV1 { intent, intent_signatures: IntentSignaturesV1 { signatures: sign_all(&spec.root.signers, intent_hash.as_hash()) } };
    let signed_hash = signed_intent.prepare(&settings).expect("signed intent v1 prepares").signed_transaction_intent_hash();
    NotarizedTransactionV1 { signed_intent, notary_signature: NotarySignatureV1(spec.notary.private().sign_without_public_key(signed_hash.as_hash())) }
}

// ------------------------------------------------------------------------------------------------
// V2
// ------------------------------------------------------------------------------------------------

fn intent_core_v2(s: &IntentSpec, is_subintent: bool, child_hashes: &[SubintentHash], extra_blob: Option<usize>) -> IntentCoreV2 {
    // instructions are assembled directly (a USE_CHILD is not an instruction, the children live in their own field)
    let mut instructions: Vec<InstructionV2> = vec![];
    for i in 0..child_hashes.len() {
        instructions.push(InstructionV2::YieldToChild(YieldToChild { child_index: ManifestNamedIntentIndex(i as u32), args: ManifestValue::Tuple { fields: vec![] } }));
    }
    if s.refs > 0 {
        let mut b = ManifestBuilder::new_v2();
        for i in 0..s.refs {
            b = b.call_method(component(s.ref_base + i as u32), "m", ());
        }
        instructions.extend(b.build().instructions);
    }
    for _ in 0..s.filler_count(is_subintent) {
        instructions.push(InstructionV2::DropAuthZoneProofs(DropAuthZoneProofs));
    }
    if is_subintent {
        instructions.push(InstructionV2::YieldToParent(YieldToParent { args: ManifestValue::Tuple { fields: vec![] } }));
    }
    IntentCoreV2 {
        header: intent_header_v2(s),
        blobs: blobs_of(s, extra_blob),
        message: message_v2(&s.message),
        children: ChildSubintentSpecifiersV2 { children: child_hashes.iter().map(|h| ChildSubintentSpecifier { hash: *h }).collect() },
        instructions: InstructionsV2(instructions),
    }
}

/// subintents in list order + their hashes (children must have a larger index than their parent or be
/// otherwise acyclic; built bottom-up with memoisation)
pub fn build_subintents_v2(spec: &TxSpec) -> (Vec<SubintentV2>, Vec<SubintentHash>) {
    let n = spec.subs.len();
    let mut done: Vec<Option<(SubintentV2, SubintentHash)>> = vec![None; n];
    fn go(spec: &TxSpec, i: usize, done: &mut Vec<Option<(SubintentV2, SubintentHash)>>, guard: usize) {
        if done[i].is_some() {
            return;
        }
        assert!(guard <= spec.subs.len(), "cyclic TxSpec");
        let mut hashes = vec![];
        for c in &spec.subs[i].children {
            go(spec, *c, done, guard + 1);
            hashes.push(done[*c].as_ref().unwrap().1);
        }
        let sub = SubintentV2 { intent_core: intent_core_v2(&spec.subs[i], true, &hashes, None) };
        let h = sub.prepare(&permissive_settings()).expect("subintent prepares").subintent_hash();
        done[i] = Some((sub, h));
    }
    for i in 0..n {
        go(spec, i, &mut done, 0);
    }
    let (a, b): (Vec<_>, Vec<_>) = done.into_iter().map(|x| x.unwrap()).unzip();
    (a, b)
}

pub fn build_transaction_intent_v2(spec: &TxSpec, extra_blob: Option<usize>) -> (TransactionIntentV2, Vec<SubintentHash>) {
    let (subs, hashes) = build_subintents_v2(spec);
    let child_hashes: Vec<SubintentHash> = spec.root.children.iter().map(|c| hashes[*c]).collect();
    (
        TransactionIntentV2 {
            transaction_header: TransactionHeaderV2 { notary_public_key: spec.notary.public(), notary_is_signatory: spec.notary_is_signatory, tip_basis_points: spec.tip },
            root_intent_core: intent_core_v2(&spec.root, false, &child_hashes, extra_blob),
            non_root_subintents: NonRootSubintentsV2(subs),
        },
        hashes,
    )
}

pub fn sign_and_notarize_v2(spec: &TxSpec, intent: TransactionIntentV2, sub_hashes: &[SubintentHash]) -> NotarizedTransactionV2 {
    let settings = permissive_settings();
    let intent_hash = intent.prepare(&settings).expect("transaction intent v2 prepares").transaction_intent_hash();
    let signed = SignedTransactionIntentV2 {
        transaction_intent: intent,
        transaction_intent_signatures: IntentSignaturesV2 { signatures: sign_all(&spec.root.signers, intent_hash.as_hash()) },
        non_root_subintent_signatures: NonRootSubintentSignaturesV2 {
            by_subintent: spec.subs.iter().zip(sub_hashes).map(|(s, h)| IntentSignaturesV2 { signatures: sign_all(&s.signers, h.as_hash()) }).collect(),
        },
    };
    let signed_hash = signed.prepare(&settings).expect("signed transaction intent v2 prepares").signed_transaction_intent_hash();
    NotarizedTransactionV2 { signed_transaction_intent: signed, notary_signature: NotarySignatureV2(spec.notary.private().sign_without_public_key(signed_hash.as_hash())) }
}

/// A signed partial transaction whose root subintent is `spec.root` (tip / notary fields of the spec are unused).
pub fn build_signed_partial_v2(spec: &TxSpec) -> SignedPartialTransactionV2 {
    let (subs, hashes) = build_subintents_v2(spec);
    let child_hashes: Vec<SubintentHash> = spec.root.children.iter().map(|c| hashes[*c]).collect();
    let root = SubintentV2 { intent_core: intent_core_v2(&spec.root, true, &child_hashes, None) };
    let root_hash = root.prepare(&permissive_settings()).expect("root subintent prepares").subintent_hash();
    SignedPartialTransactionV2 {
        partial_transaction: PartialTransactionV2 { root_subintent: root, non_root_subintents: NonRootSubintentsV2(subs) },
        root_subintent_signatures: IntentSignaturesV2 { signatures: sign_all(&spec.root.signers, root_hash.as_hash()) },
        non_root_subintent_signatures: NonRootSubintentSignaturesV2 {
            by_subintent: spec.subs.iter().zip(&hashes).map(|(s, h)| IntentSignaturesV2 { signatures: sign_all(&s.signers, h.as_hash()) }).collect(),
        },
    }
}

// ------------------------------------------------------------------------------------------------
// spec -> raw payload
// ------------------------------------------------------------------------------------------------

pub enum BuiltTx {
    V1(NotarizedTransactionV1),
    V2(NotarizedTransactionV2),
}

impl BuiltTx {
    pub fn to_raw(&self) -> RawNotarizedTransaction {
        match self {
            BuiltTx::V1(t) => t.to_raw().expect("encodes"),
            BuiltTx::V2(t) => t.to_raw().expect("encodes"),
        }
    }
}

fn build_with_extra(spec: &TxSpec, extra_blob: Option<usize>) -> BuiltTx {
    if spec.v2 {
        let (intent, hashes) = build_transaction_intent_v2(spec, extra_blob);
        BuiltTx::V2(sign_and_notarize_v2(spec, intent, &hashes))
    } else {
        BuiltTx::V1(sign_and_notarize_v1(spec, build_intent_v1(spec, extra_blob)))
    }
}

/// Build the real transaction. With `pad_payload_to`, an extra root blob is sized so the payload length is exact
/// (None is returned if the target is smaller than the unpadded payload + an empty blob).
pub fn build(spec: &TxSpec) -> Option<(BuiltTx, RawNotarizedTransaction)> {
    match spec.pad_payload_to {
        None => {
            let t = build_with_extra(spec, None);
            let raw = t.to_raw();
            Some((t, raw))
        }
        Some(target) => {
            // only the intent is needed for the length (signatures have fixed sizes), but building fully is simple
            let len0 = build_with_extra(spec, Some(0)).to_raw().len();
            if target < len0 {
                return None;
            }
            let mut size = target - len0;
            // the blob's SBOR length prefix grows with its size: converge in a few steps
            for _ in 0..6 {
                let t = build_with_extra(spec, Some(size));
                let raw = t.to_raw();
                if raw.len() == target {
                    return Some((t, raw));
                }
                if raw.len() > target {
                    let over = raw.len() - target;
                    if over > size {
                        return None;
                    }
                    size -= over;
                } else {
                    size += target - raw.len();
                }
            }
            None
        }
    }
}
