//! C30 — decompiled manifests compile back to the same manifest.
//!
//! Statement: for every transaction, subintent or system manifest, compiling the text produced by the decompiler
//! yields a manifest identical to the original: same instructions, argument values, blobs, address reservations,
//! named objects and child subintents.
//!
//! Domain (DESIGN O7): manifests that (i) survive manifest_encode/manifest_decode unchanged and (ii) pass the real
//! `StaticManifestInterpreter` with `ValidationRuleset::all()`. Everything outside is counted as `excluded:*`.
//!
//! Bounded-exhaustive enumeration, for each of the 4 kinds (V1, SystemV1, V2, SubintentV2):
//!  (a) every instruction block (one per instruction variant / alias form / address form; a block creates what it
//!      consumes and disposes of what it creates) singly and every ordered pair of blocks, under object-name modes
//!      {unknown, all named, partially named}; SystemV1 additionally under 3 preallocated-address headers;
//!      thorough: also every ordered triple of blocks (all objects named);
//!  (b) every value tree of the stratified space D1 ∪ D2 ∪ D3 as the argument of the generic-argument
//!      instructions. D1 = every leaf of the manifest leaf alphabet (all ints at min/-1/0/1/max, 26 strings incl.
//!      quotes, backslash, CR, LF, TAB, NUL, DEL, non-ASCII, U+2028, BOM, `${x}`, combining and bidi characters,
//!      non-characters; static addresses of 10 entity kinds, named address, bucket, proof, reservation, expressions,
//!      provided blobs, decimals / precise decimals at extremes, every local-id type at min/max length);
//!      D2 = every container form over D1 with width <= 2 (tuples, enums with discriminators 0/1/255, arrays of
//!      every element kind incl. empty ones, maps of every (key kind, value kind) incl. empty ones, duplicate keys;
//!      pairs are taken over one representative per kind (quick) / over *all* leaves (thorough: every ordered pair of
//!      leaves as tuple, enum-1 fields and map entry));
//!      D3 = every container form over 15 representative depth-2 values with width <= 2 (+ depth-4 spot checks in
//!      the thorough tier). Instruction forms: CALL_METHOD on all of it; CALL_FUNCTION, the four module calls,
//!      CALL_DIRECT_VAULT_METHOD, YIELD_TO_PARENT, YIELD_TO_CHILD and three alias forms on all of it (thorough) or
//!      on D1 + every 5th tree (quick);
//!  (c) object names that need escaping inside a string literal (reported under their own key);
//!  (d) invocation arguments that are not a tuple (the decompiler documents an error; informational only).
//!
//! Oracle: `compile_any_manifest(decompile_any(m), same kind, same network, same blobs) == m` with the object names
//! replaced by "known name or the decompiler's default name" for every object (manifest_naming.rs), compared as
//! whole `AnyManifest`s (instructions, blobs, children, preallocated addresses, names); additionally
//! `decompile(compiled) == decompile(m)` (idempotent text). A panic of decompile/compile inside the domain is a
//! violation.
use crate::mgen::*;
use crate::minrec::MinRec;
use crate::with_any;
use mc_core::{par_range, Ctx, Level, Local};
use radix_common::prelude::*;
use radix_engine_interface::blueprints::access_controller::*;
use radix_engine_interface::blueprints::account::*;
use radix_engine_interface::blueprints::consensus_manager::*;
use radix_engine_interface::blueprints::identity::*;
use radix_engine_interface::blueprints::package::*;
use radix_engine_interface::blueprints::resource::*;
use radix_engine_interface::object_modules::metadata::*;
use radix_engine_interface::object_modules::role_assignment::*;
use radix_engine_interface::object_modules::royalty::*;
use radix_transactions::manifest::*;
use radix_transactions::prelude::*;
use serde_json::{json, Map};
use std::collections::HashSet;
use std::sync::Mutex;

static MIN: MinRec = MinRec::new();
const SHARDS: usize = 64;

struct Seen {
    shards: Vec<Mutex<HashSet<u128>>>,
}
impl Seen {
    fn new() -> Seen {
        Seen { shards: (0..SHARDS).map(|_| Mutex::new(HashSet::new())).collect() }
    }
    fn insert(&self, bytes: &[u8]) -> bool {
        let fp = mc_core::fp128(bytes);
        let v = u128::from_le_bytes(fp.try_into().unwrap());
        self.shards[(v as usize) % SHARDS].lock().unwrap().insert(v)
    }
    fn len(&self) -> u64 {
        self.shards.iter().map(|s| s.lock().unwrap().len() as u64).sum()
    }
}

fn variant_name<T: core::fmt::Debug>(e: &T) -> String {
    let s = format!("{e:?}");
    s.split(|c: char| !(c.is_ascii_alphanumeric() || c == '_')).next().unwrap_or("?").to_string()
}

fn instruction_idents(m: &AnyManifest) -> Vec<String> {
    with_any!(m, x => x.get_typed_instructions().iter().map(|i| variant_name(i)).collect())
}

fn set_names(m: &mut AnyManifest, n: ManifestObjectNames) {
    match m {
        AnyManifest::V1(x) => x.object_names = n,
        AnyManifest::SystemV1(x) => x.object_names = n,
        AnyManifest::V2(x) => x.object_names = n,
        AnyManifest::SubintentV2(x) => x.object_names = n,
    }
}

fn blobs_of(m: &AnyManifest) -> IndexMap<Hash, Vec<u8>> {
    match m {
        AnyManifest::V1(x) => x.blobs.clone(),
        AnyManifest::SystemV1(x) => x.blobs.clone(),
        AnyManifest::V2(x) => x.blobs.clone(),
        AnyManifest::SubintentV2(x) => x.blobs.clone(),
    }
}

fn kind_of_any(m: &AnyManifest) -> Kind {
    match m {
        AnyManifest::V1(_) => Kind::V1,
        AnyManifest::SystemV1(_) => Kind::SystemV1,
        AnyManifest::V2(_) => Kind::V2,
        AnyManifest::SubintentV2(_) => Kind::SubintentV2,
    }
}

/// Object counts as the decompiler / compiler number them, recomputed from the manifest itself (instruction
/// effects), independent of the generator's bookkeeping.
fn object_counts(m: &AnyManifest) -> (u32, u32, u32, u32, u32) {
    let (mut nb, mut np, mut nr, mut na) = (0u32, 0u32, 0u32, 0u32);
    let (prealloc, children) = match m {
        AnyManifest::V1(_) => (0, 0),
        AnyManifest::SystemV1(x) => (x.preallocated_addresses.len() as u32, 0),
        AnyManifest::V2(x) => (0, x.children.len() as u32),
        AnyManifest::SubintentV2(x) => (0, x.children.len() as u32),
    };
    nr += prealloc;
    with_any!(m, x => {
        for e in x.iter_instruction_effects() {
            match e {
                ManifestInstructionEffect::CreateBucket { .. } => nb += 1,
                ManifestInstructionEffect::CreateProof { .. } | ManifestInstructionEffect::CloneProof { .. } => np += 1,
                ManifestInstructionEffect::CreateAddressAndReservation { .. } => {
                    nr += 1;
                    na += 1;
                }
                _ => {}
            }
        }
    });
    (nb, np, nr, na, children)
}


/// Path (field indexes) of the first difference between two instructions, seen as manifest SBOR value trees.
fn first_difference_path(a: &InstructionV2, b: &InstructionV2) -> String {
    fn as_value(i: &InstructionV2) -> Option<MV> {
        manifest_decode::<MV>(&manifest_encode(i).ok()?).ok()
    }
    fn walk(a: &MV, b: &MV, path: &mut Vec<String>) -> bool {
        match (a, b) {
            (MV::Tuple { fields: x }, MV::Tuple { fields: y }) | (MV::Enum { fields: x, .. }, MV::Enum { fields: y, .. }) | (MV::Array { elements: x, .. }, MV::Array { elements: y, .. }) => {
                if let (MV::Enum { discriminator: d1, .. }, MV::Enum { discriminator: d2, .. }) = (a, b) {
                    if d1 != d2 {
                        path.push("discriminator".into());
                        return true;
                    }
                }
                if x.len() != y.len() {
                    path.push("len".into());
                    return true;
                }
                for i in 0..x.len() {
                    path.push(i.to_string());
                    if walk(&x[i], &y[i], path) {
                        return true;
                    }
                    path.pop();
                }
                a != b
            }
            _ => a != b,
        }
    }
    match (as_value(a), as_value(b)) {
        (Some(x), Some(y)) => {
            let mut p = vec![];
            walk(&x, &y, &mut p);
            // the generic-argument payload position is an instance detail: keep only the first two levels
            p.truncate(2);
            p.join(".")
        }
        _ => "?".into(),
    }
}

#[derive(PartialEq, Eq, Debug, Clone, Copy)]
enum Outcome {
    Excluded,
    Ok,
    Violation,
    Info,
}

/// The whole oracle for one manifest.
fn check_manifest(any: &AnyManifest, label: &str, key_suffix: &str, l: &mut Local, seen: &Seen, net: &NetworkDefinition) -> Outcome {
    l.eval();
    let kind = kind_of_any(any);
    // ---- domain (i): survives manifest SBOR unchanged
    let enc = match manifest_encode(any) {
        Ok(e) => e,
        Err(e) => {
            l.class(&format!("excluded:not-encodable:{}", variant_name(&e)));
            return Outcome::Excluded;
        }
    };
    match manifest_decode::<AnyManifest>(&enc) {
        Ok(d) if &d == any => {}
        Ok(_) => {
            l.class("excluded:changed-by-sbor-roundtrip");
            return Outcome::Excluded;
        }
        Err(e) => {
            l.class(&format!("excluded:not-decodable:{}", variant_name(&e)));
            return Outcome::Excluded;
        }
    }
    // ---- domain (ii): passes the static validator
    if let Err(e) = validate_any(any, ValidationRuleset::all()) {
        l.class(&format!("excluded:static-validation:{}", variant_name(&e)));
        return Outcome::Excluded;
    }
    let fresh = seen.insert(&enc);
    let case = |text: Option<&str>| json!({"kind": kind.name(), "label": label, "manifest_hex": mc_core::hex(&enc), "decompiled": text});
    let size = enc.len();
    // ---- decompile
    let text = match mc_core::catch(|| decompile_any(any, net)) {
        Err(p) => {
            MIN.record(l, format!("decompile-panic:{}{key_suffix}", short_loc()), format!("decompile panicked on a valid manifest: {p}"), size, label, case(None));
            return Outcome::Violation;
        }
        Ok(Err(e)) => {
            l.info(&format!("decompile-returned-error:{}", variant_name(&e)));
            l.class("decompile-error(informational)");
            return Outcome::Info;
        }
        Ok(Ok(t)) => t,
    };
    // ---- compile back
    let provider = BlobProvider::new_with_prehashed_blobs(blobs_of(any));
    let compiled = match mc_core::catch(|| compile_any_manifest(&text, kind.manifest_kind(), net, provider)) {
        Err(p) => {
            MIN.record(l, format!("recompile-panic:{}{key_suffix}", short_loc()), format!("compile panicked on decompiler output: {p}"), size, label, case(Some(&text)));
            return Outcome::Violation;
        }
        Ok(Err(e)) => {
            let (stage, kindname) = match &e {
                CompileError::LexerError(x) => ("lexer", variant_name(&x.error_kind)),
                CompileError::ParserError(x) => ("parser", variant_name(&x.error_kind)),
                CompileError::GeneratorError(x) => ("generator", variant_name(&x.error_kind)),
            };
            MIN.record(l, format!("recompile-error:{stage}:{kindname}{key_suffix}"), format!("decompiler output does not compile: {e:?}"), size, label, case(Some(&text)));
            return Outcome::Violation;
        }
        Ok(Ok(m)) => m,
    };
    // ---- compare
    let counts = object_counts(any);
    let mut expected = any.clone();
    set_names(&mut expected, ManifestObjectNames::Known(expected_names_after_roundtrip(counts, object_names_of(any))));
    if compiled != expected {
        // classify
        let mut c2 = compiled.clone();
        set_names(&mut c2, object_names_of(&expected).clone());
        let what_differs = if c2 == expected {
            "names".to_string()
        } else {
            let a = with_any!(&compiled, x => x.iter_cloned_instructions().collect::<Vec<_>>());
            let b = with_any!(&expected, x => x.iter_cloned_instructions().collect::<Vec<_>>());
            let idents = instruction_idents(&expected);
            if a.len() != b.len() {
                "instruction-count".to_string()
            } else if let Some(i) = (0..a.len()).find(|i| a[*i] != b[*i]) {
                format!("instruction:{}:field-path={}", idents[i], first_difference_path(&a[i], &b[i]))
            } else {
                "blobs-children-or-preallocation".to_string()
            }
        };
        MIN.record(
            l,
            format!("mismatch:{what_differs}{key_suffix}"),
            format!("compile(decompile(m)) != m ({what_differs}); expected {:?} got {:?}", expected, compiled),
            size,
            label,
            case(Some(&text)),
        );
        return Outcome::Violation;
    }
    // ---- idempotent text
    match mc_core::catch(|| decompile_any(&compiled, net)) {
        Ok(Ok(t2)) if t2 == text => {}
        other => {
            MIN.record(l, format!("text-not-idempotent{key_suffix}"), format!("decompile(compile(decompile(m))) differs from decompile(m): {:?}", other), size, label, case(Some(&text)));
            return Outcome::Violation;
        }
    }
    if fresh {
        l.class(&format!("roundtrip-ok:{}", kind.name()));
    } else {
        l.class("roundtrip-ok(duplicate-manifest)");
    }
    Outcome::Ok
}

fn short_loc() -> String {
    let loc = mc_core::last_panic_location();
    loc.rsplit('/').next().unwrap_or(&loc).to_string()
}

fn check_parts(mut parts: Parts, names_mode: u8, label: &str, key_suffix: &str, l: &mut Local, seen: &Seen, net: &NetworkDefinition) -> Outcome {
    let Some(mut any) = assemble(&parts) else {
        l.eval();
        l.class("excluded:kind-cannot-express");
        return Outcome::Excluded;
    };
    if names_mode != 0 {
        parts.names = names_for(object_counts(&any), names_mode);
        set_names(&mut any, parts.names.clone());
    }
    check_manifest(&any, label, key_suffix, l, seen, net)
}

// ---------------------------------------------------------------------------------------------------------------
// invocation forms for space (b)
// ---------------------------------------------------------------------------------------------------------------

const N_FORMS: usize = 12;
const FORM_NAMES: [&str; N_FORMS] = [
    "CALL_METHOD",
    "CALL_FUNCTION",
    "CALL_ROYALTY_METHOD",
    "SET_METADATA(alias)",
    "CALL_ROLE_ASSIGNMENT_METHOD",
    "RECALL_FROM_VAULT(alias)",
    "YIELD_TO_PARENT",
    "YIELD_TO_CHILD",
    "MINT_FUNGIBLE(alias)",
    "CREATE_ACCOUNT_ADVANCED(alias)",
    "CALL_METHOD(two args)",
    "CALL_METHOD(named address)",
];

fn apply_form(form: usize, b: &mut B, v: &VT) {
    let args = |b: &mut B| MV::Tuple { fields: vec![v.materialize(b)] };
    match form {
        0 => {
            let a = args(b);
            b.call_method(FAUCET, "m", a)
        }
        1 => {
            let a = args(b);
            b.call_function(FAUCET_PACKAGE, "Bp", "f", a)
        }
        2 => {
            let a = args(b);
            b.push(CallRoyaltyMethod { address: FAUCET.into(), method_name: "m".into(), args: a })
        }
        3 => {
            let a = args(b);
            b.push(CallMetadataMethod { address: FAUCET.into(), method_name: METADATA_SET_IDENT.into(), args: a })
        }
        4 => {
            let a = args(b);
            b.push(CallRoleAssignmentMethod { address: FAUCET.into(), method_name: "m".into(), args: a })
        }
        5 => {
            let a = args(b);
            b.push(CallDirectVaultMethod { address: some_vault(), method_name: VAULT_RECALL_IDENT.into(), args: a })
        }
        6 => {
            let a = args(b);
            b.push(YieldToParent { args: a })
        }
        7 => {
            let c = b.child(0);
            let a = args(b);
            b.push(YieldToChild { child_index: c, args: a })
        }
        8 => {
            let a = args(b);
            b.call_method(XRD, FUNGIBLE_RESOURCE_MANAGER_MINT_IDENT, a)
        }
        9 => {
            let a = args(b);
            b.call_function(ACCOUNT_PACKAGE, ACCOUNT_BLUEPRINT, ACCOUNT_CREATE_ADVANCED_IDENT, a)
        }
        10 => {
            let a1 = v.materialize(b);
            let a2 = v.materialize(b);
            b.call_method(FAUCET, "m", MV::Tuple { fields: vec![a1, MV::String { value: "sep".into() }, a2] })
        }
        _ => {
            let (_, addr) = b.allocate(FAUCET_PACKAGE, "Faucet");
            let a = args(b);
            b.call_method(ManifestGlobalAddress::Named(addr), "m", a)
        }
    }
}

// ---------------------------------------------------------------------------------------------------------------

pub fn run(ctx: Ctx) -> ! {
    let net = NetworkDefinition::simulator();
    let seen = Seen::new();
    if let Some(case) = ctx.read_replay_case() {
        let mut l = Local::new();
        let hexs = case.get("manifest_hex").and_then(|x| x.as_str()).unwrap_or("");
        match manifest_decode::<AnyManifest>(&mc_core::unhex(hexs)) {
            Ok(any) => {
                println!("replaying manifest: {:#?}", any);
                match decompile_any(&any, &net) {
                    Ok(t) => println!("decompiled text:\n{t}"),
                    Err(e) => println!("decompile error: {e:?}"),
                }
                let o = check_manifest(&any, "replay", "", &mut l, &seen, &net);
                println!("outcome: {o:?}");
            }
            Err(e) => mc_core::machinery_error(&format!("replay manifest does not decode: {e:?}")),
        }
        ctx.merge(l);
        MIN.flush(&ctx);
        ctx.finish(Level::Exploration, "replay", 0, false, Map::new(), &[]);
    }
    let thorough = !ctx.quick();
    let mut cov = Map::new();

    // ---------------- (a) blocks singly and in ordered pairs
    let blocks = blocks();
    let prealloc = preallocation_variants();
    let nblocks = blocks.len() as u64;
    let name_modes: &[u8] = &[0, 1, 2];
    let n_a = nblocks + nblocks * nblocks;
    par_range(&ctx, n_a, 64, |i, l| {
        let (first, second) = if i < nblocks { (i as usize, None) } else { (((i - nblocks) / nblocks) as usize, Some(((i - nblocks) % nblocks) as usize)) };
        for kind in KINDS {
            let pre_variants = if kind == Kind::SystemV1 { prealloc.len() } else { 1 };
            for pv in 0..pre_variants {
                let mut b = B::new(kind);
                for (pkg, bp, addr) in &prealloc[pv] {
                    b.preallocate(*pkg, bp, *addr);
                }
                (blocks[first].apply)(&mut b);
                if let Some(s) = second {
                    (blocks[s].apply)(&mut b);
                }
                let parts = b.finish();
                let label = match second {
                    None => format!("a:{}|prealloc#{pv}", blocks[first].name),
                    Some(s) => format!("a:{} ; {}|prealloc#{pv}", blocks[first].name, blocks[s].name),
                };
                for &nm in name_modes {
                    let o = check_parts(parts.clone(), nm, &format!("{label}|names#{nm}"), "", l, &seen, &net);
                    if o == Outcome::Excluded {
                        break; // exclusion does not depend on names
                    }
                    if i % 997 == 3 && nm == 1 && kind == Kind::V2 {
                        l.sample(|| json!({"space": "a", "label": label, "kind": kind.name()}));
                    }
                }
            }
        }
    });
    let mut n_triples = 0u64;
    if thorough {
        // every ordered triple of blocks (all objects named), V2 kinds and V1
        n_triples = nblocks * nblocks * nblocks;
        par_range(&ctx, n_triples, 256, |i, l| {
            let (x, y, z) = ((i / (nblocks * nblocks)) as usize, ((i / nblocks) % nblocks) as usize, (i % nblocks) as usize);
            for kind in KINDS {
                let mut b = B::new(kind);
                (blocks[x].apply)(&mut b);
                (blocks[y].apply)(&mut b);
                (blocks[z].apply)(&mut b);
                let parts = b.finish();
                if i % 50_021 == 7 {
                    let label = format!("a3:{} ; {} ; {}|names#1", blocks[x].name, blocks[y].name, blocks[z].name);
                    check_parts(parts, 1, &label, "", l, &seen, &net);
                } else {
                    check_parts(parts, 1, "a3:(block triple; see manifest_hex)", "", l, &seen, &net);
                }
            }
        });
        eprintln!("[C30] (a3) done at {:.1}s", ctx.elapsed_s());
    }
    cov.insert("a3_block_triples".into(), json!({"ordered_triples": n_triples, "name_mode": "all named"}));
    cov.insert("a_blocks".into(), json!({"blocks": nblocks, "singles_plus_ordered_pairs": n_a, "kinds": 4, "name_modes": name_modes.len(), "system_preallocation_headers": prealloc.len()}));
    eprintln!("[C30] (a) done at {:.1}s", ctx.elapsed_s());

    // ---------------- (b) value trees through the generic-argument instructions
    let space = value_trees(thorough);
    let (n1, n2, n3) = (space.d1.len(), space.d2.len(), space.d3.len());
    let all: Vec<&VT> = space.d1.iter().chain(space.d2.iter()).chain(space.d3.iter()).collect();
    let n_b = all.len() as u64;
    par_range(&ctx, n_b, 16, |i, l| {
        let v = all[i as usize];
        for form in 0..N_FORMS {
            let in_reduced = (i as usize) < n1 || i % 5 == 0;
            if form != 0 && !thorough && !in_reduced {
                continue;
            }
            for kind in KINDS {
                let mut b = B::new(kind);
                apply_form(form, &mut b, v);
                let parts = b.finish();
                let label = format!("b:{}({:?})", FORM_NAMES[form], v);
                let label = mc_core::truncate(&label, 300);
                let modes: &[u8] = if thorough || (i as usize) < n1 { &[0, 1] } else { &[(i % 2) as u8] };
                for &nm in modes {
                    let o = check_parts(parts.clone(), nm, &label, "", l, &seen, &net);
                    if o == Outcome::Excluded {
                        break;
                    }
                }
                if i % 1013 == 5 && form == 0 && kind == Kind::V1 {
                    l.sample(|| json!({"space": "b", "label": label}));
                }
            }
        }
    });
    cov.insert("b_value_trees".into(), json!({"depth1_leaves": n1, "depth2": n2, "depth3_plus": n3, "forms": FORM_NAMES, "forms_on_full_set": if thorough { N_FORMS } else { 1 }}));
    eprintln!("[C30] (b) done at {:.1}s", ctx.elapsed_s());

    // ---------------- (c) object names that need escaping
    par_range(&ctx, nblocks, 8, |i, l| {
        for kind in KINDS {
            let mut b = B::new(kind);
            if kind == Kind::SystemV1 {
                for (pkg, bp, addr) in &prealloc[1] {
                    b.preallocate(*pkg, bp, *addr);
                }
            }
            (blocks[i as usize].apply)(&mut b);
            let parts = b.finish();
            let Some(any) = assemble(&parts) else { continue };
            let c = object_counts(&any);
            if c == (0, 0, 0, 0, 0) {
                continue;
            }
            check_parts(parts, 3, &format!("c:{}|names#3", blocks[i as usize].name), ":names-needing-escapes", l, &seen, &net);
        }
    });
    eprintln!("[C30] (c) done at {:.1}s", ctx.elapsed_s());

    // ---------------- (d) non-tuple invocation arguments (informational)
    {
        let mut l = Local::new();
        for kind in KINDS {
            for args in [MV::U8 { value: 1 }, MV::String { value: "x".into() }, MV::Array { element_value_kind: MVK::U8, elements: vec![] }, MV::Enum { discriminator: 0, fields: vec![] }] {
                let mut b = B::new(kind);
                b.call_method(FAUCET, "m", args);
                let parts = b.finish();
                check_parts(parts, 0, "d:non-tuple-args", ":non-tuple-args", &mut l, &seen, &net);
            }
        }
        ctx.merge(l);
    }

    MIN.flush(&ctx);
    let nontrivial = seen.len();
    ctx.finish(
        Level::Exploration,
        "a case = one manifest (kind x instructions x blobs x children x preallocation x names); evaluations count generated manifests incl. excluded ones; non-trivial = distinct manifests (by SBOR encoding) inside the domain (survive manifest SBOR unchanged and pass StaticManifestInterpreter with ValidationRuleset::all()), each decompiled, recompiled and compared",
        nontrivial,
        true,
        cov,
        &[
            "network = simulator; blobs provided to the compiler = the manifest's own blobs",
            "domain filter (ii) uses the real static validator (DESIGN O7)",
            "value trees: stratified depth<=3/width<=2 space, not the full product (full product over ~110 leaves is ~10^8 per container form)",
        ],
    )
}
